#!/bin/bash
# tools/run_all.sh [tier] : run every claimed check on the current (clean) tree, rewrite evidence/, print a summary
TIER=${1:-quick}
cd /verif
git -C /repo status --short | grep -q . && { echo "/repo is dirty"; exit 3; }
IDS=$(python3 -c "import json; print(' '.join(c['property_id'] for c in json.load(open('MANIFEST.json'))['checks']))")
for id in $IDS; do
  s=$(date +%s)
  out=$(./check $id --tier $TIER 2>/tmp/run_all_$id.err); rc=$?
  echo "$id rc=$rc $(( $(date +%s) - s ))s $(echo "$out" | grep -c VIOLATION) violation(s) $(echo "$out" | grep -c KNOWN-FINDING) known"
done
python3-vt - <<'PY'
import json, jsonschema, glob
sch=json.load(open('/root/.vp/EVIDENCE.schema.json'))
for f in sorted(glob.glob('/verif/evidence/C*.json')):
    e=json.load(open(f)); jsonschema.validate(e, sch)
    c=e['coverage']
    if e['level']=='proof': assert c['obligations']==c['discharged'], (f, c['obligations'], c['discharged'])
print('evidence valid')
jsonschema.validate(json.load(open('/verif/MANIFEST.json')), json.load(open('/root/.vp/MANIFEST.schema.json')))
print('manifest valid')
PY
