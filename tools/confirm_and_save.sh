#!/bin/bash
# tools/confirm_and_save.sh <Cnn> <k> [checks…] : confirm a sub-agent's seeded change (/tmp/mutout/<Cnn><k>, worktree /tmp/mut/<Cnn><k>) with
# tools/confirm_mut_iso.sh; when everything is as required (333 tests pass with the patch, demo fails with / passes without, the check
# exits 1 with a failing-input replay) save it under seeded/<Cnn>-<k>/ and remove the worktree; otherwise print what needs attention.
ID=$1; K=$2
OUT=$(/verif/tools/confirm_mut_iso.sh "$@" 2>&1)
echo "$OUT" | cut -c1-400
T=$(echo "$OUT" | grep -c "tests with patch: 333 passed")
D=$(echo "$OUT" | grep -c "demo with patch rc=[1-9][0-9]* (want !=0), without rc=0")
C=$(echo "$OUT" | grep "check $ID rc=1" | grep -vc "no-failing-input-found")
if [ "$T" = 1 ] && [ "$D" = 1 ] && [ "$C" = 1 ]; then
  WHAT=$(echo "$OUT" | grep "   replay:" | head -1 | cut -c12-200 | tr '"' "'")
  python3 /verif/tools/save_seeded_c.py $ID $K "$ID (failing input replay: $WHAT)" && git -C /repo worktree remove --force /tmp/mut/$ID$K
  echo "SAVED $ID-$K"
else
  echo "NEEDS ATTENTION $ID-$K: tests=$T demo=$D check=$C"
fi
