#!/bin/bash
# tools/run_seeded.sh <seeded-id e.g. C02-a> [check-ids...] : apply a saved seeded change to /repo, run the
# checks (default: the property it breaks) with evidence written to a scratch directory, undo it straight afterwards.
S=$1; shift
ID=${S%%-*}
CHECKS=${@:-$ID}
P=/verif/seeded/$S/patch.diff
git -C /repo status --short | grep -q . && { echo "/repo is dirty"; exit 3; }
git -C /repo apply $P || { echo "PATCH DOES NOT APPLY TO /repo"; exit 3; }
trap 'git -C /repo checkout -- .' EXIT
mkdir -p /tmp/mutout/evidence
for c in $CHECKS; do
  s=$(date +%s)
  out=$(cd /verif && VERIF_EVIDENCE_DIR=/tmp/mutout/evidence timeout 3000 ./check $c --tier quick 2>/tmp/mutout/check_${S}_$c.err); rc=$?
  echo "$S check $c rc=$rc $(( $(date +%s) - s ))s :: $(echo "$out" | grep -c VIOLATION) violation line(s) :: $(echo "$out" | grep VIOLATION | head -2 | tr '\n' ' ')"
done
