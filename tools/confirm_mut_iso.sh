#!/bin/bash
# tools/confirm_mut_iso.sh <Cnn> <k> [check-ids...] : like confirm_mut.sh, but the checks run in an isolated copy
# (tools/run_seeded_iso.sh) so /repo and /verif/lean stay untouched while proof work goes on.
ID=$1; K=$2; shift 2
CHECKS=${@:-$ID}
W=/tmp/mut/$ID$K; O=/tmp/mutout/$ID$K
git -C $W checkout -q -- . || exit 3
git -C $W apply $O/patch.diff || { echo "PATCH DOES NOT APPLY"; exit 3; }
T=$(cd $W && PYTHONPATH=$W /venv/bin/python -m pytest -q -p no:cacheprovider test 2>&1 | tail -1)
echo "tests with patch: $T"
(cd /tmp && PYTHONPATH=$W timeout 300 /venv/bin/python $O/demo.py >$O/demo_with.txt 2>&1); D1=$?
git -C $W checkout -q -- .
(cd /tmp && PYTHONPATH=$W timeout 300 /venv/bin/python $O/demo.py >$O/demo_without.txt 2>&1); D0=$?
echo "demo with patch rc=$D1 (want !=0), without rc=$D0 (want 0)"
KEEP_LOG=1 /verif/tools/run_seeded_iso.sh $O/patch.diff $CHECKS
