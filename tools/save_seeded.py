#!/usr/bin/env python3
"""tools/save_seeded.py <Cnn> <a|b> <caught-by…> : keep a confirmed seeded change under /verif/seeded/<Cnn>-<k>/."""
import json, shutil, sys
from pathlib import Path
pid, k, caught = sys.argv[1], sys.argv[2], sys.argv[3:]
src = Path('/tmp/mutout') / pid / k
dst = Path('/verif/seeded') / ('%s-%s' % (pid, k))
dst.mkdir(parents=True, exist_ok=True)
shutil.copy(src / 'patch.diff', dst / 'patch.diff')
shutil.copy(src / 'demo.py', dst / 'demo.py')
meta = json.loads((src / 'meta.json').read_text())
out = {
    'property': pid,
    'breaks': meta.get('summary'),
    'needs': meta.get('needs'),
    'what_i_ran': [
        'git -C /tmp/mut/%s apply patch.diff; PYTHONPATH=/tmp/mut/%s /venv/bin/python -m pytest -q -p no:cacheprovider test  -> 333 passed' % (pid, pid),
        'PYTHONPATH=/tmp/mut/%s /venv/bin/python demo.py -> non-zero with the patch, 0 without' % pid,
        'git -C /repo apply patch.diff; ./check <id> --tier quick; git -C /repo checkout -- .',
    ],
    'caught_by': caught,
    'source': 'independent sub-agent given only the property text and a scratch worktree',
}
(dst / 'meta.json').write_text(json.dumps(out, indent=1) + '\n')
print('saved', dst)
