#!/usr/bin/env python3
"""tools/impl_coverage.py [n] : which executable lines of /repo/mistletoe does the harness's input stream reach?
Runs the document-level correspondence inputs (spec corpus, tree generator, mutations, malformed stream) through every
bundled renderer under sys.settrace and lists the lines never executed, per file.  A measurement of generator quality
(DESIGN.md 3.3): a line no input reaches is a line where a change cannot be seen by correspondence."""
import os, sys, random, types
sys.path.insert(0, '/verif/harness'); sys.path.insert(0, '/verif/harness/props')
import common, impl, gen_docs, gen_tree
REPO = str(common.REPO)
hit = {}
def tracer(frame, event, arg):
    fn = frame.f_code.co_filename
    if not fn.startswith(REPO + '/mistletoe'):
        return None
    s = hit.setdefault(fn, set())
    def local(frame, event, arg):
        if event == 'line':
            s.add(frame.f_lineno)
        return local
    s.add(frame.f_lineno)
    return local

def exec_lines(path):
    src = open(path).read()
    code = compile(src, path, 'exec')
    lines = set()
    def walk(c):
        for _, _, ln in c.co_lines():
            if ln: lines.add(ln)
        for k in c.co_consts:
            if isinstance(k, types.CodeType): walk(k)
    walk(code)
    return lines

def main():
    n = int(sys.argv[1]) if len(sys.argv) > 1 else 1500
    texts = [e['markdown'] for e in gen_docs.spec_examples()]
    texts += [gen_tree.generate(random.Random(s), gen_tree.Opts(glue=(s % 3 == 2)), None)[1] for s in range(n)]
    rng = random.Random(7)
    if hasattr(gen_docs, 'mutate'):
        texts += [gen_docs.mutate(rng, rng.choice(texts[:652])) for _ in range(n)]
    rs = [('HtmlRenderer', {}), ('HtmlRenderer', {'process_html_tokens': False}), ('MarkdownRenderer', {}), ('MarkdownRenderer', {'max_line_length': 30, 'normalize_whitespace': True}),
          ('LaTeXRenderer', {}), ('AstRenderer', {}), ('JiraRenderer', {}), ('XWiki20Renderer', {}), ('TocRenderer', {}), ('GithubWikiRenderer', {}),
          ('MathJaxRenderer', {}), ('PygmentsRenderer', {})]
    sys.settrace(tracer)
    for i, t in enumerate(texts):
        for r, kw in (rs if i < 652 else [rs[i % len(rs)]]):
            try:
                impl.parse_render(r, kw, t)
            except Exception:
                pass
    sys.settrace(None)
    tot = cov = 0
    for root, _, files in os.walk(REPO + '/mistletoe'):
        for f in sorted(files):
            if not f.endswith('.py'): continue
            p = os.path.join(root, f)
            ex = exec_lines(p)
            h = hit.get(p, set()) & ex
            miss = sorted(ex - h)
            tot += len(ex); cov += len(h)
            print('%-45s %4d/%4d  missing: %s' % (p[len(REPO)+1:], len(h), len(ex), ' '.join(map(str, miss))[:400]))
    print('total %d/%d' % (cov, tot))
main()
