#!/bin/bash
# tools/run_seeded_iso.sh <patch-file|seeded-id> <check-ids...> : run checks against a seeded change WITHOUT touching
# /repo or /verif/lean: a scratch worktree of /repo (with the patch) and a scratch copy of /verif (with its build
# output) are used; MISTLETOE_REPO points the copied harness at the worktree.  Both are removed afterwards.
# Used while proof work goes on in /verif/lean (regenerating Gen/* there would disturb it).  The registered way
# (tools/run_seeded.sh: apply to /repo, run, undo) gives the same result.
S=$1; shift
if [ -f "$S" ]; then P=$(realpath "$S"); TAG=$(basename "$(dirname "$P")"); else P=/verif/seeded/$S/patch.diff; TAG=$S; fi
CHECKS="$@"
[ -z "$CHECKS" ] && CHECKS=${TAG%%-*}
WT=/tmp/iso-wt-$TAG-$$; VC=/tmp/iso-verif-$TAG-$$
git -C /repo worktree add -q --detach $WT HEAD || exit 3
trap 'git -C /repo worktree remove --force '$WT' 2>/dev/null; rm -rf '$VC' /tmp/iso-out-'$TAG-$$ EXIT
git -C $WT apply "$P" || { echo "PATCH DOES NOT APPLY"; exit 3; }
mkdir -p $VC && rsync -a --exclude .git --exclude evidence/replays /verif/ $VC/
OUT=/tmp/iso-out-$TAG-$$; mkdir -p $OUT
for c in $CHECKS; do
  s=$(date +%s)
  out=$(cd $VC && MISTLETOE_REPO=$WT VERIF_EVIDENCE_DIR=$OUT timeout 3000 ./check $c --tier quick 2>$OUT/$c.err); rc=$?
  echo "$TAG check $c rc=$rc $(( $(date +%s) - s ))s :: $(echo "$out" | grep -c VIOLATION) violation line(s) :: $(echo "$out" | grep VIOLATION | head -2 | tr '\n' ' ')"
  [ -n "$KEEP_LOG" ] && cp $OUT/$c.err /tmp/iso-last-$TAG-$c.err
  for r in $(echo "$out" | grep -o 'replay=[^ ]*' | head -1 | cut -d= -f2); do [ -f "$r" ] && python3 -c "
import json,sys; d=json.load(open('$r')); print('   replay:', str(d.get('what') or d.get('broken'))[:500])"; done
done
