#!/usr/bin/env python3
"""tools/save_seeded_c.py <Cnn> <k> <caught-by…> : keep a confirmed seeded change (/tmp/mutout/<Cnn><k>/) under /verif/seeded/<Cnn>-<k>/."""
import json, shutil, sys
from pathlib import Path
pid, k, caught = sys.argv[1], sys.argv[2], sys.argv[3:]
src = Path('/tmp/mutout') / (pid + k)
dst = Path('/verif/seeded') / ('%s-%s' % (pid, k))
dst.mkdir(parents=True, exist_ok=True)
shutil.copy(src / 'patch.diff', dst / 'patch.diff')
shutil.copy(src / 'demo.py', dst / 'demo.py')
notes = json.loads((src / 'notes.json').read_text())
out = {
    'property': pid,
    'breaks': notes.get('breaks'),
    'needs': notes.get('needs'),
    'what_i_ran': [
        'tools/confirm_mut(_iso).sh %s %s: patch applies to a clean worktree; pytest -> 333 passed with the patch; demo.py non-zero with the patch, 0 without' % (pid, k),
        'checks run against the patched tree (tools/run_seeded.sh: git -C /repo apply, ./check <id> --tier quick, git -C /repo checkout -- .; or tools/run_seeded_iso.sh: the same in a scratch worktree + scratch copy of /verif via MISTLETOE_REPO)',
    ],
    'caught_by': caught,
    'source': 'independent sub-agent given only the property text and a scratch worktree (round %s)' % k,
}
(dst / 'meta.json').write_text(json.dumps(out, indent=1) + '\n')
print('saved', dst)
