#!/bin/bash
# tools/verify_mut.sh <Cnn> <a|b> [check-ids...] : confirm a sub-agent's seeded change, then run checks on it.
# 1. in the scratch worktree /tmp/mut/<Cnn>: patch applies, 333 tests pass, demo fails; without patch demo passes
# 2. apply to /repo, run ./check for the listed ids (default: the property itself), undo straight afterwards
ID=$1; K=$2; shift 2
CHECKS=${@:-$ID}
W=/tmp/mut/$ID; O=/tmp/mutout/$ID/$K
[ -d "$W" ] || git -C /repo worktree add -q --detach "$W" HEAD
git -C $W checkout -q -- . || exit 3
git -C $W apply $O/patch.diff || { echo "PATCH DOES NOT APPLY"; exit 3; }
T=$(cd $W && PYTHONPATH=$W /venv/bin/python -m pytest -q -p no:cacheprovider test 2>&1 | tail -1)
echo "tests with patch: $T"
(cd /tmp && PYTHONPATH=$W /venv/bin/python $O/demo.py >/tmp/mutout/$ID/$K/demo_with.txt 2>&1); D1=$?
git -C $W checkout -q -- .
(cd /tmp && PYTHONPATH=$W /venv/bin/python $O/demo.py >/tmp/mutout/$ID/$K/demo_without.txt 2>&1); D0=$?
echo "demo with patch rc=$D1 (want !=0), without rc=$D0 (want 0)"
git -C /repo apply $O/patch.diff || { echo "PATCH DOES NOT APPLY TO /repo"; exit 3; }
for c in $CHECKS; do
  out=$(cd /verif && VERIF_EVIDENCE_DIR=/tmp/mutout/evidence timeout 1800 ./check $c --tier quick 2>/tmp/mutout/$ID/$K/check_$c.err); rc=$?
  echo "check $c rc=$rc :: $(echo "$out" | grep -c VIOLATION) violation line(s) :: $(echo "$out" | grep VIOLATION | head -2 | tr '\n' ' ')"
done
git -C /repo checkout -- .
git -C /repo status --short | head -3
