#!/bin/bash
# tools/confirm_mut.sh <Cnn> <k> [check-ids...] : confirm a sub-agent's seeded change kept in /tmp/mutout/<Cnn><k>/ (patch.diff, demo.py)
# in the scratch worktree /tmp/mut/<Cnn><k>: the patch applies to a clean checkout, the 333 tests pass with it, the demo
# fails with it and passes without; then apply it to /repo, run the checks (default: the property itself) with evidence in a
# scratch directory, and undo it straight afterwards.
ID=$1; K=$2; shift 2
CHECKS=${@:-$ID}
W=/tmp/mut/$ID$K; O=/tmp/mutout/$ID$K
git -C $W checkout -q -- . || exit 3
git -C $W apply $O/patch.diff || { echo "PATCH DOES NOT APPLY"; exit 3; }
T=$(cd $W && PYTHONPATH=$W /venv/bin/python -m pytest -q -p no:cacheprovider test 2>&1 | tail -1)
echo "tests with patch: $T"
(cd /tmp && PYTHONPATH=$W timeout 300 /venv/bin/python $O/demo.py >$O/demo_with.txt 2>&1); D1=$?
git -C $W checkout -q -- .
(cd /tmp && PYTHONPATH=$W timeout 300 /venv/bin/python $O/demo.py >$O/demo_without.txt 2>&1); D0=$?
echo "demo with patch rc=$D1 (want !=0), without rc=$D0 (want 0)"
git -C /repo status --short | grep -q . && { echo "/repo is dirty"; exit 3; }
git -C /repo apply $O/patch.diff || { echo "PATCH DOES NOT APPLY TO /repo"; exit 3; }
trap 'git -C /repo checkout -- .' EXIT
mkdir -p /tmp/mutout/evidence
for c in $CHECKS; do
  s=$(date +%s)
  out=$(cd /verif && VERIF_EVIDENCE_DIR=/tmp/mutout/evidence timeout 3000 ./check $c --tier quick 2>$O/check_$c.err); rc=$?
  echo "check $c rc=$rc $(( $(date +%s) - s ))s :: $(echo "$out" | grep -c VIOLATION) violation line(s) :: $(echo "$out" | grep VIOLATION | head -2 | tr '\n' ' ')"
done
