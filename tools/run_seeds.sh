#!/bin/bash
# tools/run_seeds.sh [seeds…] : every quick check on the clean tree under several VERIF_SEED values (evidence in a scratch directory);
# prints only what is not "rc=0, no violation".  A check that alarms here on the unchanged tree is broken (false alarm) or has found a defect.
SEEDS=${@:-1 2 3 4}
cd /verif
IDS=$(python3 -c "import json; print(' '.join(c['property_id'] for c in json.load(open('MANIFEST.json'))['checks']))")
for sd in $SEEDS; do
  for id in $IDS; do
    out=$(VERIF_SEED=$sd VERIF_EVIDENCE_DIR=/tmp/ev_seeds timeout 3000 ./check $id --tier quick 2>/tmp/ev_seeds_$id.err); rc=$?
    nv=$(echo "$out" | grep -c VIOLATION)
    if [ $rc -ne 0 ] || [ $nv -ne 0 ]; then echo "seed=$sd $id rc=$rc violations=$nv :: $(echo "$out" | grep VIOLATION | head -2 | tr '\n' ' ')"; fi
  done
  echo "seed $sd done"
done
