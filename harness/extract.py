"""
Translator: regenerates lean/Mistletoe/Gen/*.lean from the /repo working tree on every run, by
introspection of the imported modules (DESIGN.md section 3.1).  Files are rewritten only when
their bytes change, so an unchanged tree costs no rebuild.
"""
import os
import sys
from pathlib import Path

ROOT = Path(__file__).resolve().parent.parent
GEN = ROOT / 'lean' / 'Mistletoe' / 'Gen'
REPO = Path(os.environ.get('MISTLETOE_REPO', '/repo'))


def lean_str(s: str) -> str:
    """A Lean `List Char` literal for a Python string (code points, so no quoting pitfalls)."""
    return '[' + ', '.join('Char.ofNat %d' % ord(c) for c in s) + ']'


def lean_list(xs) -> str:
    return '[' + ', '.join(xs) + ']'


def write_if_changed(path: Path, text: str):
    if path.exists() and path.read_text() == text:
        return False
    tmp = path.with_suffix('.tmp%d' % os.getpid())
    tmp.write_text(text)
    os.replace(tmp, path)
    return True


GENERATORS = []


def generator(fn):
    GENERATORS.append(fn)
    return fn


def regenerate(log=print):
    if str(REPO) not in sys.path:
        sys.path.insert(0, str(REPO))
    GEN.mkdir(parents=True, exist_ok=True)
    changed = []
    for g in GENERATORS:
        name, text = g()
        if write_if_changed(GEN / name, text):
            changed.append(name)
    if changed:
        log('regenerated: ' + ', '.join(changed))
    return changed


if __name__ == '__main__':
    print(regenerate())
