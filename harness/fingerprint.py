"""
Source fingerprints (DESIGN.md 3.1): a hash of the `ast.unparse` text of every function, method and class-level assignment of the modelled
modules of the working tree.  NEVER used to raise an alarm - a harmless rewrite changes a fingerprint too.  Used to (1) widen
the budget of a run when the source differs from the one the model was last validated against (harness/fingerprints.json,
refreshed with `python harness/fingerprint.py --update` whenever /repo gets a commit of ours), and (2) name in the evidence what
changed, so a reader sees which parts of the tie were exercised against new code.
"""
import ast
import hashlib
import json
import sys
from pathlib import Path

HERE = Path(__file__).resolve().parent
BASELINE = HERE / 'fingerprints.json'
MODULES = ['block_token.py', 'block_tokenizer.py', 'span_token.py', 'span_tokenizer.py', 'core_tokens.py', 'token.py', 'utils.py',
           'base_renderer.py', 'html_renderer.py', 'markdown_renderer.py', 'latex_renderer.py', 'latex_token.py', 'ast_renderer.py',
           '__init__.py', 'cli.py', 'contrib/toc_renderer.py', 'contrib/github_wiki.py', 'contrib/mathjax.py',
           'contrib/pygments_renderer.py', 'contrib/jira_renderer.py', 'contrib/xwiki20_renderer.py']


def _h(node):
    # the unparsed source, not ast.dump: the dump format differs between Python versions, the unparsed text does not (comments and
    # layout are gone either way)
    return hashlib.sha256(ast.unparse(node).encode()).hexdigest()[:12]


def compute(repo):
    out = {}
    for m in MODULES:
        p = Path(repo) / 'mistletoe' / m
        try:
            tree = ast.parse(p.read_text())
        except (OSError, SyntaxError) as e:
            out[m] = {'<module>': 'unreadable: %s' % type(e).__name__}
            continue
        d = {}

        def visit(body, prefix):
            for n in body:
                if isinstance(n, (ast.FunctionDef, ast.AsyncFunctionDef)):
                    d[prefix + n.name] = _h(n)
                elif isinstance(n, ast.ClassDef):
                    visit(n.body, prefix + n.name + '.')
                    d[prefix + n.name + '.<bases>'] = _h(ast.Module(body=[ast.Expr(b) for b in n.bases], type_ignores=[]))
                elif isinstance(n, (ast.Assign, ast.AnnAssign, ast.AugAssign)):
                    t = n.targets[0] if isinstance(n, ast.Assign) else n.target
                    d[prefix + ast.unparse(t)] = _h(n)
        visit(tree.body, '')
        out[m] = d
    return out


def changed(repo):
    """names (module:qualname) whose fingerprint differs from the baseline, or that appeared / disappeared"""
    if not BASELINE.exists():
        return ['<no baseline>']
    base = json.loads(BASELINE.read_text())
    cur = compute(repo)
    out = []
    for m in sorted(set(base) | set(cur)):
        b, c = base.get(m, {}), cur.get(m, {})
        for k in sorted(set(b) | set(c)):
            if b.get(k) != c.get(k):
                out.append('%s:%s' % (m, k))
    return out


if __name__ == '__main__':
    repo = '/repo'
    if '--update' in sys.argv:
        BASELINE.write_text(json.dumps(compute(repo), indent=0, sort_keys=True) + '\n')
        print('baseline written:', sum(len(v) for v in compute(repo).values()), 'fingerprints')
    else:
        print(changed(repo))
