"""Entry point: ./check <ID> [--tier quick|thorough] [--replay path]  (see DESIGN.md section 4)."""
import argparse
import importlib
import json
import os
import sys
import traceback
from pathlib import Path

sys.path.insert(0, str(Path(__file__).resolve().parent))
import common  # noqa: E402


def main():
    ap = argparse.ArgumentParser()
    ap.add_argument('prop')
    ap.add_argument('--tier', default=os.environ.get('VERIF_TIER', 'quick'), choices=['quick', 'thorough'])
    ap.add_argument('--replay')
    a = ap.parse_args()
    seed = int(os.environ.get('VERIF_SEED', '0') or 0)
    prop = a.prop.upper()
    try:
        mod = importlib.import_module('props.' + prop.lower())
    except ImportError:
        print('no check for property %s' % prop, file=sys.stderr)
        traceback.print_exc()
        return 2
    try:
        if a.replay:
            payload = json.loads(Path(a.replay).read_text())
            if payload.get('kind') != 'failing-input':
                print(json.dumps(payload, indent=1))
                print('replay file names broken obligations, no failing input to replay')
                return 1
            fails, detail = mod.check_witness(payload['witness'])
            print(detail)
            if fails:
                print('VIOLATION property=%s replay=%s' % (prop, a.replay))
                return 1
            print('witness no longer fails')
            return 0
        return common.run_check(mod, a.tier, seed)
    except common.MachineryError as e:
        print('machinery error: %s' % e, file=sys.stderr)
        return 2
    except Exception:
        traceback.print_exc()
        return 2


if __name__ == '__main__':
    sys.exit(main())
