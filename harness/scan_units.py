"""
`scan.*` / `py.*` correspondence units: every hand-written scanner of Model/Scan.lean against the
compiled pattern object of the working tree, called the way the call site calls it; exhaustively
over each pattern's own small alphabet, plus every line of the spec corpus and random lines.
"""
import itertools

import gen_docs
from common import driver_batch


def real(fn):
    from mistletoe import block_token as bt
    from mistletoe.markdown_renderer import BlankLine

    def g(m, *idx):
        return None if m is None else [m.group(i) for i in idx]
    table = {
        'heading': lambda s: (lambda m: None if m is None else [len(m.group(1)), m.group(2), m.group(3)])(bt.Heading.pattern.match(s)),
        'setext': lambda s: bt.Paragraph.setext_pattern.match(s) is not None,
        'codeFence': lambda s: (lambda m: None if m is None else [len(m.group(1)), m.group(2), m.group(3), m.group(4)])(bt.CodeFence.pattern.match(s)),
        'listStart': lambda s: bt.List.pattern.match(s) is not None,
        'listItem': lambda s: (lambda m: None if m is None else [m.group(1), m.group(2), m.group(3), s[m.end(0):]])(bt.ListItem.pattern.match(s)),
        'continuation': lambda s: g(bt.ListItem.continuation_pattern.match(s), 1, 2),
        'thematicBreak': lambda s: bt.ThematicBreak.pattern.match(s) is not None,
        'delimiterRow': lambda s: bt.Table.delimiter_row_pattern.fullmatch(s) is not None,
        'findAligns': lambda s: bt.Table.column_align_pattern.findall(s),
        'multiblock': lambda s: (lambda m: None if m is None else m.group(1))(bt.HtmlBlock.multiblock.match(s)),
        'predefined': lambda s: (lambda m: None if m is None else m.group(1))(bt.HtmlBlock.predefined.match(s)),
        'customTag': lambda s: bt.HtmlBlock.custom_tag.match(s) is not None,
        'blankLine': lambda s: BlankLine.pattern.match(s) is not None,
        'expandtabs': lambda s: s.expandtabs(4),
        'strip': lambda s: s.strip(),
        'lstrip': lambda s: s.lstrip(),
        'rstrip': lambda s: s.rstrip(),
        'split': lambda s: s.split(),
    }
    return table[fn]


ALPHABETS = {
    'heading': ['#', ' ', 'a', '\n', '\t', '\\'],
    'setext': ['=', '-', ' ', 'a', '\n'],
    'codeFence': ['`', '~', ' ', 'a', '\n', '\t'],
    'listStart': ['-', '1', '.', ')', ' ', 'a', '\n', '\t', '*'],
    'listItem': ['-', '1', '.', ')', ' ', 'a', '\n', '\t', '+'],
    'continuation': [' ', '\t', 'a', '\n', '\x0b', '-'],
    'thematicBreak': ['-', '*', '_', ' ', 'a', '\n', '\t'],
    'delimiterRow': ['|', '-', ':', ' ', 'a', '\n'],
    'findAligns': ['|', '-', ':', ' ', 'a'],
    'multiblock': ['<', 'p', 'r', 'e', '>', ' ', '\n'],
    'predefined': ['<', '/', 'p', '>', ' ', '\n', 'a'],
    'customTag': ['<', '/', 'a', '>', ' ', '=', '"', "'", '\n', '-'],
    'blankLine': [' ', '\n', 'a', '\t', '\x0c'],
    'expandtabs': ['\t', ' ', 'a', '\n'],
    'strip': [' ', 'a', '\n', '\x0b', ' '],
    'lstrip': [' ', 'a', '\n', '\x1c'],
    'rstrip': [' ', 'a', '\n', '\x85'],
    'split': [' ', 'a', 'b', '\n', '\xa0'],
}
EXTRA = ['####### x\n', '# foo ## \n', '#\tfoo\n', '#5\n', '   ### a ###   \n', '    # a\n', '# ## \n', '# #\n', '#  \n', '``` py x\n', '~~~~\n',
         '``` a`b\n', '1234567890. x\n', '123456789) x\n', '٣. x\n', '-   x\n', '-\tx\n', '-     x\n', '* * *\n', '- - -\t\n', '_ _ _ _\n', ' **  * ** \n',
         '|---|:-:|\n', '--- | ---\n', ':--\n', '| - |\n', '||-|\n', '<div class="x">\n', '<a b=c d=\'e\' f="g" h>\n', '</a >\n', '<a b=>\n', '<a/>\n', '<a /> x\n',
         '<pre>\n', '<PRE>\n', '<script src=x>\n', '<div/>\n', '</div>\n', '<!x\n', '<a b = c>\n', '<a:b c>\n', '<a_b>\n', '<a b="c\n', "<a b='c'd>\n", '<a b=c/>\n']


def cases(fn, depth):
    alpha = ALPHABETS[fn]
    for k in range(0, depth + 1):
        for tup in itertools.product(alpha, repeat=k):
            yield ''.join(tup)


def run(ctx, fns=None, depth=None):
    rng = ctx.rng('scan')
    corpus_lines = sorted({l for t in gen_docs.spec_texts() for l in t.splitlines(keepends=True)})
    rand = [gen_docs.random_line(rng) + '\n' for _ in range(ctx.budget(1500, 20000))]
    for fn in (fns or list(ALPHABETS)):
        d = depth or (5 if not ctx.thorough else 7)
        if len(ALPHABETS[fn]) >= 9:
            d -= 1
        strings = list(cases(fn, d)) + EXTRA + corpus_lines + rand
        strings += [s.lstrip() for s in EXTRA + corpus_lines[:300]] if fn in ('multiblock', 'predefined', 'customTag') else []
        f = real(fn)
        model = driver_batch([{'op': 'scan', 'fn': fn, 's': s} for s in strings])
        for s, m in zip(strings, model):
            ctx.compare('scan.' + fn, {'s': s}, m, f(s))
