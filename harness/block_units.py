"""
`block.buffer` correspondence unit: the real `block_tokenizer.tokenize_block(lines, _token_types)`
(block phase only: parse buffer with line numbers, looseness and the definitions handed to
append_footnotes) against the Lean model `Block.blockPhase` under the same token list.
"""
import impl
from common import driver_batch


class _Root:
    def __init__(self):
        self.footnotes = {}


def canon(buf):
    """ParseBuffer -> JSON in the shape lean/Driver/Block.lean prints."""
    from mistletoe import block_tokenizer
    out = []
    for token_type, result, ln in buf:
        name = token_type.__name__
        if name == 'Quote':
            payload = canon(result)
        elif name == 'Heading':
            payload = [result[0], result[1], result[2]]
        elif name == 'CodeFence':
            payload = [list(result[0]), [result[1][0], result[1][1], result[1][2], result[1][3]]]
        elif name == 'List':
            payload = [[canon(m[0]), m[1], m[2], m[3], m[4]] for m in result]
        elif name == 'Table':
            payload = [list(result[0]), result[1]]
        elif name in ('Footnote', 'LinkReferenceDefinitionBlock'):
            payload = [[m[0], m[1], m[2], m[3], m[4]] for m in result]
        elif name == 'Paragraph':
            if isinstance(result, tuple):
                name = 'Setext'
            payload = list(result)
        elif name == 'BlankLine':
            payload = None
        else:
            payload = list(result)
        out.append([name, payload, ln])
    return [out, bool(buf.loose)]


def real_block_phase(rname, kwargs, lines):
    """Returns ({'buffer':…, 'defs':…} | {'raises': name}, token type names)."""
    from mistletoe import block_token, block_tokenizer, token
    R = impl.renderer_class(rname) if rname else None
    defs = []
    orig_append = block_token.Footnote.append_footnotes

    def spy(matches, root):
        defs.extend([m[0], m[1], m[2], m[3], m[4]] for m in matches)
        return orig_append(matches, root)
    try:
        with impl.time_limit(20):
            ctx = R(**kwargs) if R else None
            try:
                types = [t.__name__ for t in block_token._token_types]
                block_token.Footnote.append_footnotes = staticmethod(spy)
                token._root_node = _Root()
                try:
                    buf = block_tokenizer.tokenize_block(lines, block_token._token_types)
                    res = {'buffer': canon(buf), 'defs': defs}
                except Exception as e:
                    res = {'raises': type(e).__name__}
            finally:
                block_token.Footnote.append_footnotes = staticmethod(orig_append)
                if ctx is not None:
                    ctx.__exit__(None, None, None)
        return res, types
    finally:
        impl.reset_library()


def lines_of(text):
    ls = text.splitlines(keepends=True)
    return [l if l.endswith('\n') else l + '\n' for l in ls]


TOKEN_SETS = [('HtmlRenderer', {}), ('MarkdownRenderer', {}), ('AstRenderer', {}), ('HtmlRenderer', {'process_html_tokens': False})]


def run(ctx, texts, unit='block.buffer', sets=None):
    reqs, exp, meta = [], [], []
    for i, t in enumerate(texts):
        rname, kw = (sets or TOKEN_SETS)[i % len(sets or TOKEN_SETS)]
        lines = lines_of(t)
        res, types = real_block_phase(rname, kw, lines)
        reqs.append({'op': 'block.parse', 'types': types, 'lines': lines, 'fuel': 1000000})
        exp.append(res)
        meta.append({'text': t, 'renderer': rname, 'kwargs': kw})
    model = driver_batch(reqs)
    for case, e, m in zip(meta, exp, model):
        if isinstance(m, dict) and 'raises' in m and 'raises' in e:
            m, e = {'raises': True}, {'raises': True}
        ctx.compare(unit, case, m, e, kind=case['renderer'])
