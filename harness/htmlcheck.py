"""
Executable form of the C08 predicate for *implementation output*: a strict lexer for the HTML
renderer's own output language plus a nesting check.  It accepts exactly the strings
`flat evs` for event lists `evs` that are `Pred.WellFormed` (Lean: Mistletoe/Model/Pred.lean):
tags of the fixed vocabulary, attributes `name="value"` with fixed names and values free of
`"`, `<`, `>`, text free of `<`, `>` and with `&` only as `&amp; &lt; &gt; &quot; &#x27;`.
Raw HTML is set aside by the caller (replaced by opaque placeholders before rendering).
"""
import re

VOCAB = {'p', 'h1', 'h2', 'h3', 'h4', 'h5', 'h6', 'blockquote', 'pre', 'code', 'ul', 'ol', 'li', 'table',
         'thead', 'tbody', 'tr', 'th', 'td', 'hr', 'br', 'em', 'strong', 'del', 'a', 'img'}
VOID = {'hr', 'br', 'img'}
ATTRS = {'src', 'alt', 'title', 'href', 'class', 'start', 'align'}
ENTITIES = ('&amp;', '&lt;', '&gt;', '&quot;', '&#x27;')
PLACEHOLDER = re.compile('\x00RAW[0-9]+\x00')

TAG = re.compile(r'<(/?)([A-Za-z][A-Za-z0-9]*)((?: [A-Za-z]+="[^"<>]*")*)( /)?>')
ATTR = re.compile(r' ([A-Za-z]+)="([^"<>]*)"')


def check(out, allow_placeholders=False):
    """Returns None if `out` is well-formed, else a description of the first problem."""
    stack = []
    i = 0
    n = len(out)
    while i < n:
        c = out[i]
        if c == '<':
            m = TAG.match(out, i)
            if not m:
                return 'stray "<" or malformed tag at offset %d: %r' % (i, out[max(0, i - 20):i + 40])
            closing, name, attrs, void = m.group(1), m.group(2), m.group(3), m.group(4)
            if name not in VOCAB:
                return 'tag <%s> is not in the renderer vocabulary (offset %d)' % (name, i)
            for a in ATTR.finditer(attrs):
                if a.group(1) not in ATTRS:
                    return 'attribute %s is not one the renderer writes (offset %d)' % (a.group(1), i)
            if closing:
                if attrs or void:
                    return 'closing tag with attributes at offset %d' % i
                if not stack or stack[-1] != name:
                    return 'closing tag </%s> does not match open %r (offset %d)' % (name, stack[-1:] or None, i)
                stack.pop()
            elif void:
                if name not in VOID:
                    return 'non-void tag <%s /> self-closed (offset %d)' % (name, i)
            else:
                if name in VOID:
                    return 'void tag <%s> not self-closed (offset %d)' % (name, i)
                stack.append(name)
            i = m.end()
        elif c == '>':
            return 'unescaped ">" in text at offset %d: %r' % (i, out[max(0, i - 30):i + 10])
        elif c == '&':
            if not out.startswith(ENTITIES, i):
                return 'unescaped "&" in text at offset %d: %r' % (i, out[max(0, i - 20):i + 20])
            i += 1
        elif c == '\x00' and allow_placeholders:
            m = PLACEHOLDER.match(out, i)
            if not m:
                return 'NUL in text at offset %d' % i
            i = m.end()
        else:
            i += 1
    if stack:
        return 'unclosed tags at end of output: %r' % stack
    return None
