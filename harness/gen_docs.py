"""
Input generators shared by the checks (DESIGN.md section 3.2): the vendored CommonMark corpus,
mutations and splices of it, random strings over Markdown-significant alphabets, and a
malformed stream.  Every choice derives from the `random.Random` passed in.
"""
import json
from pathlib import Path

ROOT = Path(__file__).resolve().parent.parent
_spec = None

SIGNIFICANT = list('*_`[]()<>!#-+=~|\\&;:"\'./ \n\t>0123456789.)')
LETTERS = list('abcxyzAZ') + ['é', 'ß', 'ẞ', 'Ω', '中', ' ', ' ', '«', '»', '“', '”', '…']
LINE_STARTS = ['', '', '', '# ', '## ', '> ', '>', '- ', '* ', '+ ', '1. ', '2) ', '    ', '   ', '  ', ' ',
               '```', '~~~', '---', '***', '___', '===', '|', '[a]: ', '<div>', '<!--', '\t', '10. ', '-\t']
WORDS = ['foo', 'bar', 'baz', 'a', 'b', '*a*', '**b**', '_c_', '__d__', '`code`', '``c`d``', '[l](u)',
         '[l](u "t")', '![i](s)', '[r][a]', '[a]', '[a][]', '<http://x.y>', '<a@b.c>', '<b>', '</b>',
         '&amp;', '&#35;', '&copy;', '\\*', '\\\\', '~~s~~', 'x_y_z', '2*3*4', 'a|b', '|', '---', '===',
         '1.', '-', '+', '>', '#', '$x$', '{{m}}', '[[w|t]]', '\\', '  ', 'é', '“q”', '<!-- c -->', '<?p?>',
         '![', '](', ')', '"', "'", '&', '<', '*', '_', '`', '[', ']', '!']


def spec_examples():
    global _spec
    if _spec is None:
        _spec = json.loads((ROOT / 'corpus' / 'spec-0.30.json').read_text())
    return _spec


def spec_texts():
    return [e['markdown'] for e in spec_examples()]


def mutate(rng, text, n=None):
    """Character-level mutation biased to Markdown-significant characters."""
    s = list(text)
    for _ in range(n if n is not None else rng.randint(1, 3)):
        op = rng.random()
        if not s:
            s.append(rng.choice(SIGNIFICANT))
            continue
        i = rng.randrange(len(s))
        if op < 0.35:
            s.insert(i, rng.choice(SIGNIFICANT if rng.random() < 0.8 else LETTERS))
        elif op < 0.6:
            del s[i]
        elif op < 0.8:
            s[i] = rng.choice(SIGNIFICANT if rng.random() < 0.8 else LETTERS)
        elif op < 0.9 and len(s) > 1:
            j = rng.randrange(len(s))
            s[i], s[j] = s[j], s[i]
        else:
            # duplicate a slice
            j = min(len(s), i + rng.randint(1, 6))
            s[i:i] = s[i:j]
    return ''.join(s)


def splice(rng, a, b):
    la = a.splitlines(keepends=True)
    lb = b.splitlines(keepends=True)
    i = rng.randint(0, len(la))
    j = rng.randint(0, len(lb))
    return ''.join(la[:i] + lb[j:])


def random_line(rng, maxwords=6):
    words = [rng.choice(WORDS) for _ in range(rng.randint(0, maxwords))]
    return rng.choice(LINE_STARTS) + ' '.join(words)


def random_doc(rng, maxlines=8):
    lines = []
    for _ in range(rng.randint(0, maxlines)):
        r = rng.random()
        if r < 0.15:
            lines.append('')
        elif r < 0.3 and lines:
            # continuation with the previous line's indentation / container prefix
            prev = lines[-1]
            k = len(prev) - len(prev.lstrip(' >'))
            lines.append(prev[:k] + random_line(rng))
        else:
            lines.append(rng.choice(['', '', '> ', '  ', '   ', '    ', '- ']) * rng.randint(0, 2) + random_line(rng))
    text = '\n'.join(lines)
    if rng.random() < 0.7:
        text += '\n'
    return text


def random_string(rng, alphabet=None, maxlen=40):
    alphabet = alphabet or (SIGNIFICANT + LETTERS)
    return ''.join(rng.choice(alphabet) for _ in range(rng.randint(0, maxlen)))


def malformed(rng, maxlen=60):
    """Random Unicode incl. every splitlines separator and control characters."""
    pool = ['\r', '\x0b', '\x0c', '\x1c', '\x1d', '\x1e', '\x85', ' ', ' ', '\x00', '\x7f',
            '﻿', '\U0001F600', '́', '\t', '\n', ' '] + SIGNIFICANT
    return ''.join(rng.choice(pool) for _ in range(rng.randint(0, maxlen)))


def corpus_stream(rng, n, only_lf=True, mix=(0.25, 0.3, 0.15, 0.2, 0.1)):
    """n texts: spec examples, mutations, splices, random docs, random strings."""
    specs = spec_texts()
    out = []
    for i in range(n):
        r = rng.random()
        if r < mix[0]:
            t = rng.choice(specs)
        elif r < mix[0] + mix[1]:
            t = mutate(rng, rng.choice(specs))
        elif r < mix[0] + mix[1] + mix[2]:
            t = splice(rng, rng.choice(specs), rng.choice(specs))
        elif r < mix[0] + mix[1] + mix[2] + mix[3]:
            t = random_doc(rng)
        else:
            t = random_string(rng)
        if only_lf:
            t = ''.join(c for c in t if c == '\n' or len(('a' + c + 'b').splitlines()) == 1)
        out.append(t)
    # one in sixteen: a document that repeats the same source text in several places (see `repetitive`)
    k = n // 16
    if k:
        rep = repetitive(rng, specs, k)
        for j, t in enumerate(rep):
            out[(j * 16 + 7) % n] = t
    return out


def repetitive(rng, texts, n):
    """Documents in which the SAME piece of source text occurs several times (identical table cells, list items, paragraphs,
    headings, link texts, code spans): memoisation keyed on text - sharing token objects, or reusing a decision made for an
    identical string elsewhere - shows only on such documents."""
    cells = ['x', '*e*', '`c`', '[l](u)', 'a b', '', '**s** t', '<b>']
    out = []
    for _ in range(n):
        r = rng.random()
        if r < 0.35:
            c = [rng.choice(cells) for _ in range(2)]
            ncol = rng.randint(2, 3)
            row = lambda: '| ' + ' | '.join(rng.choice(c) for _ in range(ncol)) + ' |'
            t = '\n'.join([row(), '|' + '---|' * ncol] + [row() for _ in range(rng.randint(1, 3))]) + '\n'
        elif r < 0.6:
            item = rng.choice(cells[:7]) or 'x'
            t = '\n'.join(rng.choice(['- ', '1. ', '> ', '# ', '']) + item for _ in range(rng.randint(2, 4))) + '\n'
        elif r < 0.8:
            base = rng.choice(texts)
            lines = base.split('\n')
            k = rng.randrange(len(lines))
            t = '\n'.join(lines[:k + 1] + ['', lines[k], ''] + lines[k + 1:])
        else:
            piece = rng.choice(cells[1:5])
            t = '%s and %s\n\n> %s\n\n- %s\n- %s\n' % (piece, piece, piece, piece, piece)
        out.append(t)
    return out
