"""
`jira.render` / `xwiki.render` / `latex.text` correspondence units: the real `JiraRenderer().render(Document(text))`,
`XWiki20Renderer().render(Document(text))` and `LaTeXRenderer().render(Document(text))` (inside `with R() as r:`; process-global parser state reset after every
case) against the Lean models `Document.parse` + `Jira.render` / `XWiki.render` (lean/Mistletoe/Model/Jira.lean,
XWiki.lean; driver ops "jira.render", "xwiki.render"), byte for byte, on two paths: from the text (parser model +
renderer model) and from the exported real token tree (renderer model alone).
"""
import re

import export
import impl
from common import driver_batch

RENDERERS = [('JiraRenderer', 'jira.render'), ('XWiki20Renderer', 'xwiki.render'), ('LaTeXRenderer', 'latex.text')]


def real(rname, text):
    from mistletoe import Document, block_token, span_token
    R = impl.renderer_class(rname)
    try:
        with impl.time_limit(20):
            with R() as r:
                btypes = [t.__name__ for t in block_token._token_types]
                stypes = [t.__name__ for t in span_token._token_types[:-1]]
                tree = None
                try:
                    doc = Document(text)
                    try:
                        tree = export.export_doc(doc, check_parent=False)
                    except export.ShapeError:
                        tree = None
                    res = {'out': r.render(doc)}
                except impl.Timeout:
                    raise
                except Exception as e:
                    res = {'raises': True}
        return res, btypes, stypes, tree
    finally:
        impl.reset_library()


def run(ctx, texts, unit_prefix=''):
    reqs, exp, meta = [], [], []
    for i, t in enumerate(texts):
        rname, op = RENDERERS[i % len(RENDERERS)]
        res, btypes, stypes, tree = real(rname, t)
        if True:
            reqs.append({'op': op, 'text': t, 'types': btypes, 'span': stypes, 'fuel': 1000000})
            exp.append(res)
            meta.append((unit_prefix + op, {'text': t}, 'text'))
        if tree is not None:
            reqs.append({'op': op, 'doc': tree})
            exp.append(res)
            meta.append((unit_prefix + op + '.tree', {'text': t, 'tree': tree}, 'tree'))
    model = driver_batch(reqs)
    ok = True
    for (unit, case, kind), e, m in zip(meta, exp, model):
        if isinstance(m, dict) and 'raises' in m:
            m = {'raises': True}
        ok = ctx.compare(unit, case, m, e, kind=kind) and ok
    return ok
