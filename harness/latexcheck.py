"""
Executable form of the C17 predicate for *implementation output*: scans the LaTeX renderer's
output and checks that, outside the verbatim regions (which the caller has replaced by opaque
placeholders: \\verb bodies, lstlisting bodies, math spans), brace groups are balanced,
\\begin/\\end pairs nest properly, only the renderer's own commands occur, and every LaTeX-special
character  $ # { } & _ % ^ \\  that is not part of the renderer's template appears in escaped form.
URL arguments (first argument of \\href, \\url, \\includegraphics) follow hyperref's rule: no brace,
no backslash except as \\% and \\#, no raw % or #.
"""
import re

COMMANDS = {'textbf', 'textit', 'sout', 'includegraphics', 'href', 'url', 'section', 'subsection',
            'subsubsection', 'documentclass', 'usepackage', 'item', 'hline', 'hrulefill', 'newline',
            'textbackslash'}
URL_COMMANDS = {'href', 'url', 'includegraphics'}
ENVS = {'document', 'displayquote', 'lstlisting', 'itemize', 'enumerate', 'tabular'}
PLACEHOLDER = re.compile('\x00[VLM][0-9]+\x00')
NAME = re.compile(r'[A-Za-z]+')
ENVARG = re.compile(r'\{([A-Za-z]+)\}')


def check(out):
    """None if well-formed, else a description of the first problem."""
    stack = []
    i, n = 0, len(out)
    url_depth = None          # stack depth at which a URL argument was opened
    while i < n:
        c = out[i]
        in_url = url_depth is not None
        if c == '\\':
            if i + 1 >= n:
                return 'dangling backslash at end of output'
            d = out[i + 1]
            if in_url:
                if d in '%#':
                    i += 2
                    continue
                return 'backslash inside a URL argument at offset %d: %r' % (i, out[max(0, i - 30):i + 20])
            if d in '$#{}&_%':
                i += 2
                continue
            if out.startswith('\\^{}', i):
                i += 4
                continue
            if d == '\\':
                if out.startswith(' \\\\\n', i - 1):
                    i += 2
                    continue
                return 'unescaped backslash pair (line break) from text at offset %d: %r' % (i, out[max(0, i - 30):i + 20])
            m = NAME.match(out, i + 1)
            if not m:
                return 'backslash before %r at offset %d: %r' % (d, i, out[max(0, i - 30):i + 20])
            name = m.group(0)
            j = m.end()
            if name in ('begin', 'end'):
                e = ENVARG.match(out, j)
                if not e or e.group(1) not in ENVS:
                    return '\\%s with unknown environment at offset %d: %r' % (name, i, out[i:i + 40])
                if name == 'begin':
                    stack.append(('env', e.group(1)))
                else:
                    if not stack or stack[-1] != ('env', e.group(1)):
                        return '\\end{%s} does not match %r at offset %d' % (e.group(1), stack[-1:] or None, i)
                    stack.pop()
                i = e.end()
                continue
            if name == 'verb' or name.startswith('verb'):
                # \verb<d><placeholder><d>; the delimiter may be a letter-like char glued to the name
                rest = out[i + 5:]
                if len(rest) < 2:
                    return 'truncated \\verb at offset %d' % i
                dch = rest[0]
                p = PLACEHOLDER.match(rest, 1)
                if not p or p.end() >= len(rest) or rest[p.end()] != dch:
                    return 'malformed \\verb at offset %d: %r' % (i, out[i:i + 40])
                i = i + 5 + p.end() + 1
                continue
            if name == 'textbackslash':
                if not out.startswith('{}', j):
                    return '\\textbackslash without {} at offset %d' % i
                i = j + 2
                continue
            if name not in COMMANDS:
                return 'command \\%s is not one the renderer writes (offset %d): %r' % (name, i, out[max(0, i - 20):i + 30])
            if name in URL_COMMANDS and j < n and out[j] == '{':
                stack.append(('{', name))
                url_depth = len(stack)
                i = j + 1
                continue
            i = j
        elif c == '{':
            if in_url:
                return 'brace inside a URL argument at offset %d: %r' % (i, out[max(0, i - 30):i + 20])
            stack.append(('{', ''))
            i += 1
        elif c == '}':
            if not stack or stack[-1][0] != '{':
                return 'unmatched "}" at offset %d: %r' % (i, out[max(0, i - 40):i + 10])
            if in_url and len(stack) == url_depth:
                url_depth = None
            stack.pop()
            i += 1
        elif c in '%#':
            return 'unescaped %r at offset %d: %r' % (c, i, out[max(0, i - 30):i + 20])
        elif c in '$^':
            return 'unescaped %r at offset %d: %r' % (c, i, out[max(0, i - 30):i + 20])
        elif c in '&_':
            if in_url or (c == '&' and out.startswith(' & ', i - 1)):
                i += 1
                continue
            return 'unescaped %r at offset %d: %r' % (c, i, out[max(0, i - 30):i + 20])
        elif c == '\x00':
            p = PLACEHOLDER.match(out, i)
            if not p:
                return 'NUL in output at offset %d' % i
            i = p.end()
        else:
            i += 1
    if stack:
        return 'unclosed at end of output: %r' % (stack,)
    return None
