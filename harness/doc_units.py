"""
`doc.<R>` correspondence unit: the real `Document(text)` under renderer R's token lists (exported
through harness/export.py) and R's HTML output, against the Lean model `Document.parse` + `Html.render`
(driver op "doc.parse").  Every disagreement is a difference between the model and the code on a
concrete text.
"""
import export
import impl
from common import driver_batch

# renderer, kwargs, model html options (None = do not compare output)
CONFIGS = [
    ('HtmlRenderer', {}, {'flavor': 'html'}),
    ('HtmlRenderer', {'html_escape_double_quotes': True}, {'flavor': 'html', 'dq': True}),
    ('HtmlRenderer', {'process_html_tokens': False}, {'flavor': 'html', 'processHtml': False}),
    ('AstRenderer', {}, None),
    ('LaTeXRenderer', {}, None),
    ('GithubWikiRenderer', {}, {'flavor': 'githubWiki'}),
    ('MathJaxRenderer', {}, {'flavor': 'mathjax'}),
    ('MarkdownRenderer', {}, None),
]


def real_doc(rname, kwargs, text_or_lines, want_html):
    from mistletoe import Document, block_token, span_token
    R = impl.renderer_class(rname)
    try:
        with impl.time_limit(20):
            with R(**kwargs) as r:
                btypes = [t.__name__ for t in block_token._token_types]
                stypes = [t.__name__ for t in span_token._token_types[:-1]]
                try:
                    doc = Document(text_or_lines)
                    res = {'doc': export.export_doc(doc, check_parent=False)}
                    if want_html:
                        res['html'] = r.render(doc)
                except export.ShapeError:
                    raise
                except Exception as e:
                    res = {'raises': type(e).__name__}
        return res, btypes, stypes
    finally:
        impl.reset_library()


def run(ctx, texts, unit='doc', configs=None, as_lines=False):
    reqs, exp, meta = [], [], []
    cfgs = configs or CONFIGS
    for i, t in enumerate(texts):
        rname, kw, hopts = cfgs[i % len(cfgs)]
        arg = t.splitlines(keepends=True) if as_lines else t
        res, btypes, stypes = real_doc(rname, kw, arg, hopts is not None)
        req = {'op': 'doc.parse', 'types': btypes, 'span': stypes, 'fuel': 1000000}
        if as_lines:
            req['lines'] = arg
        else:
            req['text'] = t
        if hopts is not None:
            req['html'] = hopts
        reqs.append(req)
        exp.append(res)
        meta.append({'text': t, 'renderer': rname, 'kwargs': kw})
    model = driver_batch(reqs)
    for case, e, m in zip(meta, exp, model):
        if isinstance(m, dict) and 'raises' in m and 'raises' in e:
            m, e = {'raises': True}, {'raises': True}
        ctx.compare(unit, case, m, e, kind=case['renderer'])
