"""Reference: CommonMark 0.30 section 6.2 delimiter-run algorithm, declarative (no openers_bottom)."""
import sys, unicodedata
def spec_ws(c): return c in '\t\n\x0c\r' or unicodedata.category(c)=='Zs'
ASCII_P=set('!"#$%&\'()*+,-./:;<=>?@[\\]^_`{|}~')
def spec_punct(c): return c in ASCII_P or unicodedata.category(c).startswith('P')
def flank(s,i,j):
    before = s[i-1] if i>0 else '\n'
    after = s[j] if j<len(s) else '\n'
    bw, aw, bp, ap = spec_ws(before), spec_ws(after), spec_punct(before), spec_punct(after)
    left = (not aw) and (not ap or bw or bp)
    right = (not bw) and (not bp or aw or ap)
    if s[i]=='*': return left, right
    return (left and (not right or bp)), (right and (not left or ap))
def spec(s):
    # items: either str (text) or dict delimiter node or ('em'/'strong', children)
    items=[]; i=0
    while i<len(s):
        c=s[i]
        if c=='\\':
            # backslash escape: before ASCII punctuation the next character is literal, otherwise the backslash is
            if i+1<len(s) and s[i+1] in ASCII_P: items.append(s[i+1]); i+=2
            else: items.append(c); i+=1
        elif c in '*_':
            j=i
            while j<len(s) and s[j]==c: j+=1
            o,cl=flank(s,i,j)
            items.append({'c':c,'n':j-i,'orig':j-i,'open':o,'close':cl,'active':True})
            i=j
        else: items.append(c); i+=1
    def isd(x): return isinstance(x,dict) and x['active']
    pos=0
    while pos<len(items):
        x=items[pos]
        if not (isd(x) and x['close']): pos+=1; continue
        # look back for first matching opener
        k=pos-1; found=None
        while k>=0:
            y=items[k]
            if isd(y) and y['open'] and y['c']==x['c']:
                odd=(y['close'] or x['open']) and (y['orig']+x['orig'])%3==0 and not (y['orig']%3==0 and x['orig']%3==0)
                if not odd: found=k; break
            k-=1
        if found is None:
            if not x['open']: x['active']=False   # removed from stack, stays as text
            pos+=1; continue
        y=items[found]
        n=2 if x['n']>=2 and y['n']>=2 else 1
        y['n']-=n; x['n']-=n
        inner=items[found+1:pos]
        for z in inner:
            if isinstance(z,dict): z['active']=False
        node=('strong' if n==2 else 'em', inner)
        new=[]
        if y['n']>0: new.append(y)
        new.append(node)
        npos=found+len(new)
        if x['n']>0: new.append(x)
        items[found:pos+1]=new
        pos=npos
    def ser(ns):
        out=''
        for z in ns:
            if isinstance(z,str): out+=z
            elif isinstance(z,dict): out+=z['c']*z['n']
            else: out+='<%s>%s</%s>'%(z[0],ser(z[1]),z[0])
        return out
    return ser(items)
