"""
C14 — ordinary prose passes through unchanged.

Theorems (lean/Mistletoe/Props/C14.lean; lemmas in Proofs/Inert.lean, Proofs/InertInline.lean) over the parser model
and the HTML renderer model, for every token-type list containing Paragraph and every span list of inert classes:
  * block level (`C14_single_paragraph`, `C14_block_phase`, `C14_blank_separated*`): lines on which no block-start
    pattern fires (`inertLine`: the executable conjunction of all block scanners) form exactly one Paragraph holding
    exactly those lines, numbered with the line it starts on; a line starting with a letter or another plain
    character after at most three spaces is such a line (`C14_inert_of_plain*`);
  * inline level (`C14_inline_inert`, `C14_inline_lines`): a text satisfying the decidable condition `inertBody`
    (no backslash / backtick; `<` not followed by a tag or autolink start; `&` not starting a reference; no `~~`;
    no `]` after the first `[`; every run of * or _ unable to close emphasis by the flanking rules) yields no token
    candidate at all, hence raw text and soft line breaks only; Props/C14_Wide.lean widens the condition (`inertBody2`,
    `inertBody3`: runs of * and _ may open or close as long as no opener precedes a closer of the same character; "&...;"
    that html.unescape leaves alone; "]" after "[" when neither "(" nor "[" follows) with the same end-to-end conclusion;
  * end to end (`C14_prose`, `C14_prose_text`): Document(text) is one Paragraph of exactly that text and the HTML
    renderer writes "<p>" + escape(text) + "</p>\n" for every option set.
Units: `scan.*`, `doc` (real Document + HtmlRenderer against the model on this run's paragraphs, accepted or not) and
`c14.theorem`: the theorem's executable hypotheses are evaluated by the second driver (lean/PropsMain.lean) on every
generated paragraph; where they hold, the REAL renderer's output must be what the theorem concludes.  The evidence
records which share of the spec-derived inert domain the Lean hypotheses cover.
Exploration: paragraphs of 1-4 lines assembled from a vocabulary of tricky-but-inert tokens, filtered by an
independent inertness predicate written from the specification (block-start patterns per line, inline triggers over
the whole paragraph, the delimiter-run algorithm for * and _), must be rendered as exactly that text, HTML-escaped,
inside a single <p>.
"""
import re

import common
import doc_units
import impl
import scan_units
import spec_emph

ID = 'C14'
EXTRA_MODULES = ['Mistletoe.Proofs.Inert', 'Mistletoe.Proofs.InertInline', 'Mistletoe.Proofs.InertInline2', 'Mistletoe.Proofs.InertInline3', 'Mistletoe.Proofs.InertInline5', 'Mistletoe.Proofs.InertCont', 'propsdriver']
RULE = ('paragraphs of 1-4 lines of 1-8 tokens from a ~120-token vocabulary (intraword underscores, isolated * - + # > = | ~ ^ $ '
        '% @, unpaired and unlinked brackets, ampersands not starting a reference, digits/dots/parentheses not forming list '
        'markers, quotes, non-ASCII letters and punctuation), kept only when the spec-derived predicate `inert` accepts them. '
        'Distinct by paragraph; non-trivial when it contains at least two Markdown-significant characters')
TRUSTED = ['harness/props/c14.py:inert is the independent reading of the specification used as filter (conservative: it only '
           'accepts paragraphs in which the specification gives no character a meaning)']
ASSUMPTIONS = []
PARTIAL = ['the Lean hypotheses (`inertLine` of the first line, `inertCont` of the later lines - Props/C14_Cont.lean -, `proseLine`, `inertBody5` - Props/C14_Wide.lean) are sufficient conditions, not the '
           'whole inert domain of the specification: trailing spaces of some shapes, "<!" / "<?" followed later by ">" without forming a construct are outside them; those paragraphs '
           'are covered by the exploration against the spec-derived predicate only (the evidence gives the measured share of the '
           'spec-derived inert domain that meets the hypotheses)']

VOCAB = ['foo', 'bar', 'Baz', 'snake_case', 'a_b_c', '_', 'x_', '__init__ed', '5 * 6', '*', '3*', '- 1', '-', '--', 'a-b', '+', '1+1', 'c++',
         '#', '#tag', 'C#', '# ', '>', '->', '=>', '>=', '<', '< 3', '<=', 'a<b', '=', '==', '===x', '|', 'a|b', '||', '~', '~x', 'a~b', '^', 'x^2',
         '$', '$5', '%', '50%', '@', 'user@', '@home', '[', ']', '[x', 'y]', '[]', '[a] b', '(', ')', '(c)', '()', '&', 'AT&T', '& ', '&&', '&x', '&;',
         '1', '12', '2024', '1.5', '3.', '10)', 'v1.2.3', '1)x', '.', '..', '...', '. ', ') ', 'e.g.', 'i.e.', ':', ';', ',', '!', '!x', '?', '"q"', "'s",
         'é', 'ñandú', '中文', 'ß', '“q”', '«x»', '…', '—', '·', 'x·y', '{', '}', '{x}', '/', 'a/b', '//', ' \\', 'C:\\dir'.replace('\\', '/'), '`'.replace('`', "'"),
         '1.x', '2)y', 'No.', '(1)', 'a.', 'b)', '#1', '##x', '+1', '-x', '*x'.replace('*', '+'), 'x=y', 'a = b', '3 > 2', '2 < 3 ok', 'a & b', 'R&D;x'.replace(';', ','),
         'http://x.y/z', 'www.x.y', 'a@b.c', 'x: y', 'k=v&w=z', 'end.',
         # a setext underline is a run of ONE of the two characters: mixed runs alone on a line are paragraph text
         '=-', '-=', '=--', '--=', '=-=']

PUNCT = set('!"#$%&\'()*+,-./:;<=>?@[\\]^_`{|}~')
ENTITY = re.compile(r'&(#[0-9]{1,7};|#[xX][0-9a-fA-F]{1,6};|[A-Za-z][A-Za-z0-9]{0,31};)')
THEMATIC = re.compile(r'^(?:([-_*])[ \t]*)(?:\1[ \t]*){2,}$')
TABLE_DELIM = re.compile(r'^\s*\|?\s*:?-+:?\s*(\|\s*:?-+:?\s*)*\|?\s*$')


def block_start(line, first):
    """Could this line (≤ 3 spaces of indentation assumed stripped by the caller) start a block other
    than a paragraph, or - for a non-first line - interrupt / re-type the paragraph?"""
    s = line
    if re.match(r'#{1,6}([ \t]|$)', s):
        return 'atx heading'
    if s.startswith('>'):
        return 'block quote'
    # a list item can interrupt a paragraph only when it is not empty and, if ordered, numbered 1 (spec 5.2/5.3):
    # on a continuation line an empty item ('+' alone) and '2. x' are paragraph text
    m = re.match(r'[-+*]([ \t]|$)', s)
    if m and (first or s[m.end():].strip(' \t') != ''):
        return 'bullet list'
    m = re.match(r'(\d{1,9})[.)]([ \t]|$)', s)
    if m and (first or (s[m.end():].strip(' \t') != '' and int(m.group(1)) == 1)):
        return 'ordered list'
    if s.startswith('```') or s.startswith('~~~'):
        return 'fence'
    if THEMATIC.match(s):
        return 'thematic break'
    if s.startswith('<'):
        return 'html block'
    if first and s.startswith('['):
        return 'link reference definition'
    if not first and re.match(r'(=+|-+) *$', s):
        return 'setext underline'
    return None


def inert(lines):
    """Independent, conservative inertness predicate from the specification."""
    if not lines or any(l.strip() == '' for l in lines):
        return False
    for i, l in enumerate(lines):
        if l != l.strip(' ') and (l.startswith('    ') or l.endswith('  ')):
            return False          # indented code / hard break
        if '\t' in l or l.endswith('\\'):
            return False
        if block_start(l.strip(' '), i == 0):
            return False
        if '|' in l and i + 1 < len(lines) and TABLE_DELIM.match(lines[i + 1]):
            return False          # GFM table
        if '|' in l and i > 0 and '|' in lines[i - 1]:
            pass
    text = '\n'.join(l.strip(' ') for l in lines)
    # inline triggers over the whole paragraph
    if '`' in text or '~~' in text:
        return False
    for m in re.finditer(r'\\', text):
        j = m.end()
        if j >= len(text) or text[j] in PUNCT or text[j] == '\n':
            return False
    for m in re.finditer(r'<[A-Za-z/!?]', text):
        if '>' in text[m.end():]:
            return False          # autolink or raw HTML could start here (every such construct ends in '>': spec 6.5, 6.6)
    if ENTITY.search(text):
        return False
    for m in re.finditer(r'\]\s*[(\[]', text):
        if '[' in text[:m.start()]:
            return False          # inline / reference link shapes (a link text needs its '[' before the ']')
    if re.search(r'\]:', text):
        return False
    if any(c.isspace() and c not in ' \n' for c in text):
        return False
    # * and _ : the specification's delimiter-run algorithm must leave them all literal
    for l in [text]:
        flat = l.replace('\n', ' ')
        r = spec_emph.spec(flat)
        if '<em>' in r or '<strong>' in r:
            return False
    # GFM tables: a row of pipes followed by a delimiter-looking row was handled above; also a
    # paragraph line made only of pipes/dashes/colons is suspicious - stay conservative
    for l in lines[1:]:
        if re.match(r'^[\s|:\-]+$', l) and '-' in l:
            return False
    return True


def esc(s):
    return s.replace('&', '&amp;').replace('<', '&lt;').replace('>', '&gt;')


def expected(lines):
    return '<p>' + esc('\n'.join(l.strip(' ') for l in lines)) + '</p>\n'


def check_witness(w):
    lines = w['lines']
    if not inert(lines):
        return False, 'not in the inert domain'
    text = '\n'.join(lines) + '\n'
    try:
        out = impl.parse_render('HtmlRenderer', {}, text)[1]
    except Exception as e:
        return True, 'raised %s: %s on inert prose %r' % (type(e).__name__, e, text)
    if out != expected(lines):
        return True, 'inert prose %r is rendered as %r, expected %r' % (text, out, expected(lines))
    return False, 'ok'


def matches_known(v, finding):
    return False


def finding_still_fails(finding):
    return check_witness(finding['witness'])[0]


def gen(rng):
    lines = []
    # one paragraph in six is written over a SMALL vocabulary built from two letters: the same neighbours around `*` runs and
    # around `_` runs, the same word several times - a decision remembered for one occurrence and reused for another (keyed on
    # too little) shows only when such occurrences share a paragraph
    vocab = VOCAB
    if rng.random() < 0.17:
        a, b = rng.choice(['x', 'foo', '2', 'é']), rng.choice(['y', 'bar', '3', 'n'])
        vocab = [a + '*' + b, a + '_' + b, '_' + a + '_' + b, a + '_' + b + '_', a + '**' + b, a + '__' + b, a + '*', '*' + b, a + '_', '_' + b,
                 'and', 'is', a, b, a + '\\' + b, a + '&' + b, a + '<' + b]
    for _ in range(rng.randint(1, 4)):
        toks = [rng.choice(vocab) for _ in range(rng.randint(1, 8))]
        sep = ' '
        lines.append(sep.join(toks).strip(' ') if rng.random() < 0.9 else ''.join(toks))
    return lines


def _paragraphs(ctx):
    rng = ctx.rng('unit-paragraphs')
    out = [['a_b_c * d', '3.14) x | y # z & w'], ['AT&T & co'], ['snake_case_name and _x'], ['x * y * z'], ['[unpaired']]
    for _ in range(ctx.budget(6000, 60000)):
        out.append(gen(rng))
    return out


def units(ctx):
    scan_units.run(ctx)
    paras = _paragraphs(ctx)
    texts = ['\n'.join(l) + '\n' for l in paras]
    doc_units.run(ctx, texts[:ctx.budget(3000, 30000)], configs=doc_units.CONFIGS[:3])
    # the theorem's hypotheses, evaluated in Lean, and its conclusion, checked on the real renderer
    reqs = [{'op': 'c14.hyps', 'lines': [l + '\n' for l in ls]} for ls in paras]
    hyps = common.driver_batch(reqs, binary=common.PROPS_DRIVER)
    n_spec = n_both = n_lean = n_narrow = 0
    for ls, h in zip(paras, hyps):
        spec_ok = inert(ls)
        lean_ok = isinstance(h, dict) and all(h.get(k) for k in ('nonEmpty', 'oneLine', 'inertLineCont', 'proseLine', 'inertBody5'))
        n_spec += spec_ok
        n_lean += lean_ok
        n_narrow += bool(lean_ok and h.get('inertBody'))
        n_both += spec_ok and lean_ok
        if not lean_ok:
            continue
        text = '\n'.join(ls) + '\n'
        try:
            real = impl.parse_render('HtmlRenderer', {}, text)[1]
        except Exception as e:
            real = {'raises': type(e).__name__}
        concluded = '<p>' + esc(h['text']) + '</p>\n'
        ctx.compare('c14.theorem', {'lines': ls}, concluded, real, kind='%d-line' % len(ls))
    ctx.notes.append('of %d generated paragraphs: %d in the spec-derived inert domain, %d meet the Lean hypotheses of C14_prose_text4 '
                     '(%d those of the narrower C14_prose_text), %d both' % (len(paras), n_spec, n_lean, n_narrow, n_both))


def explore(ctx, seeds):
    rng = ctx.rng('paragraphs')
    fixed = [['foo', '=-'], ['. fo', '=----'], ['foo', '--='], ['. foo'], [') bar'], ['a | b', 'c | d'], ['foo', '= ='], ['1986. A great year'], ['2) x'], ['a_b_ c_d'], ['*'], ['x * y * z'],
             ['AT&T & co'], ['[unpaired'], ['a ] b [ c'], ['#hashtag'], ['+1 for this'], ['-- dash'], ['= x'], ['snake_case_name and _x'],
             ['1.x', '2)y'], ['foo', '. bar'], ['foo', ') bar']]
    n_gen = 0
    n_inert = 0
    cases = [{'lines': l} for l in fixed]
    target = ctx.budget(4000, 60000)
    while n_inert < target and n_gen < target * 30:
        lines = gen(rng)
        n_gen += 1
        if inert(lines):
            n_inert += 1
            cases.append({'lines': lines})
    ctx.notes.append('generated %d paragraphs, %d accepted by the inertness predicate' % (n_gen, n_inert))
    for sd in seeds:
        if isinstance(sd, dict) and 'lines' in sd:
            cases.insert(0, sd)
    for c in cases:
        if not inert(c['lines']):
            continue
        text = '\n'.join(c['lines'])
        ctx.explored_case(c, kind='%d-line' % len(c['lines']), nontrivial=sum(ch in PUNCT for ch in text) >= 2)
        fails, detail = check_witness(c)
        if fails:
            ctx.violation(detail, c)
            if len(ctx.violations) >= 10:
                break
    ctx.sample({'lines': cases[-1]['lines'], 'expected': expected(cases[-1]['lines'])})
