"""
C12 — the token tree is well-formed and its generic views are faithful.

Units: `traverse` (real utils.traverse vs the Lean model on the exported generic tree, all option
combinations), `ast.get` (real get_ast vs the Lean model).  Exploration, on the real object graph:
the exporter's shape checks (child kinds, one-RawText blocks, parent links, line numbers), scalar
ranges, traverse = each reachable token exactly once with true parent and depth, AstRenderer output
is valid JSON mirroring the tree.
"""
import json

import common
import export
import gen_docs
import impl
from common import driver_batch

ID = 'C12'
EXTRA_MODULES = ['Mistletoe.Proofs.DocShape', 'propsdriver']
RULE = ('spec corpus, mutations, splices, random documents, random strings and a malformed stream x the token sets of '
        'the Html, Markdown, LaTeX and XWiki20 renderers; traverse options klass in {None, 6 classes} x depth in '
        '{None,0,1,2,3} x include_source; distinct by (renderer, text); non-trivial when the tree has depth >= 2')
TRUSTED = ['json.dumps emits valid JSON for the dict it is given (the run re-parses the real output with json.loads)',
           'object identity (parent links) is checked on the real object graph at run time, not modelled']
ASSUMPTIONS = ['child-kind discipline, parent links and scalar ranges of parsed trees are run-time checks by the '
               'exporter over generated inputs (the Lean AST type enforces kinds, so a theorem would be vacuous)']
PARTIAL = ['the kind discipline and the scalar ranges are proved for every parsed document of the MODEL (C12_parsed_shape: which '
           'kinds of blocks sit in List / ListItem / Quote / Table / TableRow, list start agreeing with its first marker, heading '
           'levels); that inline tokens hold no blocks, leaf blocks hold inline tokens and code/HTML blocks exactly one RawText is '
           'typing of the model\'s AST, enforced on the REAL object graph by the exporter; the conclusion of the theorem is evaluated '
           'on real exported trees each run (c12.shape); parent links by object identity are run-time checks of the exporter']

TOKEN_SETS = ['HtmlRenderer', 'MarkdownRenderer', 'LaTeXRenderer', 'XWiki20Renderer']


def all_tokens(doc):
    """[(token, parent, depth)] in pre-order through `children`."""
    out = []

    def rec(t, d):
        for c in (t.children or []):
            out.append((c, t, d))
            rec(c, d + 1)
    rec(doc, 1)
    return out


def rtree(doc, classes):
    ids = {}

    def rec(t):
        i = len(ids)
        ids[id(t)] = i
        cname = type(t).__name__
        if cname not in classes:
            classes.append(cname)
        return [i, classes.index(cname), [rec(c) for c in (t.children or [])]]
    tree = rec(doc)
    return tree, ids


def klass_options():
    from mistletoe import block_token, span_token
    return [None, block_token.Paragraph, span_token.RawText, block_token.BlockToken, span_token.SpanToken,
            block_token.Heading, block_token.ListItem]


def jsonable(v):
    return json.loads(json.dumps(v))


def gtok(t):
    vs = vars(t)
    return {'cls': type(t).__name__,
            'vars': [[k, jsonable(vs[k])] for k in ('content', 'footnotes') if k in vs],
            'repr': [[a, jsonable(getattr(t, a))] for a in t.repr_attributes],
            'header': [gtok(t.header)] if 'header' in vs else [],
            'kids': None if t.children is None else [gtok(c) for c in t.children]}


def mirror_problem(t, d, path='Document'):
    if not isinstance(d, dict):
        return '%s: not a dict' % path
    if d.get('type') != type(t).__name__:
        return '%s: type %r for a %s' % (path, d.get('type'), type(t).__name__)
    for a in t.repr_attributes:
        if a not in d or d[a] != jsonable(getattr(t, a)):
            return '%s: attribute %s is %r, token has %r' % (path, a, d.get(a), getattr(t, a))
    if 'content' in vars(t) and d.get('content') != t.content:
        return '%s: content differs' % path
    if t.children is None:
        if 'children' in d:
            return '%s: children listed for a leaf' % path
    else:
        ch = list(t.children)
        if 'children' not in d or len(d['children']) != len(ch):
            return '%s: %r children listed, token has %d' % (path, len(d.get('children', [])) if 'children' in d else None, len(ch))
        for i, (c, dc) in enumerate(zip(ch, d['children'])):
            r = mirror_problem(c, dc, '%s/%s[%d]' % (path, type(c).__name__, i))
            if r:
                return r
    if 'header' in vars(t):
        r = mirror_problem(t.header, d.get('header'), path + '/header')
        if r:
            return r
    return None


def check_witness(w):
    text, rname = w['text'], w['renderer']
    try:
        doc = impl.parse_only(rname, {}, text)
    except Exception as e:
        return False, 'parse raised %s (C01)' % type(e).__name__
    # shape, kinds, parent links
    try:
        export.export_doc(doc, check_parent=True)
    except export.ShapeError as e:
        return True, 'tree shape: %s; input %r under %s' % (e, text, rname)
    toks = all_tokens(doc)
    # scalar ranges
    for t, p, d in toks:
        n = type(t).__name__
        if n in ('Heading', 'SetextHeading') and not (isinstance(t.level, int) and 1 <= t.level <= 6):
            return True, 'heading level %r out of range; input %r' % (t.level, text)
        if n == 'List':
            leader = t.children[0].leader if t.children else None
            want = None if (leader is None or len(leader) == 1) else int(leader[:-1])
            if t.start != want:
                return True, 'List.start %r disagrees with first marker %r; input %r' % (t.start, leader, text)
    # traversal
    from mistletoe.utils import traverse
    got = list(traverse(doc))
    if len(got) != len(toks) or {id(r.node) for r in got} != {id(t) for t, _, _ in toks} \
            or len({id(r.node) for r in got}) != len(got):
        return True, 'traverse yields %d results for %d reachable tokens; input %r under %s' % (len(got), len(toks), text, rname)
    truth = {id(t): (p, d) for t, p, d in toks}
    for r in got:
        p, d = truth[id(r.node)]
        if r.parent is not p or r.depth != d:
            return True, 'traverse reports parent/depth (%s, %r) for a %s whose true ones are (%s, %d); input %r' % (
                type(r.parent).__name__, r.depth, type(r.node).__name__, type(p).__name__, d, text)
    for klass in klass_options()[1:]:
        for depth in (None, 0, 1, 2):
            for inc in (False, True):
                exp = [(id(t), d) for t, p, d in sorted(toks, key=lambda x: x[2]) if isinstance(t, klass) and (depth is None or d <= depth)]
                if inc and isinstance(doc, klass):
                    exp = [(id(doc), 0)] + exp
                res = [(id(r.node), r.depth) for r in traverse(doc, klass=klass, depth=depth, include_source=inc)]
                if sorted(res) != sorted(exp) or [d for _, d in res] != sorted(d for _, d in res):
                    return True, 'traverse(klass=%s, depth=%r, include_source=%r) is not the filtered walk; input %r' % (
                        klass.__name__, depth, inc, text)
    # AST renderer
    from mistletoe.ast_renderer import AstRenderer
    try:
        out = impl.render_tree('AstRenderer', {}, doc)
        d = json.loads(out)
    except Exception as e:
        return True, 'AstRenderer output is not valid JSON (%s: %s); input %r' % (type(e).__name__, e, text)
    r = mirror_problem(doc, d)
    if r:
        return True, 'AstRenderer output does not mirror the tree: %s; input %r under %s' % (r, text, rname)
    return False, 'ok'


def matches_known(v, finding):
    return False


def finding_still_fails(finding):
    return False


def _cases(ctx):
    rng = ctx.rng('cases')
    texts = gen_docs.corpus_stream(rng, ctx.budget(1500, 12000))
    texts += [gen_docs.malformed(rng) for _ in range(ctx.budget(60, 600))]
    texts += gen_docs.repetitive(rng, texts[:300], ctx.budget(300, 3000))
    texts += ['| x | x |\n|---|---|\n| x | x |\n', '| a | b | c |\n|---|:-:|--:|\n| only one |\n', '`c` <http://x.y> \\* a', 'Foo\n===\n', '- a\n  - b\n\n    c\n',
              '> - `x`\n> - [l](u)\n', '[a]: /u\n\n[a]\n']
    return [(t, TOKEN_SETS[i % 4] if not ctx.thorough else None) for i, t in enumerate(texts)]


def units(ctx):
    cases = _cases(ctx)
    ctx._c12_cases = cases
    from mistletoe.utils import traverse
    from mistletoe.ast_renderer import get_ast
    reqs, exp, meta = [], [], []
    classes = []
    kopts = klass_options()
    for i, (t, rn) in enumerate(cases):
        for rname in ([rn] if rn else TOKEN_SETS):
            try:
                doc = impl.parse_only(rname, {}, t)
            except Exception:
                continue
            tree, ids = rtree(doc, classes)
            combos = [(None, None, False), (kopts[1 + i % 6], [None, 0, 1, 2, 3][i % 5], bool(i % 2))]
            for klass, depth, inc in combos:
                res = [[ids[id(r.node)], None if r.parent is None else ids[id(r.parent)], r.depth]
                       for r in traverse(doc, klass=klass, depth=depth, include_source=inc)]
                # isinstance -> set of class tags (computed on the classes seen in this tree)
                kl = None
                if klass is not None:
                    seen = {}

                    def rec(tok):
                        seen[type(tok).__name__] = isinstance(tok, klass)
                        for c in (tok.children or []):
                            rec(c)
                    rec(doc)
                    kl = [classes.index(n) for n, ok in seen.items() if ok]
                reqs.append({'op': 'traverse', 'tree': tree, 'klass': kl, 'depth': depth, 'include_source': inc})
                exp.append(res)
                meta.append(('traverse', {'text': t, 'renderer': rname, 'klass': getattr(klass, '__name__', None),
                                          'depth': depth, 'include_source': inc}))
            reqs.append({'op': 'ast.get', 'tok': gtok(doc)})
            exp.append(jsonable(get_ast(doc)))
            meta.append(('ast.get', {'text': t, 'renderer': rname}))
    model = driver_batch(reqs)
    for (unit, case), e, m in zip(meta, exp, model):
        ctx.compare(unit, case, m, e)
    # the conclusion of C12_parsed_shape on REAL token trees
    import export
    sreq, smeta = [], []
    for i, (t, rn) in enumerate(cases):
        rname = rn or TOKEN_SETS[i % len(TOKEN_SETS)]
        try:
            doc = impl.parse_only(rname, {}, t)
            tree = export.export_doc(doc, check_parent=False)
        except Exception:
            continue
        sreq.append({'op': 'c12.shape', 'doc': tree})
        smeta.append({'text': t, 'renderer': rname})
    for case, r in zip(smeta, driver_batch(sreq, binary=common.PROPS_DRIVER)):
        ctx.compare('c12.shape', case, True, r.get('shapeOk') if isinstance(r, dict) else r, kind=case['renderer'])


def explore(ctx, seeds):
    cases = list(getattr(ctx, '_c12_cases', None) or _cases(ctx))
    for sd in seeds:
        if isinstance(sd, dict) and isinstance(sd.get('text'), str):
            cases.insert(0, (sd['text'], sd.get('renderer')))
    if ctx.scale > 1:
        rng = ctx.rng('deep')
        cases += [(t, None) for t in gen_docs.corpus_stream(rng, 1500 * ctx.scale)]
    for t, rn in cases:
        for rname in ([rn] if rn else TOKEN_SETS):
            w = {'text': t, 'renderer': rname}
            ctx.explored_case(w, kind=rname, nontrivial=('\n' in t.strip()))
            fails, detail = check_witness(w)
            if fails:
                ctx.violation(detail, w)
        if len(ctx.violations) >= 6:
            break
    ctx.sample({'text': cases[0][0], 'renderer': cases[0][1] or 'HtmlRenderer'})
