"""
C11 — results depend only on input and renderer, never on earlier library use.

Exploration (the property itself, on the real library): histories over
  {with R: …; render d; parse a document that raises inside a custom block/span token placed at
   position p, in phase start/read/find/__init__; exit}
are run in this process; after every step the process-global parser state is snapshotted and the
probe set is rendered; both are compared with a baseline computed in a *fresh interpreter*.
Unit `state`: the same histories are run through the Lean state machine (Model/State.lean), whose
step function writes the globals where the Python writes them; snapshots are compared step by step.
"""
import html
import json
import subprocess
import sys

import common
import impl
from common import driver_batch

ID = 'C11'
RULE = ('histories of with-blocks over the 11 bundled renderer configurations; inside a block: renders of probe documents and '
        'parses that raise inside a custom token (block: start/read/__init__, span: find/__init__) inserted at every position '
        'of the token list; exhaustive to length 3 blocks (quick) / 4 (thorough) over a reduced alphabet plus random long '
        'histories; after every block: token lists, scratch globals and the output of every probe under Html/Markdown/'
        'LaTeX/Ast are compared with a fresh interpreter. Distinct by history; non-trivial when it contains a raising parse')
TRUSTED = ['the fresh-interpreter baseline is computed by a subprocess running the same working tree']
ASSUMPTIONS = ['renderers are used as context managers and with-blocks are not nested (nested blocks: an inner exit resets '
               'the outer renderer\'s tokens too; outside the claim, see DESIGN.md C11)']
PARTIAL = ['the abstract programs (which globals a parse touches, in which order, with which try/finally) are written '
           'by hand per probe scenario and validated by the `state` unit; they are not extracted from the code']

RENDERERS = ['HtmlRenderer', 'MarkdownRenderer', 'LaTeXRenderer', 'AstRenderer', 'TocRenderer', 'GithubWikiRenderer',
             'MathJaxRenderer', 'PygmentsRenderer', 'JiraRenderer', 'XWiki20Renderer', 'HtmlRenderer:nohtml']
PROBES = ['Foo\n---\n', 'hello `code` world\n', 'hello world\n', '# h ##\n\nx\n', '```py\nx\n```\n', '<div>\nx\n</div>\n\ny\n',
          '&amp; &copy\n', '[a]: /u "t"\n\n[a] ![i][a]\n', '> q\n> ===\n', '| a |\n|---|\n| b |\n', '- a\n\n  b\n', '**a** *b*\n',
          '```&copy\nx\n```\n', 'foo\n<div>\nbar\n', 'a\nb\n\n> c\n> d\n\n- e\n  f\n', '[r]: /u "&copy 2020"\n\n[r]\n',
          'foo\n| a |\n|---|\n']
# the first parse after a history is the one that sees state leaked into the block phase: every
# history is replayed once per entry of this list, with that probe parsed first
FIRST_PROBES = ['```&copy\nx\n```\n', 'foo\n<div>\nbar\n', 'Foo\n---\n', '[r]: /u "&copy 2020"\n\n[r]\n']
CHECK_RENDERERS = ['HtmlRenderer', 'MarkdownRenderer', 'LaTeXRenderer', 'AstRenderer']


_swap_cache = {}


def swap_renderer(tokname):
    """A user-defined renderer of the kind the documentation describes: it replaces one block token class by a subclass of its
    own (remove_token + extras), here one that never interrupts a paragraph.  The token list keeps its length."""
    if tokname not in _swap_cache:
        from mistletoe import block_token
        from mistletoe.base_renderer import BaseRenderer
        X = getattr(block_token, tokname)
        Never = type(tokname, (X,), {'check_interrupts_paragraph': classmethod(lambda cls, lines: False)})

        class SwapRenderer(BaseRenderer):       # BaseRenderer adds no token of its own: the list keeps its length
            def __init__(self, **kw):
                block_token.remove_token(X)
                super().__init__(Never, **kw)

            # BaseRenderer is abstract about leaves; enough structure to tell a paragraph from the swapped block
            def render_raw_text(self, token):
                return token.content

            def render_line_break(self, token):
                return '\n'

            def render_paragraph(self, token):
                return '<p>' + self.render_inner(token) + '</p>'

            def render_table(self, token):
                return '<table>' + self.render_inner(token) + '</table>'

            def render_quote(self, token):
                return '<q>' + self.render_inner(token) + '</q>'

            def render_thematic_break(self, token):
                return '<hr>'

            def render_inline_code(self, token):
                return '<code>' + self.render_inner(token) + '</code>'
        _swap_cache[tokname] = SwapRenderer
    return _swap_cache[tokname]


SWAPS = ['Table', 'Quote', 'ThematicBreak']
SWAP_PROBES = ['foo\n| a |\n|---|\n| b |\n', 'foo\n> q\n', 'foo\n***\n']


def rclass(name):
    if name.startswith('Swap:'):
        return swap_renderer(name[5:]), {}
    if name.endswith(':nohtml'):
        return impl.renderer_class('HtmlRenderer'), {'process_html_tokens': False}
    return impl.renderer_class(name), {}


def snapshot():
    from mistletoe import block_token, span_token, core_tokens, token, span_tokenizer
    return {'block': [c.__name__ for c in block_token._token_types],
            'span': [c.__name__ for c in span_token._token_types],
            'codeMatches': sum(len(l) for l in impl.private_lists(core_tokens)),
            'parseSetext': bool(block_token.Paragraph.parse_setext),
            'rootNone': token._root_node is None,
            'charrefStd': html._charref is span_tokenizer._stdlib_charref,
            'tableInterrupt': bool(block_token.Table.interrupt_paragraph)}


def observe(first=None, first_renderer=None):
    """Everything the property observes after a history: outputs of all probes + bare ASTs."""
    import mistletoe
    from mistletoe.ast_renderer import get_ast
    res = {}

    def swap_probes():
        # user-defined renderers that swap a token class (custom tokens are part of the property)
        for tok in SWAPS:
            for d in SWAP_PROBES:
                R, kw = rclass('Swap:' + tok)
                try:
                    with R(**kw) as r:
                        res['Swap:%s|%s' % (tok, d)] = r.render(mistletoe.Document(d))
                except Exception as e:
                    res['Swap:%s|%s' % (tok, d)] = 'raised ' + type(e).__name__
    if first is None or first == 'SWAP':
        swap_probes()           # first of all: this is what the baseline of a fresh interpreter records for them
        first = None
    probes = PROBES if first is None else [first] + [p for p in PROBES if p != first]
    for d in probes:
        rns = CHECK_RENDERERS
        if d == first and first_renderer in rns:
            rns = [first_renderer] + [r for r in rns if r != first_renderer]
        for rn in rns:
            R, kw = rclass(rn)
            try:
                with R(**kw) as r:
                    res['%s|%s' % (rn, d)] = r.render(mistletoe.Document(d))
            except Exception as e:
                res['%s|%s' % (rn, d)] = 'raised ' + type(e).__name__
        try:
            res['bare|' + d] = json.dumps(get_ast(mistletoe.Document(d)), sort_keys=True)
        except Exception as e:
            res['bare|' + d] = 'raised ' + type(e).__name__
    # several documents through ONE renderer context ("whatever was parsed or rendered before": also the previous document of the
    # same loop): documents that define the same labels with other destinations, repeat a code span, a heading, a table.  Each
    # output is compared with the output of the same document rendered alone; the observation is the list of agreements.
    for rn in ('HtmlRenderer', 'MarkdownRenderer', 'AstRenderer'):
        R, kw = rclass(rn)
        try:
            alone = []
            for d in SEQ_DOCS:
                with R(**kw) as r:
                    alone.append(r.render(mistletoe.Document(d)))
            with R(**kw) as r:
                seq = [r.render(mistletoe.Document(d)) for d in SEQ_DOCS]
            res['seq|' + rn] = json.dumps([x == y for x, y in zip(alone, seq)])
        except Exception as e:
            res['seq|' + rn] = 'raised ' + type(e).__name__
    return res


SEQ_DOCS = ['[a]: /u "t"\n\n[a] ![i][a] [a][]\n', '[a]: /other (T2)\n\n[a] ![i][a] [a][]\n', '[A]: <x>\n\n> [a]: /inner\n\n[a]\n', 'x `c` y\n', 'x `c` y `c`\n',
            '# h #\n', '#\n', '| a |\n|:-:|\n| b |\n', '| a |\n|---|\n| b |\n', '[a]: /u "t"\n\n[a] ![i][a] [a][]\n']


BASELINE_CODE = r'''
import sys, json
sys.path.insert(0, %r); sys.path.insert(0, %r)
from props import c11
print(json.dumps({'snapshot': c11.snapshot(), 'observe': c11.observe()}))
'''


def fresh_baseline():
    code = BASELINE_CODE % (str(common.ROOT / 'harness'), str(common.REPO))
    p = subprocess.run([sys.executable, '-c', code], stdout=subprocess.PIPE, stderr=subprocess.PIPE, timeout=300,
                       env=dict(__import__('os').environ, MISTLETOE_REPO=str(common.REPO)))
    if p.returncode != 0:
        raise common.MachineryError('baseline interpreter failed: ' + p.stderr.decode()[-400:])
    return json.loads(p.stdout.decode())


class Boom(Exception):
    pass


def custom_token(kind, phase):
    """A custom token class that raises Boom in the given phase when it meets the text 'RAISE'."""
    from mistletoe import block_token, span_token
    import re
    if kind == 'block':
        class RaisingBlock(block_token.BlockToken):
            def __init__(self, lines):
                if phase == 'init':
                    raise Boom('init')
                self.children = []

            @classmethod
            def start(cls, line):
                if 'RAISE' in line:
                    if phase == 'start':
                        raise Boom('start')
                    return True
                return False

            @classmethod
            def read(cls, lines):
                if phase == 'read':
                    raise Boom('read')
                return [next(lines)]
        return RaisingBlock

    class RaisingSpan(span_token.SpanToken):
        pattern = re.compile(r'RAISE')
        parse_inner = False
        parse_group = 0

        def __init__(self, match):
            if phase == 'init':
                raise Boom('init')
            self.content = match.group(0)

        @classmethod
        def find(cls, string):
            if 'RAISE' in string and phase == 'find':
                raise Boom('find')
            return cls.pattern.finditer(string)
    return RaisingSpan


RAISE_DOCS = ['> RAISE\n', 'a `code` RAISE b\n', 'RAISE\n', '- x\n\n  RAISE\n', '> a\n> > RAISE `c`\n', '# RAISE `k`\n']


def run_history(history, check_every_block=True, baseline=None, first=None, first_renderer=None):
    """history: list of blocks {'renderer', 'body': [op]}; op = ['render', d] | ['raise', kind, phase, pos, d].
    Returns (snapshots after each block, problems)."""
    import mistletoe
    from mistletoe import block_token, span_token
    impl.reset_library()
    snaps = []
    problems = []
    for bi, blk in enumerate(history):
        if blk['renderer'] == 'bare':
            # parses with no renderer active (the default token lists)
            for op in blk['body']:
                try:
                    mistletoe.Document(op[1])
                except Exception as e:
                    problems.append('block %d (bare) raised %s: %s' % (bi, type(e).__name__, e))
            snaps.append(snapshot())
            continue
        R, kw = rclass(blk['renderer'])
        try:
            with R(**kw) as r:
                for op in blk['body']:
                    if op[0] == 'render':
                        r.render(mistletoe.Document(op[1]))
                    else:
                        _, kind, phase, pos, d = op
                        T = custom_token(kind, phase)
                        mod = block_token if kind == 'block' else span_token
                        n = len(mod._token_types)
                        mod.add_token(T, min(pos, n - 1))      # never after the fallback / Paragraph
                        r.render_map[T.__name__] = lambda token: ''
                        r.render(mistletoe.Document(d))
        except Boom:
            pass
        except Exception as e:
            problems.append('block %d raised %s: %s' % (bi, type(e).__name__, e))
        snaps.append(snapshot())
        if baseline is not None and check_every_block:
            s = snaps[-1]
            b = baseline['snapshot']
            if s['block'] != b['block'] or s['span'] != b['span']:
                problems.append('after block %d the token lists are not the defaults: %r / %r' % (bi, s['block'], s['span']))
    if baseline is not None:
        obs = observe(first, first_renderer)
        # documents rendered one after another in ONE context must each come out as when rendered alone (this does not need the
        # baseline: both sides are computed here)
        for k, v in obs.items():
            if k.startswith('seq|') and v != json.dumps([True] * len(SEQ_DOCS)):
                bad = [SEQ_DOCS[i] for i, ok in enumerate(json.loads(v)) if not ok] if v.startswith('[') else v
                problems.append('documents rendered one after another in one %s context do not come out as when rendered alone: %r' % (
                    k.split('|', 1)[1], bad))
                break
        for k, v in baseline['observe'].items():
            if k in obs and obs.get(k) != v:
                problems.append('after the history, %s of %r gives %r; a fresh interpreter gives %r' % (
                    k.split('|', 1)[0], k.split('|', 1)[1], (obs.get(k) or '')[:200], v[:200]))
                break
    impl.reset_library()
    return snaps, problems


_baseline = None


def baseline():
    global _baseline
    if _baseline is None:
        _baseline = fresh_baseline()
    return _baseline


def check_witness(w):
    raising = any(op[0] == 'raise' for b in w['history'] for op in b['body'])
    firsts = [(f, r) for f in FIRST_PROBES for r in ('AstRenderer', 'HtmlRenderer')]
    chosen = firsts if (raising or w.get('all_firsts')) else firsts[(len(json.dumps(w['history'])) % 4) * 2:][:2]
    if any(b['renderer'] == 'bare' or b['renderer'].startswith('Swap:') for b in w['history']):
        chosen = [('SWAP', None)] + chosen[:1]      # the swapping renderers are the first thing used after the history
    for i, (first, fr) in enumerate(chosen):
        with impl.time_limit(120):
            snaps, problems = run_history(w['history'], baseline=baseline(), first=first, first_renderer=fr)
        if problems:
            return True, '%s; history %s then first %r under %s' % (problems[0], json.dumps(w['history']), first, fr)
    return False, 'ok'


def matches_known(v, finding):
    return False


def finding_still_fails(finding):
    return check_witness(finding['witness'])[0]


def block_alphabet(ctx):
    """Blocks over a reduced alphabet; every raising scenario at several positions."""
    blocks = []
    for rn in (RENDERERS if ctx.thorough else ['HtmlRenderer', 'MarkdownRenderer', 'LaTeXRenderer', 'AstRenderer', 'XWiki20Renderer']):
        blocks.append({'renderer': rn, 'body': [['render', 'hello `code` world\n'], ['render', 'a\nb\n\n> c\n> d\n\n- e\n  f\n\n| a |\n|---|\n']]})
    blocks.append({'renderer': 'bare', 'body': [['render', 'first line\nsecond line\n\n> q\n\n- i\n']]})
    blocks.append({'renderer': 'bare', 'body': [['render', 'x `y` z\n'], ['render', '| a |\n|---|\n']]})
    for tok in SWAPS:
        blocks.append({'renderer': 'Swap:' + tok, 'body': [['render', SWAP_PROBES[0]], ['render', 'a\nb\n\n> c\n']]})
    for rn in (['HtmlRenderer', 'MarkdownRenderer', 'AstRenderer'] if not ctx.thorough else RENDERERS[:6]):
        for kind, phases in (('block', ['start', 'read', 'init']), ('span', ['find', 'init'])):
            for phase in phases:
                for pos in (([0, 3, 7, 10] if kind == 'block' else list(range(0, 10))) if not ctx.thorough else list(range(0, 12))):
                    for d in (RAISE_DOCS if ctx.thorough else RAISE_DOCS[:3]):
                        blocks.append({'renderer': rn, 'body': [['render', 'x `y` z\n'], ['raise', kind, phase, pos, d]]})
    return blocks


def histories(ctx):
    rng = ctx.rng('histories')
    alpha = block_alphabet(ctx)
    hs = [[b] for b in alpha]
    # pairs / triples: a raising block followed by plain blocks
    raising = [b for b in alpha if any(op[0] == 'raise' for op in b['body'])]
    plain = [b for b in alpha if b not in raising]
    for _ in range(ctx.budget(40, 600)):
        hs.append([rng.choice(raising), rng.choice(plain)])
        hs.append([rng.choice(plain), rng.choice(raising), rng.choice(raising)])
    for _ in range(ctx.budget(6, 60)):
        hs.append([rng.choice(alpha) for _ in range(rng.randint(5, 25))])
    # a parse outside every renderer before a renderer is used for the first time, and user-defined swapping renderers
    special = [b for b in alpha if b['renderer'] == 'bare' or b['renderer'].startswith('Swap:')]
    for a in special:
        for b in special + plain[:3]:
            hs.append([a, b])
    return hs


def to_model_history(history):
    """Abstract programs for the Lean state machine (see Model/State.lean)."""
    out = []
    for blk in history:
        body = []
        for op in blk['body']:
            if op[0] == 'render':
                body.append({'op': 'parse', 'raises': False})
            else:
                body.append({'op': 'parse', 'raises': True, 'kind': op[1], 'cls': 'RaisingBlock' if op[1] == 'block' else 'RaisingSpan',
                             'pos': op[3]})
        out.append({'renderer': blk['renderer'].replace(':nohtml', 'NoHtml'), 'body': body})
    return out


def units(ctx):
    hs = histories(ctx)
    ctx._c11_histories = hs
    reqs, exp = [], []
    for h in hs:
        if any(b['renderer'] == 'bare' or b['renderer'].startswith('Swap:') for b in h):
            continue        # the state-machine model knows the bundled renderers; these histories are explored on the implementation
        snaps, _ = run_history(h, baseline=None)
        reqs.append({'op': 'state.run', 'history': to_model_history(h)})
        exp.append([{k: s[k] for k in ('block', 'span', 'parseSetext', 'charrefStd')} | {'codeMatchesClean': True} for s in snaps])
        # note: codeMatches may be non-empty after an aborted parse; what the model claims (and the
        # observation checks) is that the next scan does not see them - so the snapshot compares the
        # fields whose *value* must be restored.
    model = driver_batch(reqs)
    for h, e, m in zip([h for h in hs if not any(b['renderer'] == 'bare' or b['renderer'].startswith('Swap:') for b in h)], exp, model):
        ctx.compare('state', {'history': h}, m, e, kind='raising' if any(op[0] == 'raise' for b in h for op in b['body']) else 'plain')


def explore(ctx, seeds):
    hs = list(getattr(ctx, '_c11_histories', None) or histories(ctx))
    for sd in seeds:
        if isinstance(sd, dict) and 'history' in sd:
            hs.insert(0, sd['history'])
    if ctx.scale > 1:
        rng = ctx.rng('deep')
        alpha = block_alphabet(ctx)
        for _ in range(60 * ctx.scale):
            hs.append([rng.choice(alpha) for _ in range(rng.randint(2, 12))])
    for h in hs:
        w = {'history': h}
        ctx.explored_case(w, kind='len%d' % min(len(h), 4), nontrivial=any(op[0] == 'raise' for b in h for op in b['body']))
        fails, detail = check_witness(w)
        if fails:
            ctx.violation(detail, w)
            if len(ctx.violations) >= 6:
                break
    ctx.sample({'history': hs[len(hs) // 2]})
