"""
C02 — all CommonMark 0.30 normative examples render exactly as specified.

The quantifier is the finite corpus (652 examples, vendored in /verif/corpus so that it cannot
drift with the tree under test): every run enumerates it completely on the implementation
(HtmlRenderer with html_escape_double_quotes=True) and compares with the expected HTML under the
specification's own normalisation (harness/specnorm.py).
"""
import common
import gen_docs
import impl
import specnorm

ID = 'C02'
LEVEL = 'exploration'
EXHAUSTIVE = True
RULE = ('the complete normative corpus of CommonMark 0.30 (652 examples in 26 sections), enumerated exhaustively on every '
        'run; each example is distinct; all are non-trivial (each is a normative boundary case)')
TRUSTED = ['harness/specnorm.py re-implements the normalisation of the specification\'s test driver',
           'the corpus under /verif/corpus/spec-0.30.json is the specification\'s spec.json (copied once from the '
           'repository\'s vendored copy; never read from /repo at check time)']
ASSUMPTIONS = []
PARTIAL = ['interim level: exhaustive enumeration on the implementation. The Lean theorem `C02_corpus` (the model '
           'renders every example as specified, by kernel evaluation) and the doc/render correspondence on the same '
           '652 inputs are added once the parser model covers the whole inline grammar (DESIGN.md C02)']


def run_example(e):
    out = impl.parse_render('HtmlRenderer', {'html_escape_double_quotes': True}, e['markdown'].splitlines(keepends=True))[1]
    return out


def check_witness(w):
    e = [x for x in gen_docs.spec_examples() if x['example'] == w['example']][0]
    try:
        out = run_example(e)
    except Exception as ex:
        return True, 'example %d (%s) raised %s: %s; markdown %r' % (e['example'], e['section'], type(ex).__name__, ex, e['markdown'])
    if out != e['html'] and specnorm.normalize(out) != specnorm.normalize(e['html']):
        return True, 'example %d (%s): markdown %r expected %r got %r' % (e['example'], e['section'], e['markdown'], e['html'], out)
    return False, 'ok'


def matches_known(v, finding):
    return False


def finding_still_fails(finding):
    return check_witness(finding['witness'])[0]


def units(ctx):
    pass


def explore(ctx, seeds):
    sections = {}
    for e in gen_docs.spec_examples():
        w = {'example': e['example']}
        ctx.explored_case(w, kind=e['section'])
        fails, detail = check_witness(w)
        sections.setdefault(e['section'], [0, 0])
        sections[e['section']][0] += 1
        if fails:
            sections[e['section']][1] += 1
            ctx.violation(detail, w)
    ctx.notes.append('per section (examples, failing): %r' % sections)
    ctx.sample({'example': 1, 'markdown': gen_docs.spec_examples()[0]['markdown'], 'expected_html': gen_docs.spec_examples()[0]['html']})
