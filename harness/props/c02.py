"""
C02 — all CommonMark 0.30 normative examples render exactly as specified.

The quantifier is the finite corpus (652 examples, vendored in /verif/corpus so that it cannot
drift with the tree under test).

Proof: `Props/C02.lean` — the Lean model of Document(text) + HtmlRenderer(html_escape_double_quotes=
True).render, under the token lists regenerated from /repo, is evaluated BY THE KERNEL on every
example (`decide +kernel`, 32 chunk files under Proofs/Corpus/, no axioms) and returns the expected
HTML byte for byte (`C02_corpus`); the corpus is complete (`C02_corpus_complete`).

Tie to the code (units):
  * `corpus.data`   the Lean corpus the theorem quantifies over (driver op corpus.dump) equals the
                    vendored spec.json, field for field;
  * `corpus.run`    the very function the theorem evaluates (`SpecCheck.run`, through the native
                    driver) against the real HtmlRenderer on all 652 examples;
  * `doc`           the real Document(text) token tree (every attribute, line numbers, definitions) and
                    HTML against the model on all 652 examples under the three HTML option sets, and
                    on mutations of the examples (so that the agreement is not an accident of the corpus).
Exploration: every example on the implementation, compared with the expected HTML under the
specification's own normalisation (harness/specnorm.py) — this is what decides a violation.
"""
import common
import doc_units
import gen_docs
import impl
import specnorm
from common import driver_batch

ID = 'C02'
EXHAUSTIVE = True
EXTRA_MODULES = ['Mistletoe.Gen.Corpus'] + ['Mistletoe.Proofs.Corpus.P%02d' % k for k in range(32)]
RULE = ('the complete normative corpus of CommonMark 0.30 (652 examples in 26 sections), enumerated exhaustively on every '
        'run; each example is distinct; all are non-trivial (each is a normative boundary case). Correspondence also on '
        'seeded mutations of the examples')
TRUSTED = ['harness/specnorm.py re-implements the normalisation of the specification\'s test driver (used only when '
           'the implementation output is not byte-identical to the expected HTML)',
           'the corpus under /verif/corpus/spec-0.30.json is the specification\'s spec.json (copied once from the '
           'repository\'s vendored copy; never read from /repo at check time)',
           'kernel evaluation (decide +kernel) of the model on the corpus: Lean kernel reduction, no axioms']
ASSUMPTIONS = ['the theorem is about the Lean model; it is about the code to the extent of the doc / corpus.run '
               'correspondence (exhaustive on the corpus itself, sampled on mutations)']
PARTIAL = []


def run_example(e):
    out = impl.parse_render('HtmlRenderer', {'html_escape_double_quotes': True}, e['markdown'].splitlines(keepends=True))[1]
    return out


def check_witness(w):
    e = [x for x in gen_docs.spec_examples() if x['example'] == w['example']][0]
    try:
        out = run_example(e)
    except Exception as ex:
        return True, 'example %d (%s) raised %s: %s; markdown %r' % (e['example'], e['section'], type(ex).__name__, ex, e['markdown'])
    if out != e['html'] and specnorm.normalize(out) != specnorm.normalize(e['html']):
        return True, 'example %d (%s): markdown %r expected %r got %r' % (e['example'], e['section'], e['markdown'], e['html'], out)
    return False, 'ok'


def matches_known(v, finding):
    return False


def finding_still_fails(finding):
    return check_witness(finding['witness'])[0]


def prebuild():
    """The corpus theorem is a kernel evaluation; if the model (with the tables regenerated from /repo) no longer
    returns the expected HTML on some example, the theorem is false and must not be handed to the kernel (which
    would run for a very long time before rejecting it).  Evaluated natively through the driver."""
    spec = gen_docs.spec_examples()
    outs = driver_batch([{'op': 'corpus.run', 'text': e['markdown']} for e in spec])
    bad = [e['example'] for e, m in zip(spec, outs) if m != e['html']]
    if bad:
        return ('C02_corpus is false for the model as regenerated from this tree: SpecCheck.run differs from the '
                'expected HTML on example(s) %s' % bad[:10])
    return None


def units(ctx):
    spec = gen_docs.spec_examples()
    # the data the theorem quantifies over
    dump = driver_batch([{'op': 'corpus.dump'}])[0]
    want = [{'example': e['example'], 'markdown': e['markdown'], 'html': e['html']} for e in sorted(spec, key=lambda e: e['example'])]
    ctx.compare('corpus.data', {'examples': len(want)}, dump, want)
    # the function the theorem evaluates, against the real renderer
    outs = driver_batch([{'op': 'corpus.run', 'text': e['markdown']} for e in spec])
    for e, m in zip(spec, outs):
        try:
            real = impl.parse_render('HtmlRenderer', {'html_escape_double_quotes': True}, e['markdown'])[1]
        except Exception as ex:
            real = {'raises': type(ex).__name__}
        ctx.compare('corpus.run', {'example': e['example'], 'markdown': e['markdown']}, m, real, kind=e['section'])
    # token tree + HTML under the HTML option sets, corpus and mutations
    texts = [e['markdown'] for e in spec]
    html_cfgs = doc_units.CONFIGS[:3]
    for cfg in html_cfgs:
        doc_units.run(ctx, texts, unit='doc', configs=[cfg])
    rng = ctx.rng('mut')
    muts = [gen_docs.mutate(rng, rng.choice(texts)) for _ in range(ctx.budget(1500, 20000))]
    doc_units.run(ctx, muts, unit='doc.mutations', configs=html_cfgs)


def explore(ctx, seeds):
    sections = {}
    for e in gen_docs.spec_examples():
        w = {'example': e['example']}
        ctx.explored_case(w, kind=e['section'])
        fails, detail = check_witness(w)
        sections.setdefault(e['section'], [0, 0])
        sections[e['section']][0] += 1
        if fails:
            sections[e['section']][1] += 1
            ctx.violation(detail, w)
    ctx.notes.append('per section (examples, failing): %r' % sections)
    ctx.sample({'example': 1, 'markdown': gen_docs.spec_examples()[0]['markdown'], 'expected_html': gen_docs.spec_examples()[0]['html']})
