"""
C06 — emphasis nesting equals the specification's delimiter-run algorithm.

Theorems (lean/Mistletoe/Props/C06.lean, lemmas in Proofs/CoreTotal.lean) over the model of core_tokens.py
(find_core_tokens, find_link_image, process_emphasis, Delimiter.remove, the link matchers), for EVERY text and
every table of link definitions:
  * `C06_core_never_fails` / `C06_tokenize_inner_total`: the inline parser returns - none of its index accesses
    can raise and the fuels of its two loops suffice (the clause "no such text makes the parser fail"; the
    historical crash '**a****b*' is a kernel-evaluated example);
  * `C06_emphasis_wellformed`, `C06_emphasis_delimiters`: every <em>/<strong> match has a non-empty content
    between two delimiter strings of equal length 1 (em) or 2 (strong) made of one and the same character * or _;
  * `C06_emphasis_nested`, `C06_emphasis_disjoint_or_nested`: any two matches are disjoint or properly nested.
  * `C06_emphasis_is_spec_partial`, `C06_emphasis_is_spec_esc_partial` (lemmas in Proofs/EmphSpec.lean, Proofs/EmphRefine.lean,
    Proofs/EmphRefineEsc.lean): for every text without backquote, brackets, `<`, `&` (backslash escapes included) and
    without eight exotic whitespace code points, the matches find_core_tokens
    returns are - one for one, in order - the emphasis nodes computed by lean/Mistletoe/Spec/Emphasis.lean, an independent
    formal reading of CommonMark 0.30 section 6.2 + appendix (flanking, underscore restrictions, rule of three on original
    lengths, openers_bottom, strong iff both >= 2); `C06_bottoms_sound`: the per-kind opener bottoms never change a result;
    `C06_whitespace_deviation`: the one place where mistletoe's character classes differ from the specification's.
Units: `inline` - the real tokenize_inner (token tree with attributes) against the model on the exhaustive small-alphabet
strings and a random sample of the wide ones; `c06.theorem` - the theorem's hypotheses are evaluated by the second driver (op
c06.spec) and, where they hold, the REAL find_core_tokens must return exactly the spans the Lean specification computes;
`spec.emph` - the Lean specification against the independent Python reading of the same section (harness/spec_emph.py), so
that the trusted reading of the specification is held in two independent forms that must agree.
Texts with backslash escapes, `!`/`[` and the excluded characters: explored against the Python oracle.
"""
import itertools
import re
import unicodedata

import common
import impl
import inline_units
import spec_emph

ID = 'C06'
EXTRA_MODULES = ['Mistletoe.Proofs.CoreTotal', 'Mistletoe.Proofs.EmphRefine', 'Mistletoe.Proofs.EmphRefineEsc', 'Mistletoe.Proofs.EmphHtml', 'propsdriver']
RULE = ('exhaustively all strings over {a, space, *, _, .} up to length 7 (quick) / 9 (thorough), over {a,*,_,\\,!,[} up to '
        'length 6 / 7 and over {a,*}, {a,_} up to length 12 / 14; random strings up to length 40 over a wider alphabet (Unicode '
        'punctuation and whitespace, digits, letters, backslash, "!", "["). Distinct by string; non-trivial when the string '
        'has at least two delimiter runs')
TRUSTED = ['harness/spec_emph.py is the reading of CommonMark 0.30 section 6.2 used as oracle; it is itself checked against '
           'the emphasis examples of the vendored corpus on every run']
ASSUMPTIONS = ['texts contain no other inline syntax (no backticks, closing brackets, angle brackets, ampersands); backslash '
               'escapes, "!" and "[" are included']
PARTIAL = ['proved: the parser never fails; matches are well-formed, made of one delimiter character, and nest; for texts without '
           'backquote, brackets, < and & - backslash escapes included - the matches ARE those of the specification algorithm (Lean '
           'specification, C06_emphasis_is_spec_esc_partial), AND THE OUTPUT is the specification\'s HTML: the span resolver, the token '
           'builder and the HTML renderer turn those matches into <em>/<strong> nested as the specification\'s spans around the escaped '
           'text (Props/C06_Html.lean: C06_html_is_spec_esc_partial at inline level, C06_paragraph_html_is_spec_esc_partial through '
           'Document + HtmlRenderer; one-line texts without "~~"; re-checked on the real code each run: c06.theorem.html). Not '
           'proved: texts with "!" and "[" next to delimiter runs, multi-line texts and "~~" (explored exhaustively over a small '
           'alphabet against the Python oracle)',
           'the Lean specification and the Python oracle are two readings of the same text of the specification; they are '
           'compared with each other on every run (spec.emph) and with 114 examples of the corpus inside Spec/Emphasis.lean']

WIDE = list('ab1 .,;:!?()-"\'') + ['\\', '[', '!', '*', '_', '*', '_', '\xa0', ' ', ' ', '«', '»', '“', '”', '…', '—', 'é', 'Ω', '中', '¡', '·', '　']


def impl_emph(text):
    from mistletoe import HtmlRenderer, span_token
    with impl.time_limit(10):
        with HtmlRenderer() as r:
            try:
                return ''.join(r.render(t) for t in span_token.tokenize_inner(text))
            finally:
                pass


def via_heading(text):
    out = impl.parse_render('HtmlRenderer', {}, '# ' + text + '\n')[1]
    assert out.startswith('<h1>') and out.endswith('</h1>\n'), out
    return out[4:-6]


def esc(s):
    return s.replace('&', '&amp;').replace('<', '&lt;').replace('>', '&gt;')


def check_witness(w):
    text = w['text']
    t = text.strip()
    if not t or t != text or '\n' in t:
        return False, 'not a heading content'
    want = esc(spec_emph.spec(text)) if any(c in text for c in '&<>') else spec_emph.spec(text)
    try:
        got = impl_emph(text)
    except Exception as e:
        impl.reset_library()
        return True, 'the inline parser raised %s: %s on %r' % (type(e).__name__, e, text)
    if got != want:
        return True, 'emphasis structure of %r is %r, the specification algorithm gives %r' % (text, got, want)
    return False, 'ok'


def matches_known(v, finding):
    return False


def finding_still_fails(finding):
    return check_witness(finding['witness'])[0]


def units(ctx):
    texts = []
    for k in range(1, (7 if not ctx.thorough else 8) + 1):
        for tup in itertools.product('a *_.', repeat=k):
            if tup[0] != ' ' and tup[-1] != ' ' and any(c in '*_' for c in tup):
                texts.append(''.join(tup))
    for k in range(1, (6 if not ctx.thorough else 7) + 1):
        for tup in itertools.product('a*_\\![', repeat=k):
            texts.append(''.join(tup))
    rng = ctx.rng('units')
    for _ in range(ctx.budget(6000, 60000)):
        s = ''.join(rng.choice(WIDE + ['`', ']', '(', ')', '<', '>', '&', ';', '~', '\n']) for _ in range(rng.randint(2, 40))).strip()
        if s:
            texts.append(s)
    inline_units.run(ctx, texts)
    theorem_units(ctx)


def spans_to_html(text, spans):
    """the <em>/<strong> nesting that a list of (start, ts, te, stop, strong) spans denotes (every delimiter character belongs
    to exactly one span, so replacing delimiter ranges by tags in text order nests correctly)"""
    opens, closes = {}, {}
    for a, b, c, d, st in spans:
        tag = 'strong' if st else 'em'
        opens[a] = (b, '<%s>' % tag)
        closes[c] = (d, '</%s>' % tag)
    out, i = '', 0
    while i < len(text):
        if i in opens:
            j, t = opens[i]
        elif i in closes:
            j, t = closes[i]
        else:
            out += text[i]
            i += 1
            continue
        out += t
        i = j
    # backslash escapes: the specification's output drops the backslash of an escaped ASCII punctuation character
    return re.sub(r'\\([!-/:-@\[-`{-~])', r'\1', out)


class _Root:
    footnotes = {}


def real_spans(text):
    from mistletoe import core_tokens
    try:
        with impl.time_limit(10):
            ms = core_tokens.find_core_tokens(text, _Root())
            return [[m.start(), m.start(1), m.end(1), m.end(), m.type == 'Strong'] for m in ms
                    if getattr(m, 'type', None) in ('Strong', 'Emphasis')] + [['other', getattr(m, 'type', None)] for m in ms
                                                                               if getattr(m, 'type', None) not in ('Strong', 'Emphasis')]
    finally:
        impl.reset_library()


def real_inline_html(text):
    """HtmlRenderer's rendering of the inline tokens of `text` (no block phase: the text is handed to tokenize_inner as it is)"""
    from mistletoe import span_token
    from mistletoe.html_renderer import HtmlRenderer
    try:
        with impl.time_limit(10):
            with HtmlRenderer() as r:
                return ''.join(r.render(tok) for tok in span_token.tokenize_inner(text))
    except Exception as e:
        return {'raises': type(e).__name__}
    finally:
        impl.reset_library()


def theorem_units(ctx):
    texts = ['*\x1fa*', '*\x0ba*', 'a*\u2028b*']
    for k in range(1, (7 if not ctx.thorough else 9) + 1):
        for tup in itertools.product('a *_.', repeat=k):
            if any(c in '*_' for c in tup):
                texts.append(''.join(tup))
    for alpha in ('a*', 'a_'):
        for k in range(8, (11 if not ctx.thorough else 13)):
            for tup in itertools.product(alpha, repeat=k):
                texts.append(''.join(tup))
    rng = ctx.rng('theorem')
    for k in range(1, (6 if not ctx.thorough else 7) + 1):
        for tup in itertools.product('a*_\\.', repeat=k):
            if '\\' in tup and any(c in '*_' for c in tup):
                texts.append(''.join(tup))
    wide = [c for c in WIDE if c != '['] + ['!', '>', '"', '\t', '\x0c', '\x1f', '\x85', '\u2028', '\u3000', '¿', '„']
    for _ in range(ctx.budget(8000, 80000)):
        texts.append(''.join(rng.choice(wide) for _ in range(rng.randint(2, 40))))
    res = common.driver_batch([{'op': 'c06.spec', 'text': t} for t in texts], binary=common.PROPS_DRIVER)
    n_ok = n_dev = n_html = 0
    for t, r in zip(texts, res):
        if not (isinstance(r, dict) and r.get('plain')):
            continue
        # the Lean specification against the Python reading of the same section (both are about the specification, not the code)
        if '\n' not in t:
            ctx.compare('spec.emph', {'text': t}, spans_to_html(t, r['spans']), spec_emph.spec(t), kind='len%d' % min(len(t), 12))
        if not r.get('stdWs'):
            n_dev += 1
            continue
        n_ok += 1
        try:
            real = real_spans(t)
        except Exception as e:
            real = {'raises': type(e).__name__}
        ctx.compare('c06.theorem', {'text': t}, r['spans'], real, kind='len%d' % min(len(t), 12))
        # the OUTPUT: the specification's HTML of the text against the real tokenize_inner + HtmlRenderer (C06_html_is_spec_esc_partial)
        if r.get('htmlOk'):
            n_html += 1
            ctx.compare('c06.theorem.html', {'text': t}, r['html'], real_inline_html(t), kind='len%d' % min(len(t), 12))
    dev = '*\x1fa*'
    ctx.notes.append('%d texts satisfy the hypotheses of C06_html_is_spec_esc_partial (output level); ' % n_html)
    ctx.notes.append('%d texts satisfy the hypotheses of C06_emphasis_is_spec_partial; %d plain texts contain one of the eight deviant '
                     'whitespace code points (outside the theorem); C06_whitespace_deviation on the real code: find_core_tokens(%r) = %r, '
                     'specification spans %r' % (n_ok, n_dev, dev, real_spans(dev), [list(x) for x in [(0, 1, 3, 4, False)]]))


def corpus_selfcheck(ctx):
    """The oracle must reproduce the corpus' emphasis examples that use no other syntax."""
    import gen_docs
    bad = 0
    n = 0
    for e in gen_docs.spec_examples():
        if e['section'] != 'Emphasis and strong emphasis':
            continue
        md = e['markdown'].rstrip('\n')
        if any(c in md for c in '[]`<>&\\\n') or md.strip() != md:
            continue
        n += 1
        want = e['html'].strip().replace('&quot;', '"')
        if want.startswith('<p>') and want.endswith('</p>') and spec_emph.spec(md) != want[3:-4]:
            bad += 1
            ctx.notes.append('oracle disagrees with spec example %d' % e['example'])
    ctx.notes.append('oracle self-check on %d corpus emphasis examples: %d disagreements' % (n, bad))
    if bad:
        raise common.MachineryError('the C06 oracle does not reproduce the specification examples')


def strings(ctx):
    n5 = 7 if not ctx.thorough else 9
    n2 = 12 if not ctx.thorough else 14
    for k in range(1, n5 + 1):
        for tup in itertools.product('a *_.', repeat=k):
            if tup[0] != ' ' and tup[-1] != ' ':
                yield ''.join(tup)
    # backslash escapes, '!' and '[' next to delimiter runs (no ']' so no link can form: brackets stay literal)
    for k in range(1, (6 if not ctx.thorough else 7) + 1):
        for tup in itertools.product('a*_\\![', repeat=k):
            yield ''.join(tup)
    for alpha in ('a*', 'a_'):
        for k in range(n5 + 1, n2 + 1):
            for tup in itertools.product(alpha, repeat=k):
                yield ''.join(tup)
    rng = ctx.rng('wide')
    for _ in range(ctx.budget(20000, 300000)):
        s = ''.join(rng.choice(WIDE) for _ in range(rng.randint(2, 40))).strip()
        if s:
            yield s


def explore(ctx, seeds):
    corpus_selfcheck(ctx)
    extra = [sd['text'] for sd in seeds if isinstance(sd, dict) and isinstance(sd.get('text'), str)]
    k = 0
    for s in itertools.chain(extra, ['**a****b*', '**_*_*', '*a_*_._', '*foo**bar*'], strings(ctx)):
        if any(c in '*_' for c in s):
            w = {'text': s}
            ctx.explored_case(s, kind='len%d' % min(len(s), 12), nontrivial=(s.count('*') + s.count('_')) >= 2)
            fails, detail = check_witness(w)
            if fails:
                ctx.violation(detail, w)
                if len(ctx.violations) >= 8:
                    break
            k += 1
    for s in ['*a* b', 'a **b** _c_', '*a **b** c*']:
        if via_heading(s) != impl_emph(s):
            raise common.MachineryError('heading route and direct inline route differ on %r' % s)
    ctx.sample({'text': '*foo**bar*', 'spec': spec_emph.spec('*foo**bar*')})
