"""
C06 — emphasis nesting equals the specification's delimiter-run algorithm.

Exploration: the real inline parser against an independent, declarative implementation of the
CommonMark 0.30 delimiter-run procedure (harness/spec_emph.py, written from section 6.2 of the
specification: flanking from the definitions, the underscore restrictions, the rule of three on
ORIGINAL run lengths, nearest admissible opener - no openers_bottom optimisation), exhaustively
over small alphabets and randomly over a wide one.
"""
import itertools
import unicodedata

import common
import impl
import spec_emph

ID = 'C06'
LEVEL = 'exploration'
RULE = ('exhaustively all strings over {a, space, *, _, .} up to length 7 (quick) / 9 (thorough) and over {a,*}, {a,_} up to '
        'length 12 / 14; random strings up to length 40 over a wider alphabet (Unicode punctuation and whitespace, digits, '
        'letters). Distinct by string; non-trivial when the string has at least two delimiter runs')
TRUSTED = ['harness/spec_emph.py is the reading of CommonMark 0.30 section 6.2 used as oracle; it is itself checked against '
           'the emphasis examples of the vendored corpus on every run']
ASSUMPTIONS = ['texts contain no other inline syntax (no backticks, closing brackets, angle brackets, ampersands); backslash escapes, "!" and "[" are included']
PARTIAL = ['interim level: exhaustive small-scope + random differential against the specification oracle. The Lean model of '
           'process_emphasis, the flanking theorem and the refinement to the declarative procedure are the planned upgrade']

WIDE = list('ab1 .,;:!?()-"\'') + ['\\', '[', '!', '*', '_', '*', '_', '\xa0', ' ', ' ', '«', '»', '“', '”', '…', '—', 'é', 'Ω', '中', '¡', '·', '　']


def impl_emph(text):
    from mistletoe import HtmlRenderer, span_token
    with impl.time_limit(10):
        with HtmlRenderer() as r:
            try:
                return ''.join(r.render(t) for t in span_token.tokenize_inner(text))
            finally:
                pass


def via_heading(text):
    out = impl.parse_render('HtmlRenderer', {}, '# ' + text + '\n')[1]
    assert out.startswith('<h1>') and out.endswith('</h1>\n'), out
    return out[4:-6]


def esc(s):
    return s.replace('&', '&amp;').replace('<', '&lt;').replace('>', '&gt;')


def check_witness(w):
    text = w['text']
    t = text.strip()
    if not t or t != text or '\n' in t:
        return False, 'not a heading content'
    want = esc(spec_emph.spec(text)) if any(c in text for c in '&<>') else spec_emph.spec(text)
    try:
        got = impl_emph(text)
    except Exception as e:
        impl.reset_library()
        return True, 'the inline parser raised %s: %s on %r' % (type(e).__name__, e, text)
    if got != want:
        return True, 'emphasis structure of %r is %r, the specification algorithm gives %r' % (text, got, want)
    return False, 'ok'


def matches_known(v, finding):
    return False


def finding_still_fails(finding):
    return check_witness(finding['witness'])[0]


def units(ctx):
    pass


def corpus_selfcheck(ctx):
    """The oracle must reproduce the corpus' emphasis examples that use no other syntax."""
    import gen_docs
    bad = 0
    n = 0
    for e in gen_docs.spec_examples():
        if e['section'] != 'Emphasis and strong emphasis':
            continue
        md = e['markdown'].rstrip('\n')
        if any(c in md for c in '[]`<>&\\\n') or md.strip() != md:
            continue
        n += 1
        want = e['html'].strip().replace('&quot;', '"')
        if want.startswith('<p>') and want.endswith('</p>') and spec_emph.spec(md) != want[3:-4]:
            bad += 1
            ctx.notes.append('oracle disagrees with spec example %d' % e['example'])
    ctx.notes.append('oracle self-check on %d corpus emphasis examples: %d disagreements' % (n, bad))
    if bad:
        raise common.MachineryError('the C06 oracle does not reproduce the specification examples')


def strings(ctx):
    n5 = 7 if not ctx.thorough else 9
    n2 = 12 if not ctx.thorough else 14
    for k in range(1, n5 + 1):
        for tup in itertools.product('a *_.', repeat=k):
            if tup[0] != ' ' and tup[-1] != ' ':
                yield ''.join(tup)
    # backslash escapes, '!' and '[' next to delimiter runs (no ']' so no link can form: brackets stay literal)
    for k in range(1, (6 if not ctx.thorough else 7) + 1):
        for tup in itertools.product('a*_\\![', repeat=k):
            yield ''.join(tup)
    for alpha in ('a*', 'a_'):
        for k in range(n5 + 1, n2 + 1):
            for tup in itertools.product(alpha, repeat=k):
                yield ''.join(tup)
    rng = ctx.rng('wide')
    for _ in range(ctx.budget(20000, 300000)):
        s = ''.join(rng.choice(WIDE) for _ in range(rng.randint(2, 40))).strip()
        if s:
            yield s


def explore(ctx, seeds):
    corpus_selfcheck(ctx)
    extra = [sd['text'] for sd in seeds if isinstance(sd, dict) and isinstance(sd.get('text'), str)]
    k = 0
    for s in itertools.chain(extra, ['**a****b*', '**_*_*', '*a_*_._', '*foo**bar*'], strings(ctx)):
        if any(c in '*_' for c in s):
            w = {'text': s}
            ctx.explored_case(s, kind='len%d' % min(len(s), 12), nontrivial=(s.count('*') + s.count('_')) >= 2)
            fails, detail = check_witness(w)
            if fails:
                ctx.violation(detail, w)
                if len(ctx.violations) >= 8:
                    break
            k += 1
    for s in ['*a* b', 'a **b** _c_', '*a **b** c*']:
        if via_heading(s) != impl_emph(s):
            raise common.MachineryError('heading route and direct inline route differ on %r' % s)
    ctx.sample({'text': '*foo**bar*', 'spec': spec_emph.spec('*foo**bar*')})
