"""
C08 — HTML output is well-formed and document text cannot inject markup.

Units: `py.escape` (escape_html_text x4, html.escape, escape_url: every code point singly +
random concatenations, against the per-character model built from the regenerated tables),
`render.html` (real HtmlRenderer output vs `flat (renderDoc …)`, on parser ASTs and on the same
ASTs with string attributes overwritten by hostile values, all 8 option sets).
Exploration: htmlcheck (the executable form of Pred.WellFormed) on real output for hostile documents,
raw HTML set aside by replacing HtmlBlock/HtmlSpan contents with opaque placeholders.
"""
import sys

import common
import export
import gen_docs
import htmlcheck
import impl
from common import driver_batch

ID = 'C08'
EXTRA_MODULES = ['Mistletoe.Proofs.Html', 'Mistletoe.Proofs.HtmlEndToEnd']
RULE = ('documents from the spec corpus, mutations, random documents and templates seeded with quote/bracket/'
        'ampersand-rich destinations, titles, alt texts, info strings and autolinks, x the 8 HtmlRenderer option '
        'sets; token trees additionally edited to carry hostile strings in every string attribute; escaping helpers '
        'over single code points and random concatenations. Distinct by (text, options); non-trivial when the '
        'document contains a link, image, code block, autolink or raw HTML')
TRUSTED = ['harness/htmlcheck.py is the executable reading of Pred.WellFormed used on implementation output',
           'raw HTML is set aside by replacing HtmlBlock/HtmlSpan contents with placeholders before rendering']
ASSUMPTIONS = ['heading levels are 1..6 (levelsOks; established for parsed documents by C12, checked by the exporter)',
               'Python str without lone surrogates (inputs come from UTF-8 text)']
PARTIAL = []

HOSTILE = ['"', "'", '<', '>', '&', '"><script>alert(1)</script>', '" onerror="alert(1)', "' onload='x",
           '&quot;', '&#34;', '&amp;', '%22', 'javascript:alert("x")', 'a b', '\\"', '\\<', '<b>', '</a>', '&lt;',
           'é"', '中<', '\x7f"', ' ', '`', '"\'<>&', 'x" y="z', '&#x22;', '&QUOT;', 'a@b"c', '<!--', ']]>', '\t"']


def _template_payloads():
    """Strings that are only dangerous when text is pasted into a template that is expanded again: format fields named like
    the ones the renderers of the working tree use ('{inner}', '{target}', …, read from the source at run time), positional
    and %-style fields, regex replacement back-references."""
    import re as _re
    names = set()
    for f in list((common.REPO / 'mistletoe').glob('*.py')) + list((common.REPO / 'mistletoe' / 'contrib').glob('*.py')):
        try:
            names.update(_re.findall(r'\{(\w{1,12})\}', f.read_text()))
        except OSError:
            pass
    out = ['{', '}', '{}', '{0}', '{{', '}}', '%s', '%d', '%(inner)s', '\\1', '\\g<0>', '$1', '${x}', '{0.__class__}']
    out += ['{%s}' % n for n in sorted(names)]
    return out


# compatibility look-alikes of the HTML-significant characters (fullwidth / small forms; NFKC folds them to < > " & '): harmless
# unless an output stage normalises after escaping
HOSTILE += ['＜', '＞', '＂', '＆', '＇', '﹤', '﹥', '﹠', '＜script＞', '＂ onerror=＂x']
HOSTILE += _template_payloads()


def hostile(rng, k=3):
    return ''.join(rng.choice(HOSTILE + ['a', 'b', '/', ':', '.']) for _ in range(rng.randint(1, k)))


def hostile_doc(rng):
    used = []

    def h():
        # now and then the SAME string again in another role of the same document (text then attribute, code then title, ...)
        if used and rng.random() < 0.3:
            return rng.choice(used)
        x = hostile(rng)
        used.append(x)
        return x
    atoms = [
        lambda: '![%s](<%s> "%s")' % (h().replace(']', ''), h().replace('>', '').replace('<', ''), h().replace('"', '\\"')),
        lambda: '![%s](%s)' % (h().replace(']', ''), h().replace(' ', '').replace(')', '').replace('(', '')),
        lambda: '[%s](<%s> \'%s\')' % (h().replace(']', ''), h().replace('>', '').replace('<', ''), h().replace("'", "\\'")),
        lambda: '[%s](%s (%s))' % (h().replace(']', ''), h().replace(' ', '').replace(')', '').replace('(', ''), h().replace(')', '').replace('(', '')),
        lambda: '<http://%s>' % h().replace(' ', '').replace('<', '').replace('>', ''),
        lambda: '<%s@%s.c>' % ('a', 'b'),
        lambda: '<mailto:%s>' % h().replace(' ', '').replace('<', '').replace('>', ''),
        lambda: '<x%s@b.c>' % rng.choice(['"', "'", '&', '+', '!', '#', '$', '%', '*']),
        lambda: '`%s`' % h().replace('`', ''),
        lambda: '*%s*' % h(),
        lambda: '[ref%d]' % rng.randint(0, 2),
        lambda: '![img][ref%d]' % rng.randint(0, 2),
        lambda: '<span title="%s">' % h().replace('"', ''),
        lambda: h(),
        lambda: '&%s;' % rng.choice(['quot', 'lt', 'gt', 'amp', '#34', '#x3c', 'apos']),
        lambda: '\\' + rng.choice('"<>&\'')]
    inl = ['*a*', '**b**', '`c"<`', '<b>', '</i>', '[l](u "t")', '<http://x.y/"z>', '~~s~~', '\\<', '&lt;', '&#34;', 'x',
           '  \n', '\\\n', '\n', '![in](ner)', '<!-- c -->', '"', '<', '>', '&', "'"]

    def rich():
        return ' '.join(rng.choice(inl) for _ in range(rng.randint(1, 5))).replace(' \n ', '\n').replace('  \n', '  \n')
    atoms += [lambda: '![%s](s%s)' % (rich(), rng.choice(['', ' "t"'])), lambda: '[%s](u)' % rich(),
              lambda: '![%s][ref%d]' % (rich(), rng.randint(0, 2)), lambda: '*%s*' % rich(), lambda: '~~%s~~' % rich()]
    lines = []
    for _ in range(rng.randint(1, 5)):
        r = rng.random()
        line = ' '.join(rng.choice(atoms)() for _ in range(rng.randint(1, 4)))
        if r < 0.15:
            lines += ['```%s' % h().replace('`', '').replace('\n', ''), line, '```']
        elif r < 0.25:
            lines += ['| a | %s |' % h().replace('|', ''), '|---|:-:|', '| %s | b |' % line.replace('|', '')]
        elif r < 0.35:
            lines += ['# ' + line]
        elif r < 0.45:
            lines += ['> ' + line, '']
        elif r < 0.55:
            lines += ['- ' + line, '  ' + h(), '']
        elif r < 0.62:
            lines += ['<div title="%s">' % h().replace('"', ''), line, '</div>', '']
        elif r < 0.7:
            lines += ['    ' + line, '']
        else:
            lines += [line, '']
    for k in range(3):
        if rng.random() < 0.6:
            lines += ['', '[ref%d]: <%s> "%s"' % (k, h().replace('>', '').replace('<', ''), h().replace('"', '\\"'))]
    return '\n'.join(lines) + '\n'


def walk(tok):
    yield tok
    for c in (tok.children or []):
        yield from walk(c)
    if 'header' in vars(tok):
        yield from walk(tok.header)


def edit_tree(rng, doc):
    """Overwrite string attributes with hostile values (the theorems quantify over all trees)."""
    for t in walk(doc):
        name = type(t).__name__
        for attr in ('target', 'src', 'title', 'language'):
            if attr in vars(t) and isinstance(getattr(t, attr), str) and rng.random() < 0.5:
                if name == 'BlockCode':
                    continue
                setattr(t, attr, hostile(rng))
        if name == 'AutoLink' and rng.random() < 0.5:
            t.target = hostile(rng)
            t.children[0].content = t.target
        if name == 'RawText' and rng.random() < 0.3:
            t.content = hostile(rng)


def placeholders(doc):
    """Set raw HTML aside: replace every HtmlBlock / HtmlSpan content by an opaque placeholder."""
    k = 0
    for t in walk(doc):
        name = type(t).__name__
        if name == 'HtmlBlock':
            t.children[0].content = '\x00RAW%d\x00' % k
            k += 1
        elif name == 'HtmlSpan':
            t.content = '\x00RAW%d\x00' % k
            k += 1
    return k


def interesting(text):
    return any(s in text for s in ('](', '![', '```', '<', '[ref', '&'))


def check_witness(w):
    """w: {'text', 'kwargs', optional 'edit_seed'}; returns (fails, detail)."""
    text, kwargs = w['text'], w['kwargs']
    try:
        doc = impl.parse_only('HtmlRenderer', kwargs, text)
    except Exception as e:
        return False, 'parse raised %s (C01)' % type(e).__name__
    if w.get('edit_seed') is not None:
        edit_tree(common.sub_rng(w['edit_seed'], 'edit'), doc)
    n = placeholders(doc)
    if n and not kwargs.get('process_html_tokens', True):
        return True, 'HTML tokens produced although process_html_tokens=False'
    try:
        out = impl.render_tree('HtmlRenderer', kwargs, doc)
    except Exception as e:
        return False, 'render raised %s (C01)' % type(e).__name__
    problem = htmlcheck.check(out, allow_placeholders=n > 0)
    if problem:
        return True, '%s; input %r options %r output %r' % (problem, text, kwargs, out[:300])
    return False, 'ok'


def matches_known(v, finding):
    return False


def finding_still_fails(finding):
    return False


def _texts(ctx):
    rng = ctx.rng('texts')
    texts = [hostile_doc(rng) for _ in range(ctx.budget(500, 8000))]
    texts += gen_docs.corpus_stream(rng, ctx.budget(400, 6000))
    texts += ['![a](x"onerror="alert(1))', '<http://a@b"c>', '[a](<b"c>)', '```a"b\nx\n```', '![a"b](c)', '[a](b "c\\"d")']
    return texts


ESCAPERS = [('escape_html_text', dict(dq=False, sq=False)), ('escape_html_text', dict(dq=True, sq=False)),
            ('escape_html_text', dict(dq=False, sq=True)), ('escape_html_text', dict(dq=True, sq=True)),
            ('html.escape', {}), ('html.escape_url', {})]


def real_escaper(fn, o):
    import html
    from mistletoe import HtmlRenderer
    if fn == 'escape_html_text':
        r = HtmlRenderer(html_escape_double_quotes=o['dq'], html_escape_single_quotes=o['sq'])
        r.__exit__(None, None, None)
        return r.escape_html_text
    if fn == 'html.escape':
        return html.escape
    return HtmlRenderer.escape_url


def units(ctx):
    rng = ctx.rng('units')
    # py.escape: single code points + random concatenations
    allcp = [c for c in range(sys.maxunicode + 1) if not (0xD800 <= c <= 0xDFFF)]
    if ctx.thorough:
        cps = allcp
    else:
        cps = sorted(set(list(range(0x900)) + [rng.randrange(0x900, 0x110000) for _ in range(4000)]
                         + [0xFFFF, 0x10000, 0x10FFFF, 0xD7FF, 0xE000, 0x7FF, 0x800]) - set(range(0xD800, 0xE000)))
    strings = [chr(c) for c in cps] + [gen_docs.random_string(rng, maxlen=12) + hostile(rng) for _ in range(ctx.budget(1500, 20000))]
    for fn, o in ESCAPERS:
        f = real_escaper(fn, o)
        reqs = [dict(op='escape', fn=fn, s=s, **o) for s in strings]
        model = driver_batch(reqs)
        for s, m in zip(strings, model):
            ctx.compare('py.' + fn + ''.join('.%s%d' % (k, v) for k, v in o.items()), {'s': s}, m, f(s))
    # render.html
    texts = _texts(ctx)
    ctx._c08_texts = texts
    reqs, cases = [], []
    for i, t in enumerate(texts):
        for kw in (impl.HTML_OPTION_SETS if ctx.thorough else [impl.HTML_OPTION_SETS[i % 8], impl.HTML_OPTION_SETS[(i * 3 + 1) % 8]]):
            for edit in (None, i):
                try:
                    doc = impl.parse_only('HtmlRenderer', kw, t)
                except Exception:
                    continue        # parser crash: C01's business
                if edit is not None:
                    edit_tree(common.sub_rng(ctx.seed, 'edit', i), doc)
                try:
                    out = {'out': impl.render_tree('HtmlRenderer', kw, doc)}
                except Exception as e:
                    out = {'raises': True}
                try:
                    j = export.export_doc(doc, check_parent=False)
                except export.ShapeError:
                    continue        # C12's business
                reqs.append({'op': 'html.render', 'opts': impl.lean_html_opts(kw), 'doc': j})
                cases.append(({'text': t, 'kwargs': kw, 'edited': edit is not None}, out))
    model = driver_batch(reqs)
    for (case, out), m in zip(cases, model):
        ctx.compare('render.html', case, m, out, kind='edited' if case['edited'] else 'parsed')


def explore(ctx, seeds):
    texts = list(getattr(ctx, '_c08_texts', None) or _texts(ctx))
    for sd in seeds:
        if isinstance(sd, dict) and isinstance(sd.get('text'), str):
            texts.insert(0, sd['text'])
    if ctx.scale > 1:
        rng = ctx.rng('deep')
        texts += [hostile_doc(rng) for _ in range(3000 * ctx.scale)]
    for i, t in enumerate(texts):
        for kw in (impl.HTML_OPTION_SETS if ctx.thorough else [impl.HTML_OPTION_SETS[i % 8], impl.HTML_OPTION_SETS[(i * 5 + 4) % 8]]):
            for edit in (None, ctx.seed * 1000003 + i):
                w = {'text': t, 'kwargs': kw, 'edit_seed': edit}
                ctx.explored_case(w, kind='edited' if edit is not None else 'parsed', nontrivial=interesting(t))
                fails, detail = check_witness(w)
                if fails:
                    ctx.violation(detail, w)
        if len(ctx.violations) >= 8:
            break
    ctx.sample({'text': texts[0], 'options': impl.HTML_OPTION_SETS[1]})
