"""
C04 — quoting or list-indenting any document wraps its parse unchanged.

Theorems (lean/Mistletoe/Props/C04.lean, lemmas in Proofs/Wrap.lean) over the block-parser model, for every
token-type list in which only types that cannot start on the marked line precede Quote / List (proved for the
HTML and the Markdown renderer's lists), every buffer, start line, state and gas:
  * `C04_quote_wraps_eq`: tokenize_block on lines each behind "> " or ">" (tab-free; the bare marker only before a
    line that does not begin with a space) equals one Quote around tokenize_block on the unmarked lines run with
    Paragraph.parse_setext off - errors included; definitions (`st.defs`) unchanged; `C04_quote_phase*` for
    Document-level `blockPhase`; `C04_quote_wraps_same`: the content is exactly B when the parse does not depend
    on the setext switch (the recorded finding `setext-in-quote` is exactly the failure of that hypothesis, and is
    exhibited on the model by a kernel-evaluated example);
  * `C04_item_wraps_eq` / `C04_item_phase_partial`: lines indented as one list item (marker - + * or 1-9 digits
    with . or ), padding 1-4, first line starting with a non-space character, other lines indented by the marker
    width or exactly "\n", not ending in a blank line, marked first line not a thematic break) parse to one
    single-item List whose item content is the parse of the original lines, same definitions.
Units: `scan.*` (every block scanner against the compiled patterns of the working tree) and `block.buffer`
(real tokenize_block against the model) on the original AND the embedded texts of this run's cases.
Exploration (metamorphic, on the implementation): AST of Document(text) against AST of Document(embed(text)) with
line numbers set aside, for both quote markers and list markers + - * N. N) with 1-4 spaces of padding; the set of
link definitions must be unchanged.
"""
import re

import block_units
import common
import export
import gen_docs
import impl
import scan_units

ID = 'C04'
EXTRA_MODULES = ['Mistletoe.Proofs.Wrap', 'Mistletoe.Proofs.WrapIndent', 'Mistletoe.Proofs.DocLevel']
RULE = ('texts without tabs that do not end in a blank line (spec examples, mutations, splices, random documents, random '
        'strings); quote markers "> " and ">" (the latter only when no line starts with a space); list markers +, -, *, N., '
        'N) with padding 1-4, on texts that start with a non-space character and whose blank lines are empty, excluding '
        'first lines that make the marked line a thematic break. Distinct by (text, marker); non-trivial when the text has '
        '>= 2 lines')
TRUSTED = ['the exporter (harness/export.py) as canonical AST observation']
ASSUMPTIONS = ['list half: whitespace-only lines of the text are empty (a line with fewer columns than the marker width '
               'loses them inside an item, as the specification says)']
PARTIAL = ['the block-phase theorems are lifted to the token tree Document(lines) returns (Props/C04_Document.lean: one Quote / one '
           'single-item List whose children are the children of the document of the text, same line numbers, same definitions) under '
           'the same hypotheses',
           'quote half: "content is exactly B" carries the hypothesis that the parse of the text does not depend on '
           'Paragraph.parse_setext (false exactly for the recorded finding setext-in-quote)',
           'list half (_partial; general form in Props/C04_General.lean: marker at indentation 0-3, whitespace-only lines allowed): '
           'the first character after the own indentation of a continuation line is not whitespace in the sense of str.isspace '
           '(the recorded finding unicode-whitespace-edge); the item content is the parse of the text with its spaces-only lines '
           'read as "\\n" - exactly B when the text has no such line (C04_item_phase_general_h2_partial); every remaining '
           'hypothesis has a kernel-checked counterexample reproduced on the code (Proofs/WrapIndent.lean)']

THEMATIC = re.compile(r'^ {0,3}(?:([-_*])[ \t]*)(?:\1[ \t]*){2,}$')
SETEXT_UL = re.compile(r'^ {0,3}(=+|-+) *$')


def strip_ln(j):
    if isinstance(j, dict):
        return {k: strip_ln(v) for k, v in j.items() if k != 'ln'}
    if isinstance(j, list):
        return [strip_ln(x) for x in j]
    return j


def ast(text):
    doc = impl.parse_only('HtmlRenderer', {}, text)
    j = export.export_doc(doc, check_parent=False)
    return strip_ln(j['kids']), j['footnotes'], doc


def admissible(text):
    if '\t' in text or text == '' or text.endswith('\n\n') or text.strip() == '':
        return False
    if text.splitlines()[-1].strip() == '':
        return False
    return all(c == '\n' or len(('a' + c + 'b').splitlines()) == 1 for c in text)


def embed_quote(text, marker):
    lines = text.split('\n')
    if lines and lines[-1] == '':
        lines = lines[:-1]
    return '\n'.join(marker + l for l in lines) + '\n'


def embed_list(text, marker):
    lines = text.split('\n')
    if lines and lines[-1] == '':
        lines = lines[:-1]
    w = len(marker)
    return '\n'.join((marker + l) if i == 0 else ((' ' * w + l) if l != '' else '') for i, l in enumerate(lines)) + '\n'


def has_setext(doc):
    def rec(t):
        if type(t).__name__ == 'SetextHeading':
            return True
        return any(rec(c) for c in (t.children or []) if hasattr(c, 'children'))
    return rec(doc)


def setext_candidate(text):
    """The class of the recorded finding: the text has a line that could be a setext underline - at a place where the pinned
    Quote.read has setext headings switched off.  Quote.read switches them off for its content and ON again (unconditionally)
    when it returns, so inside the wrapping quote they are off only until the first block quote of the text itself has been
    read: an underline that comes after a quoted line of the text is recognised by the pinned code and is NOT this finding."""
    ls = text.split('\n')
    seen_quote = False
    for prev, l in zip(ls, ls[1:]):
        if QUOTE_LINE.match(prev):
            seen_quote = True
        if not seen_quote and SETEXT_UL.match(l.lstrip('> ')):
            return True
    return False


QUOTE_LINE = re.compile(r'^ {0,3}>')


def check_witness(w):
    text, kind, marker = w['text'], w['kind'], w['marker']
    try:
        base, fn, doc = ast(text)
        emb = embed_quote(text, marker) if kind == 'quote' else embed_list(text, marker)
        got, fn2, _ = ast(emb)
    except Exception as e:
        return False, 'raised %s (C01)' % type(e).__name__
    if fn != fn2:
        return True, 'link definitions changed by %s-embedding with %r: %r vs %r; text %r' % (kind, marker, fn, fn2, text)
    if kind == 'quote':
        if len(got) != 1 or got[0].get('t') != 'Quote' or got[0]['kids'] != base:
            return True, 'quoting with %r does not wrap the parse: text %r parses to %r, quoted text %r parses to %r' % (
                marker, text, summary(base), emb, summary(got))
    else:
        ok = (len(got) == 1 and got[0].get('t') == 'List' and len(got[0]['items']) == 1
              and got[0]['items'][0]['kids'] == base)
        if not ok:
            return True, 'list-indenting with %r does not wrap the parse: text %r parses to %r, embedded text %r parses to %r' % (
                marker, text, summary(base), emb, summary(got))
    return False, 'ok'


def summary(kids, depth=0):
    out = []
    for k in kids:
        name = k.get('t')
        sub = k.get('kids') or k.get('items') or []
        if sub and isinstance(sub[0], dict) and sub[0].get('t') in ('Paragraph', 'Quote', 'List', 'ListItem', 'Heading', 'SetextHeading',
                                                                      'BlockCode', 'CodeFence', 'Table', 'ThematicBreak', 'HtmlBlock'):
            out.append('%s(%s)' % (name, summary(sub, depth + 1)))
        else:
            out.append(name)
    return ' '.join(out)


def unicode_ws_edge(text):
    """Class of the recorded finding: some line begins or ends (spaces aside) with a whitespace character
    other than space, which Python's strip()/\\s treat as blank but the specification as text."""
    for l in text.split('\n'):
        t = l.strip(' ')
        if t and ((t[0].isspace() and t[0] != ' ') or (t[-1].isspace() and t[-1] != ' ')):
            return True
    return False


def matches_known(v, finding):
    w = v['witness']
    if finding.get('class') == 'setext-in-quote':
        return w.get('kind') == 'quote' and setext_candidate(w['text'])
    if finding.get('class') == 'unicode-whitespace-edge':
        return unicode_ws_edge(w['text'])
    return False


def finding_still_fails(finding):
    return check_witness(finding['witness'])[0]


QUOTE_MARKERS = ['> ', '>']
LIST_MARKERS = [b + ' ' * p for b in ['+', '-', '*', '1.', '7)', '10.', '123456789)'] for p in (1, 2, 3, 4)]


def cases_for(text, rng, all_markers=False):
    out = []
    if not admissible(text):
        return out
    lines = text.split('\n')
    for m in QUOTE_MARKERS:
        if m == '>' and any(l.startswith(' ') for l in lines):
            continue
        out.append({'text': text, 'kind': 'quote', 'marker': m})
    if not text[0].isspace() and all(l == '' or l.strip() != '' for l in lines):
        ms = LIST_MARKERS if all_markers else rng.sample(LIST_MARKERS, 3)
        for m in ms:
            first = m + lines[0]
            if THEMATIC.match(first) or first.strip() in ('-', '+', '*'):
                continue
            out.append({'text': text, 'kind': 'list', 'marker': m})
    return out


def _cases(ctx):
    rng = ctx.rng('cases')
    texts = [t.replace('\t', ' ') for t in gen_docs.corpus_stream(rng, ctx.budget(1500, 20000))]
    # a block quote of the text's own followed by a setext heading: the pinned Quote.read leaves setext headings switched ON
    # after a nested quote, so inside the wrapping quote these headings ARE recognised (unlike those of the recorded finding)
    texts += ['> a quote\n\nTitle\n=====', '> q\n\nT\n---', '> a\n> b\n\nx\n\nH\n==', '> > deep\n\nT\n=\n\npara', '> q\nlazy\n\nHead\n----\n\n> r\n\nH2\n===',
              '- i\n\n> q\n\nT\n=']
    texts += ['```\nif x:\n   \n    y()\n```', '***', '___', '--', '* *', 'a\n\n    b', '[foo]: /url\n\n[foo]', '- a\n- b', '> q\nlazy',
              '| a |\n|---|\n| b |', '<div>\nx\n</div>', '# h', 'a  \nb', '1. x\n\n   y']
    cases = []
    for t in texts:
        cases += cases_for(t, rng, all_markers=ctx.thorough)
    return cases


def embed(c):
    return embed_quote(c['text'], c['marker']) if c['kind'] == 'quote' else embed_list(c['text'], c['marker'])


def units(ctx):
    scan_units.run(ctx)
    cases = _cases(ctx)
    rng = ctx.rng('units')
    rng.shuffle(cases)
    texts = []
    for c in cases[:ctx.budget(1200, 12000)]:
        texts.append(c['text'])
        texts.append(embed(c))
    block_units.run(ctx, texts, sets=block_units.TOKEN_SETS[:2])


def explore(ctx, seeds):
    cases = _cases(ctx)
    if ctx.scale > 1:
        rng = ctx.rng('deep')
        for t in gen_docs.corpus_stream(rng, 4000 * ctx.scale):
            cases += cases_for(t.replace('\t', ' '), rng)
    reported = set()
    for c in cases:
        ctx.explored_case(c, kind=c['kind'] + ':' + c['marker'].strip(), nontrivial=c['text'].count('\n') >= 1)
        fails, detail = check_witness(c)
        if fails:
            cls = 'setext' if (c['kind'] == 'quote' and setext_candidate(c['text'])) else ('uws' if unicode_ws_edge(c['text']) else c['kind'])
            if cls in reported and len(ctx.violations) >= 4:
                continue
            reported.add(cls)
            ctx.violation(detail, c)
            if len(ctx.violations) >= 10:
                break
    ctx.sample(cases[0])
