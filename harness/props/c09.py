"""
C09 — Markdown round trip: same meaning, idempotent, exact on normal form.

Exploration on the implementation: for generated documents (harness/gen_tree.py, restricted to the
property's domain) and the 652 spec examples, with normalize_whitespace in {False, True}:
  (1) HtmlRenderer(md(text)) == HtmlRenderer(text) and the link definitions are identical;
  (2) md(md(text)) == md(text) byte for byte (the renderer's output is its own normal form, and a
      document in normal form is reproduced exactly).
"""
import random

import common
import gen_docs
import gen_tree
import impl

ID = 'C09'
LEVEL = 'exploration'
RULE = ('documents from the tree generator (every block and inline construct, canonical and non-canonical spellings, nesting '
        'to depth 4; no character references, no escapes in destinations/titles, continuation lines indented < 4) and the 652 '
        'spec examples, x normalize_whitespace in {False, True}. Distinct by (document, option); non-trivial when the '
        'document has a container or a link')
TRUSTED = ['meaning is compared as HtmlRenderer output plus Document.footnotes of the two texts']
ASSUMPTIONS = ['the generated domain excludes the input classes the property records as known findings; on the spec corpus '
               'the failing examples are listed individually in known_findings.json']
PARTIAL = ['interim level: exploration. The Lean theorems over the Markdown renderer and parser models are the planned upgrade']


def md(text, nw):
    return impl.parse_render('MarkdownRenderer', {'normalize_whitespace': nw}, text)[1]


def meaning(text):
    doc, out = impl.parse_render('HtmlRenderer', {}, text)
    return out, dict(doc.footnotes)


def gen(seed, nblocks=None):
    return gen_tree.generate(random.Random(seed), gen_tree.Opts(charrefs=False), nblocks)


def text_of(w):
    if 'example' in w:
        return [e for e in gen_docs.spec_examples() if e['example'] == w['example']][0]['markdown']
    if 'text' in w:
        return w['text']
    return gen(w['seed'], w.get('nblocks'))[1]


def problem(text, nw):
    """(clause, detail) or None"""
    try:
        m = md(text, nw)
        h1, f1 = meaning(text)
        h2, f2 = meaning(m)
    except Exception as e:
        return ('raises', 'raised %s: %s' % (type(e).__name__, e))
    if h1 != h2 or f1 != f2:
        return ('meaning', 'rendered back to Markdown the document means something else: %r -> %r; html %r vs %r; definitions %r vs %r' % (
            text, m, h1[:300], h2[:300], f1, f2))
    try:
        m2 = md(m, nw)
    except Exception as e:
        return ('raises', 'second rendering raised %s' % type(e).__name__)
    if m2 != m:
        return ('idempotent', 'rendering the rendered text again changes it: %r -> %r -> %r' % (text, m, m2))
    return None


def check_witness(w):
    text = text_of(w)
    for nw in ([w['nw']] if 'nw' in w else (False, True)):
        p = problem(text, nw)
        if p:
            return True, '[%s, normalize_whitespace=%r] %s' % (p[0], nw, p[1])
    return False, 'ok'


def matches_known(v, finding):
    w = v['witness']
    if finding.get('class') == 'spec-examples' and 'example' in w:
        return w['example'] in finding['examples']
    return False


def finding_still_fails(finding):
    if finding.get('class') == 'spec-examples':
        return any(check_witness({'example': n})[0] for n in finding['examples'])
    return check_witness(finding['witness'])[0]


def units(ctx):
    pass


def explore(ctx, seeds):
    cases = [{'example': e['example']} for e in gen_docs.spec_examples()]
    base = ctx.seed * 1000003 + 29
    n = ctx.budget(1500, 25000)
    cases += [{'seed': base + i, 'nblocks': None if i % 3 else 1 + i % 2} for i in range(n)]
    if ctx.scale > 1:
        cases += [{'seed': base + n + i} for i in range(3000 * ctx.scale)]
    spec_fail = []
    for c in cases:
        ctx.explored_case(c, kind='spec' if 'example' in c else 'generated')
        fails, detail = check_witness(c)
        if fails:
            if 'example' in c:
                spec_fail.append(c['example'])
            ctx.violation(detail, c)
            if len([v for v in ctx.violations if 'example' not in v['witness']]) >= 8:
                break
    ctx.notes.append('spec examples failing a clause: %r' % spec_fail)
    ctx.sample({'seed': base, 'document': text_of({'seed': base})})
