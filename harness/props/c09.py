"""
C09 — Markdown round trip: same meaning, idempotent, exact on normal form.

Theorems (lean/Mistletoe/Props/C09.lean; lemmas in Proofs/MdRound.lean, Proofs/MdRoundBlocks.lean) over the parser model
and the model of markdown_renderer.py (lean/Mistletoe/Model/Markdown.lean), all `_partial` (the fragment is a hypothesis):
  * `C09_prose_exact_partial` / `_text_partial` / `_markdown`: a document of inert prose paragraphs in the renderer's normal
    form separated by single empty lines is reproduced byte for byte by MarkdownRenderer(normalize_whitespace=either) for
    the token lists the working tree installs; `C09_prose_idempotent_partial`, `C09_prose_same_meaning_partial`;
  * `C09_quoted_prose_exact_partial` / `_markdown`: the same inside k nested block quotes (via C04);
  * `C09_blocks_exact_partial`, `C09_blocks_roundtrip_markdown`: prose paragraphs, ATX headings and thematic breaks inside k
    nested block quotes: exact reproduction, idempotence, same document / same HTML / same definitions as the original;
  * Props/C09_Code.lean (`C09_code_blocks_roundtrip_partial`): the same with fenced and indented code blocks in normal form;
  * Props/C09_Lists.lean (`C09_lists_roundtrip_partial`): the same with bullet and ordered lists (tight or loose, nested to any
    depth, padding 1-4) in normal form.
Units (correspondence of the Markdown renderer MODEL with markdown_renderer.py, byte for byte): `md.render` on all 652 spec
examples under four option sets, `md.render.gen` on generated documents, `md.render.tree` on parsed trees with perturbed
attributes (the renderer as a function on trees, beyond what the parser produces); `c09.theorem`: random documents of the
fragment go to the second driver (lean/PropsMain.lean, op c09.fragment), which evaluates the theorem's hypotheses and writes
the text; wherever they hold the REAL renderer must reproduce the text byte for byte under both values of
normalize_whitespace and the real HtmlRenderer output and definitions of the rendered text must equal the original's.
Exploration on the implementation (everything outside the fragment): for generated documents (harness/gen_tree.py,
restricted to the property's domain) and the 652 spec examples, with normalize_whitespace in {False, True}:
  (1) HtmlRenderer(md(text)) == HtmlRenderer(text) and the link definitions are identical;
  (2) md(md(text)) == md(text) byte for byte (the renderer's output is its own normal form, and a
      document in normal form is reproduced exactly).
"""
import random

import common
import gen_docs
import gen_tree
import impl
import md_units

ID = 'C09'
EXTRA_MODULES = ['Mistletoe.Proofs.MdRound', 'Mistletoe.Proofs.MdRoundBlocks', 'Mistletoe.Proofs.MdRoundCode', 'Mistletoe.Proofs.MdRoundLists2', 'Mistletoe.Proofs.MdRoundSetext', 'Mistletoe.Proofs.MdRoundEmph', 'propsdriver']
RULE = ('documents from the tree generator (every block and inline construct, canonical and non-canonical spellings, nesting '
        'to depth 4; no character references, no escapes in destinations/titles, continuation lines indented < 4) and the 652 '
        'spec examples, x normalize_whitespace in {False, True}. Distinct by (document, option); non-trivial when the '
        'document has a container or a link')
TRUSTED = ['meaning is compared as HtmlRenderer output plus Document.footnotes of the two texts']
ASSUMPTIONS = ['the generated domain excludes the input classes the property records as known findings; on the spec corpus '
               'the failing examples are listed individually in known_findings.json']
PARTIAL = ['proved for the fragment: inert prose paragraphs, ATX headings `#..# text`, thematic breaks, fenced and indented code blocks, bullet and ordered lists in the renderer\'s normal form, '
           'setext headings (top level) and HTML blocks of start condition 6 / 7 (Props/C09_Setext.lean), one-line paragraphs with '
           'emphasis / strong emphasis / backslash escapes of the C06 alphabet (Props/C09_Emph.lean), '
           'separated by single empty lines, inside any number of block quotes, no line limit (exact reproduction, idempotence, same '
           'meaning). Every other construct of the property (tables, lists outside the normal form, HTML blocks of the other kinds, link '
           'definitions, the inline constructs other than text, soft breaks, emphasis, strong emphasis and escapes) and every document NOT in normal form (clause 1 '
           'and 2 on arbitrary spellings) is decided by the round-trip exploration on the implementation; the Markdown renderer '
           'model itself is tied to the code on all of those by the md.render units']


def md(text, nw):
    return impl.parse_render('MarkdownRenderer', {'normalize_whitespace': nw}, text)[1]


def meaning(text):
    doc, out = impl.parse_render('HtmlRenderer', {}, text)
    return out, dict(doc.footnotes)


def gen(seed, nblocks=None):
    return gen_tree.generate(random.Random(seed), gen_tree.Opts(charrefs=False), nblocks)


def text_of(w):
    if 'example' in w:
        return [e for e in gen_docs.spec_examples() if e['example'] == w['example']][0]['markdown']
    if 'text' in w:
        return w['text']
    return gen(w['seed'], w.get('nblocks'))[1]


def problem(text, nw):
    """(clause, detail) or None"""
    try:
        m = md(text, nw)
        h1, f1 = meaning(text)
        h2, f2 = meaning(m)
    except Exception as e:
        return ('raises', 'raised %s: %s' % (type(e).__name__, e))
    if h1 != h2 or f1 != f2:
        return ('meaning', 'rendered back to Markdown the document means something else: %r -> %r; html %r vs %r; definitions %r vs %r' % (
            text, m, h1[:300], h2[:300], f1, f2))
    try:
        m2 = md(m, nw)
    except Exception as e:
        return ('raises', 'second rendering raised %s' % type(e).__name__)
    if m2 != m:
        return ('idempotent', 'rendering the rendered text again changes it: %r -> %r -> %r' % (text, m, m2))
    return None


def check_witness(w):
    text = text_of(w)
    for nw in ([w['nw']] if 'nw' in w else (False, True)):
        p = problem(text, nw)
        if p:
            return True, '[%s, normalize_whitespace=%r] %s' % (p[0], nw, p[1])
    return False, 'ok'


def matches_known(v, finding):
    w = v['witness']
    if finding.get('class') == 'spec-examples' and 'example' in w:
        return w['example'] in finding['examples']
    return False


def finding_still_fails(finding):
    if finding.get('class') == 'spec-examples':
        return any(check_witness({'example': n})[0] for n in finding['examples'])
    return check_witness(finding['witness'])[0]



FRAG_WORDS = ['alpha', 'beta', 'a_b_c', 'snake_case', '*', 'x * y', '3.14)', 'a | b', 'c#', '1986.', '2)x', 'AT&T', '& co', '[open',
              'end.', '(see p. 3)', 'é', 'naïve', '“q”', '+1', '-x', '= y', '~', 'a<b', '< 3', 'user@', '$5', '50%', 'x^2', 'v1.2.3', "don't",
              'say "hi"', 'a;b', 'k=v&w=z', '*foo', '_bar', '日本', 'x_', '#tag', '!', '![', 'R&D']


def frag_line(rng, heading=False):
    words = [rng.choice(FRAG_WORDS) for _ in range(rng.randint(1, 6))]
    if not words[0][0].isalnum():
        words.insert(0, rng.choice(['alpha', 'beta', 'Zed']))
    if heading:
        words = [w for w in words if '#' not in w] or ['Title']
    return ' '.join(words)


def frag_block(rng):
    r = rng.random()
    if r < 0.55:
        return {'k': 'para', 'lines': [frag_line(rng) + '\n' for _ in range(rng.randint(1, 3))]}
    if r < 0.8:
        return {'k': 'heading', 'level': rng.randint(1, 6), 'text': frag_line(rng, heading=True)}
    return {'k': 'hr', 'c': rng.choice('*-_')}


CODE_LINES = ['x = 1\n', '\n', '# not a heading\n', '    indented\n', '> q\n', '- item\n', '*a*\n', '```\n', '~~~\n', '  ````\n', 'a\tb\n', '   \n',
              '[x]: /y\n', 'ü é\n', '<div>\n', '````\n']


def frag_block2(rng):
    r = rng.random()
    if r < 0.4:
        return frag_block(rng)
    if r < 0.8:
        ch = rng.choice('`~')
        return {'k': 'fence', 'delim': ch * rng.randint(3, 5), 'info': rng.choice(['', '', 'py', ' sh x=1', 'a b  ', '~x', 'c`d']),
                'body': [rng.choice(CODE_LINES) for _ in range(rng.randint(0, 4))]}
    return {'k': 'icode', 'lines': ['    ' + rng.choice(['code', '  deeper', 'x = 1', '[a]: /b', '# h', '- i']) + '\n' for _ in range(rng.randint(1, 3))]}


def units(ctx):
    import gen_docs as gd
    spec = [e['markdown'] for e in gd.spec_examples()]
    md_units.run(ctx, spec, unit='md.render', every_opt=True)
    texts = [gen(ctx.seed * 7919 + i)[1] for i in range(ctx.budget(1500, 15000))]
    md_units.run(ctx, texts, unit='md.render.gen')
    md_units.run_trees(ctx, texts[:ctx.budget(600, 6000)] + spec, ctx.rng('trees'))
    # the theorem against the implementation
    rng = ctx.rng('fragment')
    docs = [{'op': 'c09.fragment', 'blocks': [frag_block(rng) for _ in range(rng.randint(1, 5))], 'depth': rng.choice([0, 0, 1, 1, 2, 3])}
            for _ in range(ctx.budget(1500, 15000))]
    res = common.driver_batch(docs, binary=common.PROPS_DRIVER)
    n_ok = 0
    for i, (d, r) in enumerate(zip(docs, res)):
        if not (isinstance(r, dict) and r.get('ok')):
            continue
        n_ok += 1
        text = r['text']
        nw = bool(i % 2)
        try:
            out = md(text, nw)
            real = {'md': out, 'same_meaning': meaning(out) == meaning(text)}
        except Exception as e:
            real = {'raises': type(e).__name__}
        ctx.compare('c09.theorem', {'text': text, 'normalize_whitespace': nw}, {'md': text, 'same_meaning': True}, real,
                    kind='depth%d' % d['depth'])
    ctx.notes.append('of %d generated documents of the fragment %d satisfy the hypotheses of C09_blocks_roundtrip_markdown' % (len(docs), n_ok))
    # the fragment with code blocks (Props/C09_Code.lean)
    docs = [{'op': 'c09.fragment2', 'blocks': [frag_block2(rng) for _ in range(rng.randint(1, 4))], 'depth': rng.choice([0, 0, 0, 1, 2])}
            for _ in range(ctx.budget(2500, 25000))]
    res = common.driver_batch(docs, binary=common.PROPS_DRIVER)
    n_ok = 0
    for i, (d, r) in enumerate(zip(docs, res)):
        if not (isinstance(r, dict) and r.get('ok')):
            continue
        n_ok += 1
        text = r['text']
        nw = bool(i % 2)
        try:
            out = md(text, nw)
            real = {'md': out, 'same_meaning': meaning(out) == meaning(text)}
        except Exception as e:
            real = {'raises': type(e).__name__}
        ctx.compare('c09.theorem.code', {'text': text, 'normalize_whitespace': nw}, {'md': text, 'same_meaning': True}, real,
                    kind='depth%d' % d['depth'])
    ctx.notes.append('of %d generated documents with code blocks %d satisfy the hypotheses of C09_code_blocks_roundtrip_partial' % (len(docs), n_ok))
    # the fragment with setext headings and HTML blocks (Props/C09_Setext.lean)
    def block3():
        r = rng.random()
        if r < 0.3:
            c = rng.choice('=-')
            return {'k': 'setext', 'lines': [frag_line(rng) + '\n' for _ in range(rng.randint(1, 2))], 'ind': rng.choice([0, 0, 1, 3]), 'c': c,
                    'len': rng.choice([1, 2, 3, 5, 9])}
        if r < 0.55:
            first = rng.choice(['<div>', '<div class="x">', '</div>', '  <table>', '<p', '<my-tag a="1">', '</span>', '<DIV>', '<section id=\'a\'>', '<hr/>'])
            body = [rng.choice(['*not em*', '# not a heading', '- li', '    indented', 'text <b>x</b>', '</div>', '`c`', '[a]: /b'])
                    for _ in range(rng.randint(0, 3))]
            return {'k': 'html', 'lines': [first + '\n'] + [l + '\n' for l in body]}
        return frag_block2(rng)
    docs = [{'op': 'c09.fragment3', 'blocks': [block3() for _ in range(rng.randint(1, 4))], 'depth': rng.choice([0, 0, 0, 1, 2])}
            for _ in range(ctx.budget(2000, 20000))]
    res = common.driver_batch(docs, binary=common.PROPS_DRIVER)
    n_ok = n_sx = n_html = 0
    for i, (d, r) in enumerate(zip(docs, res)):
        if not (isinstance(r, dict) and r.get('ok')):
            continue
        n_ok += 1
        n_sx += any(b['k'] == 'setext' for b in d['blocks'])
        n_html += any(b['k'] == 'html' for b in d['blocks'])
        text = r['text']
        nw = bool(i % 2)
        try:
            out = md(text, nw)
            real = {'md': out, 'same_meaning': meaning(out) == meaning(text)}
        except Exception as e:
            real = {'raises': type(e).__name__}
        ctx.compare('c09.theorem.setext', {'text': text, 'normalize_whitespace': nw}, {'md': text, 'same_meaning': True}, real,
                    kind='depth%d' % d['depth'])
    ctx.notes.append('of %d generated documents with setext headings / HTML blocks %d satisfy the hypotheses of C09_setext_roundtrip_partial / '
                     'C09_quoted_html_roundtrip_partial (%d with a setext heading, %d with an HTML block)' % (len(docs), n_ok, n_sx, n_html))
    # paragraphs with emphasis, strong emphasis and escapes (Props/C09_Emph.lean)
    EW = ['a', 'foo', 'b c', '*a*', '**b**', '_c_', '__d__', '***e***', '*a **b** c*', '_x *y* z_', 'foo*bar*baz', 'snake_case', '2*3', '\\*', '\\_', '\\\\',
          '*', '_', '**', 'x*', '*y', '"q"', "it's", 'é', '!', '(p)', 'a > b', '\\a', '*a', 'b*', '__', '*_a_*', '**a*', '_a*b_*']
    def block4():
        if rng.random() < 0.55:
            return {'k': 'emph', 's': ' '.join(rng.choice(EW) for _ in range(rng.randint(1, 6)))}
        return frag_block2(rng)
    docs = [{'op': 'c09.emph', 'blocks': [block4() for _ in range(rng.randint(1, 4))], 'depth': rng.choice([0, 0, 0, 1, 2])}
            for _ in range(ctx.budget(2000, 20000))]
    res = common.driver_batch(docs, binary=common.PROPS_DRIVER)
    n_ok = n_em = 0
    for i, (d, r) in enumerate(zip(docs, res)):
        if not (isinstance(r, dict) and r.get('ok')):
            continue
        n_ok += 1
        n_em += any(b['k'] == 'emph' and any(c in b['s'] for c in '*_\\') for b in d['blocks'])
        text = r['text']
        nw = bool(i % 2)
        try:
            out = md(text, nw)
            real = {'md': out, 'same_meaning': meaning(out) == meaning(text)}
        except Exception as e:
            real = {'raises': type(e).__name__}
        ctx.compare('c09.theorem.emph', {'text': text, 'normalize_whitespace': nw}, {'md': text, 'same_meaning': True}, real,
                    kind='depth%d' % d['depth'])
    ctx.notes.append('of %d generated documents with inline markup %d satisfy the hypotheses of C09_emphasis_blocks_roundtrip_partial '
                     '(%d with a delimiter run or an escape)' % (len(docs), n_ok, n_em))
    # the fragment with lists (Props/C09_Lists.lean)
    def mb(depth):
        r = rng.random()
        if r < 0.5 or depth >= 3:
            return frag_block(rng)
        ordered = rng.random() < 0.4
        loose = rng.random() < 0.5
        n = rng.randint(1, 3)
        items = [[mb(depth + 1) if (i or rng.random() < 0.2) else {'k': 'para', 'lines': [frag_line(rng) + '\n' for _ in range(rng.randint(1, 2))]}
                  for i in range(rng.randint(1, 3) if loose else 1)] for _ in range(n)]
        return {'k': 'list', 'ordered': ordered, 'start': rng.choice([1, 1, 2, 9, 10, 0]) if ordered else 0,
                'marker': rng.choice('.)') if ordered else rng.choice('-+*'), 'pad': rng.choice([1, 1, 2, 3, 4]), 'loose': loose, 'items': items}
    def fix_siblings(ts):
        # two lists in a row are one list unless their marker types differ: keep most generated forests inside the normal form
        out = []
        for t in ts:
            if t['k'] == 'list':
                t['items'] = [fix_siblings(it) for it in t['items']]
                if out and out[-1]['k'] == 'list' and (out[-1]['ordered'] == t['ordered']) and (t['ordered'] or out[-1]['marker'] == t['marker']):
                    t = {'k': 'para', 'lines': [frag_line(rng) + '\n']}
            out.append(t)
        return out
    docs = []
    for i in range(ctx.budget(2500, 25000)):
        nw = bool(i % 2)
        forest = fix_siblings([mb(0) for _ in range(rng.randint(1, 4))])
        if nw and rng.random() < 0.8:
            def pad1(ts):
                for t in ts:
                    if t['k'] == 'list':
                        t['pad'] = 1
                        for it in t['items']:
                            pad1(it)
            pad1(forest)
        docs.append({'op': 'c09.lists', 'forest': forest, 'depth': rng.choice([0, 0, 0, 1, 2]), 'nw': nw})
    res = common.driver_batch(docs, binary=common.PROPS_DRIVER)
    n_ok = n_list = 0
    for d, r in zip(docs, res):
        if not (isinstance(r, dict) and r.get('ok')):
            continue
        n_ok += 1
        n_list += any(t['k'] == 'list' for t in d['forest'])
        text = r['text']
        try:
            out = md(text, d['nw'])
            real = {'md': out, 'same_meaning': meaning(out) == meaning(text)}
        except Exception as e:
            real = {'raises': type(e).__name__}
        ctx.compare('c09.theorem.lists', {'text': text, 'normalize_whitespace': d['nw']}, {'md': text, 'same_meaning': True}, real,
                    kind='depth%d,nw=%s' % (d['depth'], d['nw']))
    ctx.notes.append('of %d generated documents with lists %d satisfy the hypotheses of C09_lists_roundtrip_partial (%d contain a list)' % (len(docs), n_ok, n_list))



def explore(ctx, seeds):
    cases = [{'example': e['example']} for e in gen_docs.spec_examples()]
    base = ctx.seed * 1000003 + 29
    n = ctx.budget(1500, 25000)
    cases += [{'seed': base + i, 'nblocks': None if i % 3 else 1 + i % 2} for i in range(n)]
    if ctx.scale > 1:
        cases += [{'seed': base + n + i} for i in range(3000 * ctx.scale)]
    spec_fail = []
    for c in cases:
        ctx.explored_case(c, kind='spec' if 'example' in c else 'generated')
        fails, detail = check_witness(c)
        if fails:
            if 'example' in c:
                spec_fail.append(c['example'])
            ctx.violation(detail, c)
            if len([v for v in ctx.violations if 'example' not in v['witness']]) >= 8:
                break
    ctx.notes.append('spec examples failing a clause: %r' % spec_fail)
    ctx.sample({'seed': base, 'document': text_of({'seed': base})})
