"""
C10 — reflowing to a maximum line length preserves meaning and honours the limit.

Units: `md.words`, `md.fill`, `md.prefix`, `md.budget` — the real classmethods
MarkdownRenderer.make_words / fragments_to_lines / prefix_lines and the child-budget expressions of
render_quote / render_list_item against the Lean model (Model/Wrap.lean), on generated fragment lists,
all L in 1..120 plus None/0/negative.
Theorems: Props/C10.lean (the fill loop on arbitrary fragment lists: bound, order and content of words, budgets) and
Props/C10_Reflow.lean (lemmas in Proofs/Reflow.lean): for documents of plain-word prose paragraphs the clauses are carried
through Document(text) and MarkdownRenderer(max_line_length=L).render - the output is the greedy re-fill of the same words,
long lines have no breakable space, the HTML is the same up to the position of soft breaks, reflowing again changes nothing.
Unit `c10.theorem`: random plain-word documents and L go to the second driver (op c10.reflow), which evaluates the hypothesis
and the text the theorem concludes; wherever it holds the REAL renderer must return exactly that text, and the real
HtmlRenderer output of both texts must agree once "\n" is replaced by a space.
Exploration on the implementation: the four clauses of the property on generated prose documents
nested in quotes and lists, for L in 1..120.
"""
import re

import common
import gen_docs
import impl
from common import driver_batch

ID = 'C10'
EXTRA_MODULES = ['Mistletoe.Proofs.Reflow', 'Mistletoe.Proofs.ReflowQuote', 'Mistletoe.Proofs.ReflowList', 'Mistletoe.Proofs.NoRebreak', 'propsdriver']
RULE = ('fragment lists (word-wrappable text with all kinds of whitespace, glued fragments, hard breaks) x L in '
        '{None, 0, -3..120}; generated prose documents (plain words that cannot be mistaken for block markers; emphasis, '
        'strong, code spans with inner spaces, links with titles, images, hard breaks, link definitions, headings, code '
        'blocks, HTML blocks, tables) nested in quotes and lists to depth 4, x L from 1 to 120. Distinct by (document, L); '
        'non-trivial when the document has a paragraph of >= 4 words inside a container or L < 30')
TRUSTED = ['container prefixes of output lines are recognised by a regular expression over the generator\'s own vocabulary']
ASSUMPTIONS = ['prose words cannot be mistaken for block markers at the start of a line (the complementary class is the '
               'recorded finding named by the property)']
PARTIAL = ['meaning preservation, idempotence and the line bound on PARSED documents are proved for the plain-word prose fragment '
           '(paragraphs of words without inline markup, at top level and inside any number of block quotes; Props/C10_Reflow.lean) and '
           'for such paragraphs inside list items (bullet and ordered lists in normal form, padding 1-4, tight or loose, nested to any '
           'depth, also inside block quotes; budget max(L - 2k - w, 1) with w the width of the item prefixes; Props/C10_Lists.lean); '
           'the clause "code blocks, HTML blocks, tables and ATX headings are not re-broken" is proved for EVERY token tree, limit and option '
           'set (Props/C10_NoRebreak.lean; re-checked on the real renderer: c10.theorem.rigid); '
           'a list directly behind a paragraph inside an item, block quotes inside items, hard breaks and inline markup are explored on '
           'the implementation']

WORDS = ['alpha', 'beta', 'gamma', 'delta', 'words', 'wrap', 'here', 'is', 'a', 'an', 'of', 'line', 'text', 'longerword',
         'x', 'Quite', 'End', 'averyveryverylongwordthatdoesnotfit', 'é', 'naïve', 'two', 'three']


def inline(rng):
    w = lambda: rng.choice(WORDS)
    r = rng.random()
    if r < 0.55:
        return w()
    if r < 0.63:
        return '*%s %s*' % (w(), w())
    if r < 0.70:
        return '**%s**' % w()
    if r < 0.78:
        return '`%s %s`' % ('code', 'span')
    if r < 0.86:
        return '[%s %s](http://example.com/%s "%s %s")' % (w(), w(), w(), w(), w())
    if r < 0.90:
        return '![%s](img.png)' % w()
    if r < 0.94:
        return '[%s][ref]' % w()
    if r < 0.97:
        return w() + '  \n' + w()
    return w() + '\\\n' + w()


def paragraph(rng):
    parts = [inline(rng) for _ in range(rng.randint(1, 22))]
    out = ''
    for i, p in enumerate(parts):
        if i:
            out += '\n' if (rng.random() < 0.15 and not out.endswith('\n')) else ' '
        out += p
    return out.split('\n')


def block(rng, depth):
    r = rng.random()
    if depth < 4 and r < 0.14:
        inner = blocks(rng, depth + 1, rng.randint(1, 3))
        return ['> ' + l if l else '>' for l in inner]
    if depth < 4 and r < 0.30:
        marker = rng.choice(['- ', '* ', '+ ', '1. ', '7) '])
        out = []
        for _ in range(rng.randint(1, 3)):
            inner = blocks(rng, depth + 1, rng.randint(1, 2))
            pad = ' ' * len(marker)
            out += [marker + inner[0]] + [(pad + l) if l else '' for l in inner[1:]]
            if rng.random() < 0.4:
                out.append('')
        while out and out[-1] == '':
            out.pop()
        # 0-3 spaces before the list markers (the whole list moves with them); only for top-level lists: glued behind an outer
        # marker the extra spaces would change the outer item's content offset and turn its other blocks into indented code
        ind = ' ' * (rng.choice([0, 0, 0, 1, 2, 3]) if depth == 0 else 0)
        return [(ind + l) if l else '' for l in out]
    if r < 0.36:
        return ['#' * rng.randint(1, 4) + ' ' + ' '.join(rng.choice(WORDS) for _ in range(rng.randint(1, 9)))]
    if r < 0.40:
        return [' '.join(rng.choice(WORDS) for _ in range(rng.randint(1, 9))), rng.choice(['===', '---'])]
    if r < 0.45:
        return ['```', 'CODE line one that is long and must not be broken', '  CODE two', '```']
    if r < 0.48 and depth == 0:
        # indented code only at top level and fenced off by a thematic break, so that it cannot be read
        # as a continuation of a preceding list item
        return ['___', '', '    CODE indented block stays as it is whatever the limit']
    if r < 0.52:
        return ['<div class="x">', 'HTML block content that is not re-broken either', '</div>']
    if r < 0.57:
        return ['| head one | head two |', '| --- | :-: |', '| cell with several words | x |']
    if r < 0.60:
        return ['___']          # behind a '* ' marker '***' would read '* ***', one thematic break
    return paragraph(rng)


def blocks(rng, depth, n):
    out = []
    for i in range(n):
        if i:
            out.append('')
        out += block(rng, depth)
    return out


def document(rng):
    lines = blocks(rng, 0, rng.randint(1, 5))
    if rng.random() < 0.5:
        lines += ['', '[ref]: http://example.com/ref "%s %s %s"' % tuple(rng.choice(WORDS) for _ in range(3))]
    elif any('[ref]' in l for l in lines):
        lines += ['', '[ref]: /r']
    return '\n'.join(lines) + '\n'


def md(text, L):
    return impl.parse_render('MarkdownRenderer', {'max_line_length': L}, text)[1]


def html(text):
    return impl.parse_render('HtmlRenderer', {}, text)[1]


WS = re.compile(r'\s+')
PREFIX = re.compile(r'^(?:> ?|[-+*] +|\d+[.)] +| +)*')
PROTECTED = re.compile(r'^(#{1,6} |\||```|CODE|  CODE|<div|</div>|HTML block)')
CODESPAN = re.compile(r'`[^`]*`')


def norm_html(h):
    return WS.sub(' ', h).replace('> <', '><').strip()


def check_witness(w):
    text, L = w['text'], w['L']
    try:
        base_html = html(text)
        out = md(text, L)
    except Exception as e:
        return False, 'raised %s (C01)' % type(e).__name__
    # (1) same meaning up to the position of soft line breaks
    try:
        h2 = html(out)
    except Exception as e:
        return True, 'reflowed output does not parse (%s); L=%d input %r output %r' % (type(e).__name__, L, text, out)
    if norm_html(h2) != norm_html(base_html):
        return True, 'meaning changed at L=%d: input %r reflowed %r; html %r vs %r' % (L, text, out, norm_html(base_html)[:300], norm_html(h2)[:300])
    # (3) the limit
    in_fence = False
    for line in out.split('\n'):
        rest = line[PREFIX.match(line).end():]
        stripped = rest.strip()
        if stripped.startswith('```'):
            in_fence = not in_fence
            continue
        if in_fence or PROTECTED.match(rest) or PROTECTED.match(stripped) or 'CODE' in rest:
            continue
        if len(line) > L:
            body = CODESPAN.sub('C', rest).rstrip(' \\')
            if ' ' in body.strip():
                return True, 'line longer than L=%d still has a breakable space: %r; input %r' % (L, line, text)
    # (2) protected blocks are not re-broken
    plain = md(text, None)
    prot = lambda s: sorted(l[PREFIX.match(l).end():].strip() for l in s.split('\n')
                            if PROTECTED.match(l[PREFIX.match(l).end():].strip()))
    if prot(plain) != prot(out):
        return True, 'a code/HTML/table/ATX block was re-broken at L=%d: %r vs %r; input %r' % (L, prot(plain), prot(out), text)
    # (4) reflowing again changes nothing
    again = md(out, L)
    if again != out:
        return True, 'not idempotent at L=%d: input %r first %r second %r' % (L, text, out, again)
    return False, 'ok'


def matches_known(v, finding):
    return False


def finding_still_fails(finding):
    return check_witness(finding['witness'])[0]


# ---- units ------------------------------------------------------------------------------------------

PIECES = ['a', 'bb', 'word', ' ', '  ', '\t', '\n', ' \n ', '\x0b', '\x0c', '\x1c', '\xa0', ' ', ' ', 'x y', ' lead', 'trail ',
          '', 'averylongwordindeed', '*', '`c d`', '](', 'é']


def random_fragments(rng):
    frs = []
    for _ in range(rng.randint(0, 8)):
        r = rng.random()
        text = ''.join(rng.choice(PIECES) for _ in range(rng.randint(0, 5)))
        if r < 0.6:
            frs.append({'text': text, 'wordwrap': True})
        elif r < 0.75:
            frs.append({'text': rng.choice(['  ', '   ', '\\']) + '\n', 'wordwrap': False, 'hard_line_break': True})
        elif r < 0.85:
            frs.append({'text': rng.choice(['', ' ']) + '\n', 'wordwrap': True})       # soft break
        else:
            frs.append({'text': text.replace('\n', ' ') if rng.random() < 0.7 else text})
    return frs


def real_fragments(frs):
    from mistletoe.markdown_renderer import Fragment
    return [Fragment(f['text'], **{k: v for k, v in f.items() if k != 'text'}) for f in frs]


def units(ctx):
    rng = ctx.rng('units')
    from mistletoe.markdown_renderer import MarkdownRenderer as MR
    n = ctx.budget(3000, 40000)
    reqs, exp, meta = [], [], []
    for i in range(n):
        frs = random_fragments(rng)
        L = rng.choice([None, 0, -1, -3, 1, 2, 3] + list(range(1, 121)))
        reqs.append({'op': 'md.words', 'fragments': frs})
        exp.append(list(MR.make_words(real_fragments(frs))))
        meta.append(('md.words', {'fragments': frs}))
        reqs.append({'op': 'md.fill', 'fragments': frs, 'max_line_length': L})
        exp.append(list(MR.fragments_to_lines(real_fragments(frs), max_line_length=L)))
        meta.append(('md.fill', {'fragments': frs, 'L': L}))
        lines = [''.join(rng.choice(PIECES[:12]) for _ in range(rng.randint(0, 3))).replace('\n', '') for _ in range(rng.randint(0, 4))]
        first = rng.choice(['> ', '- ', '   ', '', ' ', '\t', '1. '])
        follow = rng.choice([None, '', '  ', '   ', '> '])
        reqs.append({'op': 'md.prefix', 'lines': lines, 'first': first, 'following': follow})
        exp.append(list(MR.prefix_lines(lines, first, follow)))
        meta.append(('md.prefix', {'lines': lines, 'first': first, 'following': follow}))
    # budgets: observe what render_quote / render_list_item hand down, by intercepting blocks_to_lines
    from mistletoe import Document
    seen = []
    for L in [None, 0, 1, 2, 3, 4, 5, 10, 40, 120]:
        for text, k in (('> a b\n', 2), ('- a b\n', 2), ('10. a b\n', 4), ('-    a b\n', 5), ('  - a b\n', 4), ('   7. a b\n', 6)):
            try:
                with MR(max_line_length=L) as r:
                    doc = Document(text)
                    calls = []
                    orig = r.blocks_to_lines

                    def spy(tokens, max_line_length, _orig=orig, _calls=calls):
                        _calls.append(max_line_length)
                        return _orig(tokens, max_line_length=max_line_length)
                    r.blocks_to_lines = spy
                    r.render(doc)
                    seen.append((L, k, calls[-1]))
            finally:
                impl.reset_library()
    for L, k, got in seen:
        reqs.append({'op': 'md.budget', 'max_line_length': L, 'k': k})
        exp.append(got)
        meta.append(('md.budget', {'L': L, 'k': k}))
    model = driver_batch(reqs)
    for (unit, case), e, m in zip(meta, exp, model):
        ctx.compare(unit, case, m, e)
    theorem_unit(ctx)
    theorem_unit_lists(ctx)
    theorem_unit_rigid(ctx)


TH_WORDS = WORDS + ['a.b', 'x1', 'q?', '(see', 'p.3)', 'isn\'t', 'k=v', '"quoted"', 'semi;colon', 'é', '日本', 'A', 'co-op', 'end.',
                    '1st', '-dash', '#tag', '*star', '_u', '>gt', '+plus', '[br', 'a*b', 'a_b', 'AT&T', 'x<y', '`tick', '~tilde', '|bar', ':colon']


def theorem_unit(ctx):
    rng = ctx.rng('theorem')
    reqs = []
    for _ in range(ctx.budget(1500, 15000)):
        vocab = TH_WORDS if rng.random() < 0.25 else TH_WORDS[:len(WORDS) + 14]      # a quarter of the documents may contain words outside the fragment
        paras = [[[rng.choice(vocab) for _ in range(rng.randint(1, 7))] for _ in range(rng.randint(1, 4))]
                 for _ in range(rng.randint(1, 3))]
        reqs.append({'op': 'c10.reflow', 'paras': paras, 'L': rng.choice([1, 2, 3, 5, 8, 10] + list(range(1, 81))),
                     'depth': rng.choice([0, 0, 1, 2, 3])})
    res = common.driver_batch(reqs, binary=common.PROPS_DRIVER)
    n_ok = 0
    for i, (q, r) in enumerate(zip(reqs, res)):
        if not (isinstance(r, dict) and r.get('ok')):
            continue
        n_ok += 1
        L, nw = q['L'], bool(i % 2)
        try:
            out = impl.parse_render('MarkdownRenderer', {'max_line_length': L, 'normalize_whitespace': nw}, r['text'])[1]
            again = impl.parse_render('MarkdownRenderer', {'max_line_length': L, 'normalize_whitespace': nw}, out)[1]
            h0 = impl.parse_render('HtmlRenderer', {}, r['text'])[1]
            h1 = impl.parse_render('HtmlRenderer', {}, out)[1]
            real = {'md': out, 'idempotent': again == out, 'same_html_up_to_breaks': h0.replace('\n', ' ') == h1.replace('\n', ' ')}
        except Exception as e:
            real = {'raises': type(e).__name__}
        ctx.compare('c10.theorem', {'text': r['text'], 'L': L, 'normalize_whitespace': nw},
                    {'md': r['expected'], 'idempotent': True, 'same_html_up_to_breaks': True}, real, kind=('L<=10' if L <= 10 else 'L>10') + ',depth%d' % q['depth'])
    ctx.notes.append('of %d generated plain-word documents %d satisfy the hypothesis of C10_prose_reflow_markdown_partial / C10_quoted_reflow_partial' % (len(reqs), n_ok))


def _pt_tree(rng, vocab, depth):
    """a tree of the fragment of Props/C10_Lists.lean: plain-word paragraphs and lists in the renderer's normal form"""
    if depth >= 3 or rng.random() < 0.45:
        return {'k': 'para', 'lines': [[rng.choice(vocab) for _ in range(rng.randint(1, 7))] for _ in range(rng.randint(1, 3))]}
    ordered = rng.random() < 0.4
    loose = rng.random() < 0.5
    n = rng.randint(1, 3)
    if loose:
        items = [_pt_siblings(rng, vocab, depth + 1) for _ in range(n)]
        if n == 1 and len(items[0]) == 1:
            items[0].append(_pt_tree(rng, vocab, 9))
    else:
        items = [[_pt_tree(rng, vocab, 9)] for _ in range(n)]
    return {'k': 'list', 'ordered': ordered, 'start': rng.choice([1, 1, 2, 9, 10, 99]) if ordered else 0,
            'marker': rng.choice('.)') if ordered else rng.choice('-+*'), 'pad': rng.choice([1, 1, 1, 2, 3, 4]), 'loose': loose, 'items': items}


def _pt_siblings(rng, vocab, depth):
    out = [_pt_tree(rng, vocab, 9)]          # an item (and the document) begins with a paragraph
    for _ in range(rng.randint(0, 2)):
        t = _pt_tree(rng, vocab, depth)
        if out[-1]['k'] == 'list' and t['k'] == 'list':
            t = _pt_tree(rng, vocab, 9)
        out.append(t)
    return out


def _pad1(t):
    if t['k'] == 'list':
        t['pad'] = 1
        for it in t['items']:
            for k in it:
                _pad1(k)


def theorem_unit_lists(ctx):
    """`C10_list_reflow_quoted_partial` and its meaning / idempotence companions on the real renderer: plain-word paragraphs
    inside (nested) list items, at top level and inside k block quotes"""
    rng = ctx.rng('theorem-lists')
    reqs = []
    for i in range(ctx.budget(1200, 12000)):
        vocab = TH_WORDS if rng.random() < 0.2 else TH_WORDS[:len(WORDS) + 14]
        forest = _pt_siblings(rng, vocab, 0)
        if rng.random() < 0.5:
            forest = forest[1:] or forest          # documents that begin with a list
        nw = bool(i % 2)
        if nw:
            for t in forest:
                _pad1(t)
        reqs.append({'op': 'c10.lists', 'forest': forest, 'L': rng.choice([1, 2, 3, 5, 8, 10] + list(range(1, 61))),
                     'depth': rng.choice([0, 0, 0, 1, 2]), 'nw': nw})
    res = common.driver_batch(reqs, binary=common.PROPS_DRIVER)
    n_ok = n_list = 0
    for q, r in zip(reqs, res):
        if not (isinstance(r, dict) and r.get('ok')):
            continue
        n_ok += 1
        n_list += any(t['k'] == 'list' for t in q['forest'])
        L, nw = q['L'], q['nw']
        try:
            out = impl.parse_render('MarkdownRenderer', {'max_line_length': L, 'normalize_whitespace': nw}, r['text'])[1]
            again = impl.parse_render('MarkdownRenderer', {'max_line_length': L, 'normalize_whitespace': nw}, out)[1]
            h0 = impl.parse_render('HtmlRenderer', {}, r['text'])[1]
            h1 = impl.parse_render('HtmlRenderer', {}, out)[1]
            real = {'md': out, 'idempotent': again == out, 'same_html_up_to_breaks': h0.replace('\n', ' ') == h1.replace('\n', ' ')}
        except Exception as e:
            real = {'raises': type(e).__name__}
        ctx.compare('c10.theorem.lists', {'text': r['text'], 'L': L, 'normalize_whitespace': nw},
                    {'md': r['expected'], 'idempotent': True, 'same_html_up_to_breaks': True}, real,
                    kind=('L<=10' if L <= 10 else 'L>10') + ',depth%d' % q['depth'])
    ctx.notes.append('of %d generated documents with lists %d satisfy the hypothesis oksP of C10_list_reflow_quoted_partial (%d contain a list)'
                     % (len(reqs), n_ok, n_list))


RIGID_BLOCKS = ['# a very long heading line that exceeds every small limit by far\n', '## short ##\n', '```py\nlong code line here, far too long for the limit\n```\n',
                '    indented code line that is quite long as well\n', '| a very long cell of a table | b |\n|---|:-:|\n| c d e f g | h |\n',
                '<div class="x">long html line here, also too long</div>\n', '***\n', '~~~\n~~~\n', '<!-- a comment that is long enough to matter -->\n']
SOFT_BLOCKS = ['a paragraph of several words that will be wrapped\n', 'Title words here\n===\n', '[ref]: /url "a title of several words"\n']


def theorem_unit_rigid(ctx):
    """`C10_not_rebroken_document` on the real renderer: documents all of whose leaf blocks are code blocks, HTML blocks, tables, ATX
    headings, thematic breaks - at top level, in block quotes, in list items - render to the same text whatever max_line_length;
    the hypothesis (`rigidDeepAll`) is evaluated by Lean on the REAL token tree"""
    import export
    rng = ctx.rng('theorem-rigid')
    docs = []
    for _ in range(ctx.budget(500, 5000)):
        parts = []
        for _k in range(rng.randint(1, 4)):
            b = rng.choice(RIGID_BLOCKS if rng.random() < 0.9 else SOFT_BLOCKS)
            c = rng.random()
            if c < 0.25:
                b = ''.join('> ' + l + '\n' for l in b.rstrip('\n').split('\n'))
            elif c < 0.5:
                ls = b.rstrip('\n').split('\n')
                b = '- ' + ls[0] + '\n' + ''.join('  ' + l + '\n' for l in ls[1:])
            parts.append(b)
        docs.append('\n'.join(parts))
    reqs, meta = [], []
    for t in docs:
        try:
            doc = impl.parse_only('MarkdownRenderer', {}, t)
            tree = export.export_doc(doc, check_parent=False)
        except Exception:
            continue
        reqs.append({'op': 'c10.rigid', 'doc': tree})
        meta.append(t)
    res = common.driver_batch(reqs, binary=common.PROPS_DRIVER)
    n_ok = 0
    for t, r in zip(meta, res):
        if not (isinstance(r, dict) and r.get('rigid')):
            continue
        n_ok += 1
        L = rng.choice([1, 2, 5, 10, 20])
        nw = rng.random() < 0.5
        try:
            base = impl.parse_render('MarkdownRenderer', {'normalize_whitespace': nw}, t)[1]
            real = impl.parse_render('MarkdownRenderer', {'max_line_length': L, 'normalize_whitespace': nw}, t)[1]
        except Exception as e:
            base, real = None, {'raises': type(e).__name__}
        ctx.compare('c10.theorem.rigid', {'text': t, 'L': L, 'normalize_whitespace': nw}, base, real, kind='L%d' % L)
    ctx.notes.append('of %d generated documents %d consist of non-rebreakable blocks only (rigidDeepAll, evaluated on the real token tree)'
                     % (len(meta), n_ok))


def _docs(ctx):
    rng = ctx.rng('docs')
    cases = []
    for _ in range(ctx.budget(300, 4000)):
        t = document(rng)
        for L in ([rng.choice([1, 2, 3, 4, 5, 6, 8]), rng.randint(9, 40), rng.randint(41, 120)] if not ctx.thorough
                  else sorted(set([1, 2, 3, 4, 5, 6, 7, 8, 10, 12, 16, 20, 30, 40, 60, 80, 120] + [rng.randint(1, 120) for _ in range(6)]))):
            cases.append({'text': t, 'L': L})
    cases += [{'text': '> a b c d e f\n', 'L': 2}, {'text': '- a b c d e f\n', 'L': 2}, {'text': '> > alpha beta gamma\n', 'L': 4},
              {'text': 'aaaa bb  \nc dddd\n', 'L': 7}, {'text': '1. > alpha beta gamma delta\n', 'L': 5}]
    return cases


def explore(ctx, seeds):
    cases = _docs(ctx)
    if ctx.scale > 1:
        rng = ctx.rng('deep')
        for _ in range(300 * ctx.scale):
            t = document(rng)
            cases += [{'text': t, 'L': L} for L in (rng.randint(1, 8), rng.randint(9, 120))]
    for c in cases:
        ctx.explored_case(c, kind='L<9' if c['L'] < 9 else 'L>=9', nontrivial=len(c['text']) > 40)
        fails, detail = check_witness(c)
        if fails:
            ctx.violation(detail, c)
            if len(ctx.violations) >= 8:
                break
    ctx.sample(cases[0])
