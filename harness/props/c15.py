"""
C15 — the same text gives the same result however it is supplied.

Units: `lines` (the line list Document.__init__ hands to the block tokenizer, for str / list /
StringIO / real file, against Lines.normalize), `py.splitlines` (every code point: is it a
str.splitlines boundary, against the model's table use), `cli` (python -m mistletoe on files).
Exploration: the four forms and the final-newline clause on the implementation itself.
"""
import io
import os
import re
import subprocess
import sys
import tempfile

import common
import gen_docs
from common import driver_batch

ID = 'C15'
RULE = ('texts whose only line terminator is \\n from the spec corpus, its mutations/splices, random documents and '
        'random strings; each supplied as str, list of lines, io.StringIO, real UTF-8 file (and CLI for a subset); '
        'distinct by text, non-trivial when the text has at least two lines or an unterminated last line')
TRUSTED = ['CPython text-mode file iteration and universal-newline handling (exercised, not modelled)',
           'the CLI clause (argparse, open(), sys.stdout.buffer) is tied by correspondence only']
ASSUMPTIONS = ["texts contain none of str.splitlines' separators other than \\n (the property's own domain)",
               'final-newline clause is read for texts whose last line is non-empty (\"\" vs \"\\n\" are different documents)']
PARTIAL = ['CLI form: correspondence only (file I/O is outside any executable model)']


def renderers():
    import mistletoe
    from mistletoe.markdown_renderer import MarkdownRenderer
    from mistletoe.latex_renderer import LaTeXRenderer
    from mistletoe.ast_renderer import AstRenderer
    from mistletoe.contrib.jira_renderer import JiraRenderer
    from mistletoe.contrib.xwiki20_renderer import XWiki20Renderer
    from mistletoe.contrib.toc_renderer import TocRenderer
    return [mistletoe.HtmlRenderer, MarkdownRenderer, LaTeXRenderer, AstRenderer, JiraRenderer,
            XWiki20Renderer, TocRenderer]


def split_keep_lf(text):
    return [p for p in re.split(r'(?<=\n)', text) if p != '']


def captured_lines(inp):
    """The argument Document.__init__ passes to block_token.tokenize."""
    from mistletoe import block_token
    got = []
    orig = block_token.tokenize

    def fake(lines):
        got.append(list(lines))
        return []
    block_token.tokenize = fake
    try:
        block_token.Document(inp)
    finally:
        block_token.tokenize = orig
    return got[0]


def render(inp, R):
    import mistletoe
    try:
        return ('ok', mistletoe.markdown(inp, R))
    except Exception as e:       # C01's business; here only equality of behaviour matters
        return ('raised', type(e).__name__)


def forms(text, tmpdir):
    path = os.path.join(tmpdir, 'doc.md')
    with open(path, 'w', encoding='utf-8', newline='') as f:
        f.write(text)
    return path


def check_witness(w):
    """w: {'text': str, 'renderer': name, 'clause': 'forms'|'final'|'cli'}"""
    text = w['text']
    R = [r for r in renderers() if r.__name__ == w.get('renderer', 'HtmlRenderer')][0]
    with tempfile.TemporaryDirectory() as td:
        if w['clause'] == 'final':
            a, b = render(text, R), render(text + '\n', R)
            if a != b:
                return True, 'final newline changes the output under %s: %r vs %r for %r' % (R.__name__, a, b, text)
            return False, 'ok'
        base = render(text, R)
        outs = {'list': render(split_keep_lf(text), R), 'stringio': render(io.StringIO(text), R)}
        path = forms(text, td)
        with open(path, 'r', encoding='utf-8') as f:
            outs['file'] = render(f, R)
        if w['clause'] == 'cli' and base[0] == 'ok':
            env = dict(os.environ, PYTHONPATH=str(common.REPO))
            mod = R.__module__ + '.' + R.__name__
            p = subprocess.run([sys.executable, '-m', 'mistletoe', '-r', mod, path, path], cwd=str(common.REPO),
                               stdout=subprocess.PIPE, stderr=subprocess.PIPE, env=env, timeout=120)
            outs['cli'] = ('ok', p.stdout.decode('utf-8'))
            if outs['cli'] != ('ok', base[1] * 2):
                return True, 'CLI output differs under %s for %r: %r vs %r' % (R.__name__, text, outs['cli'][1], base[1] * 2)
            del outs['cli']
        for k, v in outs.items():
            if v != base:
                return True, 'form %s differs from str under %s for %r: %r vs %r' % (k, R.__name__, text, v, base)
    return False, 'ok'


def matches_known(v, finding):
    return False


def finding_still_fails(finding):
    return False


# texts on which file/CLI glue could plausibly differ from the in-process forms (encoding marks,
# non-ASCII, missing final newline, leading indentation); always sent through every form incl. CLI
GLUE_TEXTS = ['\ufeff# Title\n', '\ufeff- a\n- b', '\ufeff    code\n', 'é “q” 中\n', '', 'a', '\n', '    code',
              '\ufeff', '> q\n\n\n', '```\nfoo\n\n\n', 'a\n\n\n', '\n\n# h\n', '\x00a\n', '\U0001F600\n',
              '[a]: /u\n\n[a]\n', 'a\x0bb\n'.replace('\x0b', ''), '\t- x\n']


def _texts(ctx):
    rng = ctx.rng('texts')
    texts = gen_docs.corpus_stream(rng, ctx.budget(1500, 20000))
    texts += ['', '\n', 'a', 'a\n', 'a\n\n', '\n\na', 'a\nb', ' \n', '> a\n> b', '- a\n\n  b'] + GLUE_TEXTS
    return texts


def units(ctx):
    rng = ctx.rng('units')
    texts = _texts(ctx)
    ctx._c15_texts = texts
    # unit `lines`: all texts incl. ones with foreign separators (the model covers them too)
    extra = [gen_docs.malformed(rng) for _ in range(ctx.budget(400, 4000))]
    reqs, cases = [], []
    with tempfile.TemporaryDirectory() as td:
        for t in texts + extra:
            only_lf = all(c == '\n' or len(('a' + c + 'b').splitlines()) == 1 for c in t)
            reqs.append({'op': 'lines.normalize', 'form': 'str', 'text': t})
            cases.append(('str', t, captured_lines(t)))
            ls = split_keep_lf(t)
            reqs.append({'op': 'lines.normalize', 'form': 'list', 'lines': ls})
            cases.append(('list', t, captured_lines(ls)))
            if only_lf:
                reqs.append({'op': 'lines.normalize', 'form': 'file', 'text': t})
                cases.append(('stringio', t, captured_lines(io.StringIO(t))))
                path = forms(t, td)
                with open(path, 'r', encoding='utf-8') as f:
                    reqs.append({'op': 'lines.normalize', 'form': 'file', 'text': t})
                    cases.append(('file', t, captured_lines(f)))
        model = driver_batch(reqs)
    for (form, t, impl), m in zip(cases, model):
        ctx.compare('lines', {'form': form, 'text': t}, m, impl, kind=form)
    # unit `py.splitlines`: every code point
    allcp = [c for c in range(sys.maxunicode + 1) if not (0xD800 <= c <= 0xDFFF)]
    impl = [c for c in allcp if len(('a' + chr(c) + 'b').splitlines()) == 2]
    sample = impl + [c for c in allcp if c < 0x3100] + [rng.randrange(0x3100, 0x110000) for _ in range(3000)]
    sample = sorted(set(c for c in sample if not (0xD800 <= c <= 0xDFFF)))
    reqs = [{'op': 'lines.normalize', 'form': 'str', 'text': 'a' + chr(c) + 'b'} for c in sample]
    model = driver_batch(reqs)
    for c, m in zip(sample, model):
        ctx.compare('py.splitlines', {'codepoint': c}, m,
                    [l if l.endswith('\n') else l + '\n' for l in ('a' + chr(c) + 'b').splitlines(keepends=True)])
    # unit `cli`: real command on files (slow: a small subset)
    import mistletoe
    k = ctx.budget(6, 60)
    with tempfile.TemporaryDirectory() as td:
        for i, t in enumerate(GLUE_TEXTS + rng.sample(texts, min(k, len(texts)))):
            path = os.path.join(td, 'f%d.md' % i)
            with open(path, 'w', encoding='utf-8', newline='') as f:
                f.write(t)
            env = dict(os.environ, PYTHONPATH=str(common.REPO))
            p = subprocess.run([sys.executable, '-m', 'mistletoe', path, path], cwd=str(common.REPO),
                               stdout=subprocess.PIPE, stderr=subprocess.PIPE, env=env, timeout=120)
            expect = render(t, mistletoe.HtmlRenderer)
            got = ('ok', p.stdout.decode('utf-8')) if p.returncode == 0 else ('raised', 'exit %d' % p.returncode)
            if expect[0] == 'ok':
                expect = ('ok', expect[1] * 2)
                ctx.compare('cli', {'text': t}, expect, got)


def explore(ctx, seeds):
    rng = ctx.rng('explore')
    texts = list(getattr(ctx, '_c15_texts', None) or _texts(ctx))
    for sd in seeds:
        if isinstance(sd, dict) and isinstance(sd.get('text'), str):
            texts.insert(0, ''.join(c for c in sd['text'] if c == '\n' or len(('a' + c + 'b').splitlines()) == 1))
    if ctx.scale > 1:
        texts += gen_docs.corpus_stream(ctx.rng('deep'), 4000 * ctx.scale)
    rs = renderers()
    for i, t in enumerate(texts):
        Rs = [rs[0], rs[1 + (i % (len(rs) - 1))]] if not ctx.thorough else rs
        for R in Rs:
            w = {'text': t, 'renderer': R.__name__, 'clause': 'forms'}
            ctx.explored_case(w, kind=R.__name__, nontrivial=t.count('\n') >= 1)
            fails, detail = check_witness(w)
            if fails:
                ctx.violation(detail, w)
            if t != '' and not t.endswith('\n'):
                w = {'text': t, 'renderer': R.__name__, 'clause': 'final'}
                ctx.explored_case(w, kind='final')
                fails, detail = check_witness(w)
                if fails:
                    ctx.violation(detail, w)
        if len(ctx.violations) >= 5:
            break
    for i, t in enumerate(GLUE_TEXTS + rng.sample(texts, min(ctx.budget(4, 40), len(texts)))):
        w = {'text': t, 'renderer': rs[i % 3].__name__, 'clause': 'cli'}
        ctx.explored_case(w, kind='cli')
        fails, detail = check_witness(w)
        if fails:
            ctx.violation(detail, w)
    ctx.sample({'text': texts[3] if len(texts) > 3 else '', 'forms': ['str', 'list', 'StringIO', 'file', 'CLI']})
