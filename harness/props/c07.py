"""
C07 — link reference definitions: position-independent, first wins, case-folded.

Units: `label.normalize` (real core_tokens.normalize_label vs the Lean model: every code point
singly, label spellings, random strings), `block.footnotes` (real Document.footnotes - keys,
values and insertion order - vs `footnotesOf` of the generator's definitions in document order).
Theorems: Props/C07.lean (first wins, normalisation, two-phase parse) and Props/C07_Order.lean (the order in which
definitions are registered is document pre-order, at every depth; position independence).  Unit `c07.order`: the
conclusion of C07_table_is_document_order on the REAL block phase - the definitions handed to append_footnotes, in call
order, must be the Footnote entries of the real parse buffer in pre-order.
Exploration: generated documents that place definitions at every kind of block boundary and
nesting level (alone or in runs of consecutive lines), with duplicate / near-duplicate labels, all reference forms and title styles; the
oracle is the generator's own table.
"""
import re
import sys

import common
import gen_docs
import impl
from common import driver_batch

ID = 'C07'
EXTRA_MODULES = ['Mistletoe.Proofs.DefOrder', 'Mistletoe.Proofs.RefResolve', 'Mistletoe.Proofs.DefLine', 'propsdriver']
RULE = ('generated documents: blocks (paragraphs, ATX and setext headings, table cells, quotes, list items nested to depth 3) '
        'carrying uniquely tagged reference uses in full / collapsed / shortcut form for links and images; definitions '
        'placed before or after their uses at top level or inside quotes and list items, with duplicate and near-'
        'duplicate labels (case, inner whitespace, Unicode folding), titles in the three quoting styles and angle-'
        'bracket destinations; label families without any definition. Distinct by document; non-trivial when a label '
        'has >= 2 definitions or a definition is nested or follows its use')
TRUSTED = ['str.casefold is taken as the Unicode case fold of the specification (table regenerated from the interpreter)']
ASSUMPTIONS = ['definitions are placed at block boundaries (a definition cannot interrupt a paragraph)']
PARTIAL = ['proved over the whole-document model: one table for all inline content (C07_two_phase), built from the definition '
           'entries of the parse buffer in document (pre-)order at every nesting depth (C07_table_is_document_order, '
           'C07_first_in_document_order, C07_position_independent), first definition wins, unresolved labels resolve to '
           'nothing; that a reference in the TEXT reaches the lookup is proved for shortcut, collapsed and full references (links and '
           'images) written in otherwise plain text: the inline parser calls the lookup with normalize_label(label), yields ONE token '
           'carrying the looked-up destination and title, and no token at all when the lookup fails (Props/C07_Resolve.lean); the '
           'block phase reads a run of definition lines (with or without titles) as exactly those definitions in order, so the '
           'document-level statements - the link goes to the FIRST matching definition of the run, or the text stays literal - hold with no '
           'assumption left (Props/C07_DefLine.lean; re-checked on the real code each run: c07.resolve, c07.defs); references next to other inline constructs, inside emphasis or '
           'nested brackets are tied by the inline/doc units and explored over all placements']

FAMILIES = [['foo', 'Foo', 'FOO', 'fOo'], ['bar baz', 'Bar  Baz', 'BAR\tBAZ', 'bar baz'], ['ß', 'ẞ', 'SS', 'ss', 'Ss'],
            ['ΑΓΩ', 'αγω', 'Αγω'], ['x1', 'X1'], ['toto', 'ToTo'], ['é', 'É'], ['a.b-c', 'A.B-C']]
UNDEFINED = [['nolabel', 'NoLabel'], ['ghost', 'GHOST']]


class Gen:
    def __init__(self, rng):
        self.rng = rng
        self.defs = []        # (label, dest, title) in document order
        self.uses = []        # dicts
        self.nuse = 0
        self.ndef = 0
        self.fams = rng.sample(FAMILIES, rng.randint(1, 4))
        self.undef = rng.sample(UNDEFINED, rng.randint(0, 2))

    def definition(self, depth=0):
        rng = self.rng
        fam = rng.choice(self.fams)
        label = rng.choice(fam)
        self.ndef += 1
        dest = '/d%d' % self.ndef
        title = 't%d' % self.ndef if rng.random() < 0.6 else ''
        self.defs.append((label, dest, title))
        d = '<%s>' % dest if rng.random() < 0.3 else dest
        t = ''
        if title:
            q = rng.choice(['"%s"', "'%s'", '(%s)'])
            t = rng.choice([' ', '  ', '\n  ']) + q % title
        pad = ' ' * rng.randint(0, 3) if depth == 0 else ''
        return ('%s[%s]:%s%s%s' % (pad, label.replace('\t', ' '), rng.choice([' ', '  ', '\n ']), d, t)).split('\n')

    def use(self):
        rng = self.rng
        fam = rng.choice(self.fams + self.undef)
        label = rng.choice(fam).replace('\t', ' ')
        self.nuse += 1
        tag = 'use%d' % self.nuse
        form = rng.choice(['full', 'collapsed', 'shortcut'])
        image = rng.random() < 0.25
        if form == 'full':
            src = '[%s][%s]' % (tag, label)
        elif form == 'collapsed':
            src = '[%s][]' % label
        else:
            src = '[%s]' % label
        if image:
            src = '!' + src
        self.uses.append({'tag': tag, 'label': label, 'form': form, 'image': image, 'src': src,
                          'defined_family': fam in self.fams})
        return 'w%d %s z' % (self.nuse, src)

    def leaf(self):
        rng = self.rng
        r = rng.random()
        text = self.use()
        if r < 0.12:
            return ['# ' + text]
        if r < 0.24:
            return [text, rng.choice(['===', '---'])]
        if r < 0.32:
            return ['| a | b |', '|---|---|', '| %s | c |' % text]
        if r < 0.45:
            return [text, self.use()]
        return [text]

    def block(self, depth):
        rng = self.rng
        r = rng.random()
        if r < 0.28:
            # a run of 1-3 definitions on directly consecutive lines (one Footnote.read call reads them all)
            lines = self.definition(depth)
            while rng.random() < 0.35 and len(lines) < 8:
                lines += self.definition(depth)
            return lines
        if depth < 3 and r < 0.42:
            inner = self.blocks(depth + 1, rng.randint(1, 3))
            return [('> ' + l) if l else '>' for l in inner]
        if depth < 3 and r < 0.58:
            marker = rng.choice(['- ', '* ', '1. ', '2) '])
            out = []
            for _ in range(rng.randint(1, 2)):
                inner = self.blocks(depth + 1, rng.randint(1, 2))
                pad = ' ' * len(marker)
                out += [marker + inner[0]] + [(pad + l) if l else '' for l in inner[1:]] + ['']
            return out[:-1]
        return self.leaf()

    def blocks(self, depth, n):
        out = []
        for i in range(n):
            if i:
                out.append('')
            out += self.block(depth)
        return out

    def document(self):
        return '\n'.join(self.blocks(0, self.rng.randint(2, 6))) + '\n'


def normalize(label):
    """The specification's label matching: Unicode case fold, strip, collapse internal whitespace."""
    return ' '.join(label.split()).casefold()


def expected_table(defs):
    t = {}
    for label, dest, title in defs:
        t.setdefault(normalize(label), (dest, title))
    return t


def check_witness(w):
    text, defs, uses = w['text'], [tuple(d) for d in w['defs']], w['uses']
    try:
        doc, out = impl.parse_render('HtmlRenderer', {}, text)
    except Exception as e:
        return False, 'raised %s (C01)' % type(e).__name__
    table = expected_table(defs)
    # the table itself: keys, values, first-wins, insertion order
    got = [(k, v[0], v[1]) for k, v in doc.footnotes.items()]
    exp = [(k, v[0], v[1]) for k, v in table.items()]
    if got != exp:
        return True, 'Document.footnotes is %r, the definitions in document order give %r; document %r' % (got, exp, text)
    for u in uses:
        ref = table.get(normalize(u['label']))
        tag = u['tag']
        label_text = u['label']
        shown = tag if u['form'] == 'full' else label_text
        if ref is not None:
            dest, title = ref
            tattr = ' title="%s"' % title if title else ''
            if u['image']:
                want = '<img src="%s" alt="%s"%s />' % (dest, shown, tattr)
            else:
                want = '<a href="%s"%s>%s</a>' % (dest, tattr, shown)
            if want not in out:
                return True, 'reference %r should resolve to %r (first definition of %r) but the output has no %r; document %r output %r' % (
                    u['src'], ref, normalize(u['label']), want, text, out)
        else:
            lit = u['src']
            if lit not in out.replace('&quot;', '"'):
                return True, 'reference %r has no definition and should stay literal; document %r output %r' % (u['src'], text, out)
    # definitions produce no output of their own
    for label, dest, title in defs:
        if re.search(r'\[[^\]]*\]:\s*<?%s\b' % re.escape(dest), out):
            return True, 'a definition shows up in the output: %r; document %r' % (dest, text)
    return False, 'ok'


def matches_known(v, finding):
    return False


def finding_still_fails(finding):
    return check_witness(finding['witness'])[0]


def _cases(ctx):
    rng = ctx.rng('cases')
    cases = []
    for _ in range(ctx.budget(700, 10000)):
        g = Gen(rng)
        text = g.document()
        cases.append({'text': text, 'defs': g.defs, 'uses': g.uses})
    cases.append({'text': 'w1 [use1][bar] z\n===\n\n[bar]: /d1\n', 'defs': [('bar', '/d1', '')],
                  'uses': [{'tag': 'use1', 'label': 'bar', 'form': 'full', 'image': False, 'src': '[use1][bar]', 'defined_family': True}]})
    cases.append({'text': '[foo]: /d1\n\n[Foo]: /d2\n\nw1 [use1][FOO] z\n', 'defs': [('foo', '/d1', ''), ('Foo', '/d2', '')],
                  'uses': [{'tag': 'use1', 'label': 'FOO', 'form': 'full', 'image': False, 'src': '[use1][FOO]', 'defined_family': True}]})
    cases.append({'text': '[foo]: /d1\n[FOO]: /d2 "t2"\n[bar]: /d3\n\nw1 [use1][Foo] z\n', 'defs': [('foo', '/d1', ''), ('FOO', '/d2', 't2'), ('bar', '/d3', '')],
                  'uses': [{'tag': 'use1', 'label': 'Foo', 'form': 'full', 'image': False, 'src': '[use1][Foo]', 'defined_family': True}]})
    cases.append({'text': '- [foo]: /d1\n\n* x\n\nw1 [foo] z\n', 'defs': [('foo', '/d1', '')],
                  'uses': [{'tag': 'use1', 'label': 'foo', 'form': 'shortcut', 'image': False, 'src': '[foo]', 'defined_family': True}]})
    return cases


def units(ctx):
    rng = ctx.rng('units')
    from mistletoe.core_tokens import normalize_label
    allcp = [c for c in range(sys.maxunicode + 1) if not (0xD800 <= c <= 0xDFFF)]
    folded = [c for c in allcp if chr(c).casefold() != chr(c)]
    spaces = [c for c in allcp if chr(c).isspace()]
    strings = ['a' + chr(c) + 'B' for c in folded + spaces] + [s for fam in FAMILIES + UNDEFINED for s in fam]
    strings += [gen_docs.random_string(rng, maxlen=14) for _ in range(ctx.budget(2000, 30000))]
    strings += ['a' + chr(c) + 'b' for c in ([rng.randrange(0x110000) for _ in range(2000)]) if not (0xD800 <= c <= 0xDFFF)]
    model = driver_batch([{'op': 'label.normalize', 's': s} for s in strings])
    for s, m in zip(strings, model):
        ctx.compare('label.normalize', {'s': s}, m, normalize_label(s))
    cases = _cases(ctx)
    ctx._c07_cases = cases
    reqs, exp, meta = [], [], []
    for c in cases:
        try:
            doc = impl.parse_only('HtmlRenderer', {}, c['text'])
        except Exception:
            continue
        reqs.append({'op': 'footnotes.of', 'defs': [list(d) for d in c['defs']]})
        exp.append([[k, v[0], v[1]] for k, v in doc.footnotes.items()])
        meta.append({'text': c['text'], 'defs': c['defs']})
    model = driver_batch(reqs)
    for case, e, m in zip(meta, exp, model):
        ctx.compare('block.footnotes', case, m, e)
    # the theorem's conclusion on the real block phase
    import block_units
    for k, c in enumerate(cases):
        rname = ['HtmlRenderer', 'MarkdownRenderer'][k % 2]
        res, _types = block_units.real_block_phase(rname, {}, block_units.lines_of(c['text']))
        if 'buffer' not in res:
            continue
        ctx.compare('c07.order', {'text': c['text'], 'renderer': rname}, defs_of_buffer(res['buffer']), res['defs'], kind=rname)
    resolve_unit(ctx)


RES_WORDS = ['see', 'the', 'ref', 'here', 'Now', 'end.', 'a,b', 'x:', '(note)', 'é', '中', 'q?', '1986', 'AT', '#1', 'v=1', 'a|b', '+x', 'at: y', '$']
RES_LABELS = [fam for fam in FAMILIES + UNDEFINED] + [['two words', 'Two  Words', 'TWO WORDS'], ['straße', 'STRASSE', 'Straße'], ['x.y', 'X.Y'],
                                                    ['ﬁn', 'FIN', 'fin'], ['σας', 'ΣΑΣ', 'σασ']]


def resolve_unit(ctx):
    """`C07_shortcut_document_text_partial` on the real code: `[defLbl]: dest`, blank line, `pre[lbl]post` renders a link to
    dest exactly when the two labels are equal after normalisation, and the literal text otherwise"""
    rng = ctx.rng('resolve')
    reqs = []
    for _ in range(ctx.budget(1200, 12000)):
        fam = rng.choice(RES_LABELS)
        d = rng.choice(fam)
        l = rng.choice(fam) if rng.random() < 0.7 else rng.choice(rng.choice(RES_LABELS))
        pre = ' '.join(rng.choice(RES_WORDS) for _ in range(rng.randint(0, 3)))
        post = ' '.join(rng.choice(RES_WORDS) for _ in range(rng.randint(0, 3)))
        pre = pre + rng.choice([' ', ' ', '']) if pre else ''
        post = rng.choice([' ', ' ', '', '.']) + post if post else rng.choice(['', '.', ':'])
        reqs.append({'op': 'c07.resolve', 'defLbl': d, 'dest': rng.choice(['/url', 'a/b.c', 'x', '/U/1.html']), 'pre': pre, 'lbl': l, 'post': post})
    res = driver_batch(reqs, binary=common.PROPS_DRIVER)
    n_ok = n_link = 0
    for q, r in zip(reqs, res):
        if not (isinstance(r, dict) and r.get('ok')):
            continue
        n_ok += 1
        n_link += '<a href' in r['html']
        try:
            real = impl.parse_render('HtmlRenderer', {}, r['text'])[1]
        except Exception as e:
            real = {'raises': type(e).__name__}
        ctx.compare('c07.resolve', {'text': r['text']}, r['html'], real, kind='resolved' if '<a href' in r['html'] else 'literal')
    ctx.notes.append('of %d generated definition + reference documents %d satisfy the hypotheses of C07_shortcut_document_text_partial '
                     '(%d resolve to the definition, the others stay literal)' % (len(reqs), n_ok, n_link))

    # runs of definition lines with and without titles (C07_defs_document: no assumption about the block phase)
    reqs = []
    for _ in range(ctx.budget(1200, 12000)):
        fam = rng.choice(RES_LABELS)
        defs = []
        for _k in range(rng.randint(1, 3)):
            d = {'lbl': rng.choice(fam) if rng.random() < 0.7 else rng.choice(rng.choice(RES_LABELS)), 'dest': rng.choice(['/url', 'a/b.c', 'x', '/U/1.html'])}
            if rng.random() < 0.4:
                d['title'] = rng.choice(['T', 'two words', 'it\'s <b>', 'x > y', '(t)'])
            defs.append(d)
        l = rng.choice(fam) if rng.random() < 0.75 else rng.choice(rng.choice(RES_LABELS))
        pre = ' '.join(rng.choice(RES_WORDS[:6]) for _ in range(rng.randint(1, 3))) + ' '
        post = rng.choice(['', '.', ' ' + rng.choice(RES_WORDS[:6])])
        reqs.append({'op': 'c07.defs', 'defs': defs, 'pre': pre, 'lbl': l, 'post': post})
    res = driver_batch(reqs, binary=common.PROPS_DRIVER)
    n_ok = n_link = n_dup = 0
    for q, r in zip(reqs, res):
        if not (isinstance(r, dict) and r.get('ok')):
            continue
        n_ok += 1
        n_link += '<a href' in r['html']
        n_dup += len(q['defs']) >= 2
        try:
            real = impl.parse_render('HtmlRenderer', {}, r['text'])[1]
        except Exception as e:
            real = {'raises': type(e).__name__}
        ctx.compare('c07.defs', {'text': r['text']}, r['html'], real, kind='n%d' % len(q['defs']))
    ctx.notes.append('of %d generated documents with runs of definition lines %d satisfy the hypotheses of C07_defs_document (%d resolve, %d with '
                     'two or more definitions)' % (len(reqs), n_ok, n_link, n_dup))


def defs_of_buffer(buf):
    """the definition matches of a real parse buffer (block_units' canonical JSON) in pre-order"""
    out = []
    for name, payload, _ln in buf[0]:
        if name in ('Footnote', 'LinkReferenceDefinitionBlock'):
            out += [list(m) for m in payload]
        elif name == 'Quote':
            out += defs_of_buffer(payload)
        elif name == 'List':
            for item in payload:
                out += defs_of_buffer(item[0])
    return out


def explore(ctx, seeds):
    cases = list(getattr(ctx, '_c07_cases', None) or _cases(ctx))
    if ctx.scale > 1:
        rng = ctx.rng('deep')
        for _ in range(3000 * ctx.scale):
            g = Gen(rng)
            cases.append({'text': g.document(), 'defs': g.defs, 'uses': g.uses})
    for c in cases:
        keys = [normalize(d[0]) for d in c['defs']]
        ctx.explored_case(c['text'], kind='dup' if len(set(keys)) < len(keys) else 'nodup',
                          nontrivial=len(set(keys)) < len(keys) or '> [' in c['text'] or '  [' in c['text'])
        fails, detail = check_witness(c)
        if fails:
            ctx.violation(detail, c)
            if len(ctx.violations) >= 6:
                break
    ctx.sample({'text': cases[0]['text'], 'definitions': cases[0]['defs']})
