"""
C03 — documents built from Markdown constructs parse to the tree they were built from.

Theorems (lean/Mistletoe/Props/C03.lean; lemmas in Proofs/Compose.lean), a COMPOSITIONAL result for a fragment of the
grammar at every nesting depth, by induction over the tree from C14 (inert lines form one paragraph of raw text), C04
(lines behind a quote marker are one Quote around the parse of the unmarked lines), C05 (blocks separated by a blank line
are independent) and the dispatch on ATX heading / thematic break lines: for every well-formed forest of paragraphs (1+
inert lines, 0-3 spaces of indent), ATX headings (any spelling the dispatcher accepts), thematic breaks (any spelling),
and block quotes of these ("> " or ">"), siblings separated by one empty line,
  * `C03_block_phase_partial` / `C03_document_partial`: Document(write(tree)) is exactly the tree (line numbers included);
  * `C03_html_partial`: HtmlRenderer(**opts) on it returns exactly the HTML written directly from the tree, for the token
    lists regenerated from /repo; `C03_spelling_independent_partial`: two spellings of one tree give the same HTML.
OUTSIDE the fragment (setext headings, code blocks, lists, tables, HTML blocks, link definitions, every inline construct
other than text and soft breaks, lazy continuation, interruption without blank line): not proved - explored with the
tree generator and its independent HTML oracle (all block and inline kinds, depth <= 4, free spellings).
Units: `doc` (real Document + HtmlRenderer against the model on generated documents) and `c03.theorem`: random forests of
the fragment are sent to the second driver (lean/PropsMain.lean), which evaluates the theorem's hypothesis `T.oks`, the
writer and the HTML the theorem concludes; wherever the hypothesis holds, the REAL renderer's output on the written text
must be that HTML byte for byte.
"""
import random

import common
import doc_units
import gen_tree
import impl
import specnorm

ID = 'C03'
EXTRA_MODULES = ['Mistletoe.Proofs.Compose', 'Mistletoe.Proofs.ComposeLists2', 'Mistletoe.Proofs.ComposeCode', 'Mistletoe.Proofs.ComposeTable', 'propsdriver']
RULE = ('trees of up to depth 4 / ~40 blocks (paragraphs, ATX and setext headings, thematic breaks, fenced and indented code, '
        'block quotes, tight and loose bullet/ordered lists, tables, HTML blocks, link definitions; emphasis, strong, '
        'strikethrough, code spans, inline/reference links, images, autolinks, hard and soft breaks, escapes, character '
        'references, raw inline HTML) x free spellings (markers, 0-3 spaces of indent, marker padding 1-4, fence char and '
        'length, closing #s, > with/without space, lazy continuation, omitted blank lines where a block may interrupt a '
        'paragraph, blank first line of list items, placement of definitions). Distinct by document; non-trivial when the '
        'tree has a container')
TRUSTED = ['harness/gen_tree.py (writer and expected-HTML writer) and harness/specnorm.py are the oracle, written from the specification']
ASSUMPTIONS = ['spellings are restricted to those for which the specification unambiguously denotes the tree (the writer\'s '
               'admissibility rules)']
PARTIAL = ['proved for the fragment paragraphs / ATX headings / thematic breaks / nested block quotes with inert text, bullet and ordered '
           'lists nested to any depth (Props/C03_Lists.lean), fenced code blocks (any info string and content, at top level, in quotes '
           'and in list items), setext headings (at top level and in list items; Props/C03_Code.lean), tables (alignments, short and long '
           'rows, with and without outer pipes) and indented code blocks (Props/C03_Tables.lean); every other construct of the '
           'property (HTML blocks, link definitions, emphasis, strong, strikethrough, code spans, links, images, '
           'autolinks, hard breaks, escapes, character references, raw HTML) and the free spellings outside the fragment (list marker '
           'indentation, lazy lines, omitted blank lines, tabs) are decided by exploration with the tree generator and its independent oracle']


def opts(seed=0):
    # every third case writes some inline constructs directly next to each other ("wow!`x`[a](b)")
    return gen_tree.Opts(glue=(seed % 3 == 2))


def gen(seed, nblocks=None):
    rng = random.Random(seed)
    return gen_tree.generate(rng, opts(seed), nblocks)


def adjacent_lists(bs):
    for a, b in zip(bs, bs[1:]):
        if a.kind == 'list' and b.kind == 'list':
            return True
    for b in bs:
        if b.kind == 'quote' and adjacent_lists(b.kids):
            return True
        if b.kind == 'list' and any(adjacent_lists(it.kids) for it in b.items):
            return True
    return False


def table_first_in_later_item(bs):
    for b in bs:
        if b.kind == 'list':
            for k, it in enumerate(b.items):
                if k > 0 and it.kids and it.kids[0].kind == 'table':
                    return True
                if table_first_in_later_item(it.kids):
                    return True
        elif b.kind == 'quote' and table_first_in_later_item(b.kids):
            return True
    return False


def check_witness(w):
    if 'text' in w:            # explicit witness (known findings): document + the HTML of its tree
        text, exp_fixed = w['text'], w['expected_html']
        out = impl.parse_render('HtmlRenderer', {'html_escape_double_quotes': True}, text)[1]
        if specnorm.normalize(out) != specnorm.normalize(exp_fixed):
            return True, 'document %r renders as %r, its tree is %r' % (text, out, exp_fixed)
        return False, 'ok'
    bs, text, deflist, defs = gen(w['seed'], w.get('nblocks'))
    try:
        out = impl.parse_render('HtmlRenderer', {'html_escape_double_quotes': True}, text)[1]
    except Exception as e:
        return True, 'raised %s: %s on generated document %r' % (type(e).__name__, e, text)
    exp = gen_tree.expected_html(bs, defs)
    a, b = specnorm.normalize(out), specnorm.normalize(exp)
    if a != b:
        i = next((i for i, (x, y) in enumerate(zip(a, b)) if x != y), min(len(a), len(b)))
        return True, ('the document written from the tree does not parse back to it: first difference at %d: got …%r expected …%r; '
                      'document %r' % (i, a[max(0, i - 40):i + 60], b[max(0, i - 40):i + 60], text))
    return False, 'ok'


def matches_known(v, finding):
    w = v['witness']
    if 'text' in w:
        return False
    bs, text, _, _ = gen(w['seed'], w.get('nblocks'))
    if finding.get('class') == 'adjacent-lists-looseness':
        return adjacent_lists(bs)
    if finding.get('class') == 'escaped-backslash-before-span':
        # the written document has an escaped backslash glued to an autolink / raw tag, a strikethrough or a code span,
        # and that backslash is what is missing from the output
        import re as _re
        return _re.search(r'(?<!\\)(?:\\\\)+(?:<[A-Za-z/!?]|~~|`)', text) is not None and 'expected …' in v['what'] and '\\\\' in v['what']
    return False


def finding_still_fails(finding):
    return check_witness(finding['witness'])[0]


FRAG_WORDS = ['alpha', 'beta', 'a_b_c', 'snake_case', '*', 'x * y', '3.14)', 'a | b', '# no', 'c#', '1986.', '2)x', 'AT&T', '& co', '[open',
              'end.', '(see p. 3)', 'é', 'naïve', '“q”', '+1', '-x', '= y', '~', 'a<b', '< 3', 'user@', '$5', '50%', 'x^2', 'v1.2.3', 'don\'t',
              'say "hi"', 'a;b', 'k=v&w=z', '*foo', '_bar']


def frag_line(rng):
    words = [rng.choice(FRAG_WORDS) for _ in range(rng.randint(1, 6))]
    if not words[0][0].isalnum():
        words.insert(0, rng.choice(['alpha', 'beta', 'Zed']))
    return ' '.join(words)


def frag_tree(rng, depth):
    r = rng.random()
    if r < 0.45 or depth >= 3:
        return {'k': 'para', 'lines': [' ' * rng.choice([0, 0, 0, 1, 2, 3]) + frag_line(rng) + '\n' for _ in range(rng.randint(1, 3))]}
    if r < 0.65:
        lv = rng.randint(1, 6)
        text = frag_line(rng)
        line = ' ' * rng.choice([0, 0, 1, 3]) + '#' * lv + ' ' * rng.choice([1, 1, 2, 4]) + text + rng.choice(['', '', ' #', ' ' + '#' * lv, ' ##  ']) + '\n'
        return {'k': 'heading', 'level': lv, 'text': text, 'line': line}
    if r < 0.75:
        return {'k': 'hr', 'line': rng.choice(['***', '---', '___', '- - -', ' * * *', '  _____  ', '*  *  *']) + '\n'}
    return {'k': 'quote', 'bare': rng.random() < 0.3, 'kids': [frag_tree(rng, depth + 1) for _ in range(rng.randint(1, 3))]}


def strip_indent_for_bare(t):
    """the bare marker '>' is only admissible when no content line begins with a space"""
    if t['k'] == 'para':
        t['lines'] = [l.lstrip(' ') for l in t['lines']]
    elif t['k'] == 'heading':
        t['line'] = t['line'].lstrip(' ')
    elif t['k'] == 'hr':
        t['line'] = t['line'].lstrip(' ')
    elif t['k'] == 'quote':
        for k in t['kids']:
            strip_indent_for_bare(k)


def fix_bare(t, under_bare=False):
    if t['k'] == 'quote':
        if t['bare'] or under_bare:
            for k in t['kids']:
                strip_indent_for_bare(k)
        for k in t['kids']:
            fix_bare(k, under_bare or t['bare'])


def frag_tree2(rng, depth):
    """a tree of the fragment with lists (Props/C03_Lists.lean): lines without leading spaces (the list theorems need it)"""
    r = rng.random()
    if r < 0.35 or depth >= 3:
        return {'k': 'para', 'lines': [frag_line(rng) + '\n' for _ in range(rng.randint(1, 3))]}
    if r < 0.45:
        lv = rng.randint(1, 6)
        text = frag_line(rng)
        return {'k': 'heading', 'level': lv, 'text': text, 'line': '#' * lv + ' ' + text + rng.choice(['', '', ' #']) + '\n'}
    if r < 0.52:
        return {'k': 'hr', 'line': rng.choice(['***', '___', '* * *', '_____']) + '\n'}
    if r < 0.62:
        return {'k': 'quote', 'bare': False, 'kids': siblings2(rng, depth + 1)}
    ordered = rng.random() < 0.4
    loose = rng.random() < 0.5
    n = rng.randint(1, 4)
    if loose:
        items = [siblings2(rng, depth + 1, first_para=True) for _ in range(n)]
        if n == 1 and len(items[0]) == 1:
            items[0].append({'k': 'para', 'lines': [frag_line(rng) + '\n']})
    else:
        items = [[{'k': 'para', 'lines': [frag_line(rng) + '\n' for _ in range(rng.randint(1, 2))]}] for _ in range(n)]
    return {'k': 'list', 'ordered': ordered, 'start': rng.choice([1, 1, 2, 7, 10, 0, 999999990]) if ordered else 0,
            'marker': rng.choice('.)') if ordered else rng.choice('-+*'), 'pad': rng.randint(1, 4), 'loose': loose, 'items': items}


def siblings2(rng, depth, first_para=False):
    out = []
    for i in range(rng.randint(1, 3)):
        t = frag_tree2(rng, depth)
        if (i == 0 and first_para) or (out and out[-1]['k'] == 'list' and t['k'] == 'list'):
            t = {'k': 'para', 'lines': [frag_line(rng) + '\n']}
        out.append(t)
    return out


def _depth2(t):
    if t['k'] == 'quote':
        return 1 + max([_depth2(k) for k in t['kids']], default=0)
    if t['k'] == 'list':
        return 1 + max([_depth2(k) for it in t['items'] for k in it], default=0)
    return 1


def frag_tree3(rng, depth, in_quote=False):
    """a tree of the fragment with fenced code blocks and setext headings (Props/C03_Code.lean)"""
    r = rng.random()
    if r < 0.22:
        ch = rng.choice('`~')
        n = rng.randint(3, 5)
        f = ch * n
        other = '~' if ch == '`' else '`'
        ind = rng.choice([0, 0, 0, 1, 2, 3])
        info = rng.choice(['', '', 'py', ' sh x=1', 'c++ \\* &amp;', ' a b ']) if ch == '`' else rng.choice(['', 'py', ' a`b ~x', 'r &copy;'])
        pool = ['x = 1', '', '  indented', '# not a heading', '> not a quote', '- not a list', '*a*', '    four', 'ü', '<b>&',
                f + 'abc', f + ' x', ch * (n - 1), other * n, f + other * 3, ch * (n + 1) + '.', '---', '1. x']
        body = [rng.choice(pool) for _ in range(rng.randint(0, 4))]
        pad = ' ' * rng.choice([0, ind, ind, ind + 2])
        return {'k': 'fence', 'ind': ind, 'delim': f, 'info': info, 'body': [((pad + l) if l else '') + '\n' for l in body],
                'close': ' ' * rng.choice([0, 0, ind, 3]) + ch * rng.choice([n, n, n + 1, n + 3]) + ' ' * rng.choice([0, 0, 2]) + '\n'}
    if r < 0.36 and not in_quote:
        lv = rng.choice([1, 2])
        return {'k': 'setext', 'level': lv, 'lines': [frag_line(rng) + '\n' for _ in range(rng.randint(1, 2))],
                'ul': ' ' * rng.choice([0, 0, 1, 3]) + ('=' if lv == 1 else '-') * rng.choice([1, 2, 3, 5, 9]) + ' ' * rng.choice([0, 0, 2]) + '\n'}
    if r < 0.55 or depth >= 3:
        return {'k': 'para', 'lines': [frag_line(rng) + '\n' for _ in range(rng.randint(1, 3))]}
    if r < 0.62:
        lv = rng.randint(1, 6)
        text = frag_line(rng)
        return {'k': 'heading', 'level': lv, 'text': text, 'line': '#' * lv + ' ' + text + rng.choice(['', '', ' #']) + '\n'}
    if r < 0.67:
        return {'k': 'hr', 'line': rng.choice(['***', '___', '* * *', '_____']) + '\n'}
    if r < 0.76:
        return {'k': 'quote', 'bare': False, 'kids': siblings3(rng, depth + 1, in_quote=True)}
    ordered = rng.random() < 0.4
    loose = rng.random() < 0.5
    n = rng.randint(1, 3)
    if loose:
        items = [siblings3(rng, depth + 1, first_para=rng.random() < 0.6, in_quote=in_quote) for _ in range(n)]
        if n == 1 and len(items[0]) == 1:
            items[0].append({'k': 'para', 'lines': [frag_line(rng) + '\n']})
    else:
        items = [[frag_tree3(rng, 9, in_quote) if rng.random() < 0.3 else {'k': 'para', 'lines': [frag_line(rng) + '\n' for _ in range(rng.randint(1, 2))]}]
                 for _ in range(n)]
    return {'k': 'list', 'ordered': ordered, 'start': rng.choice([1, 1, 2, 7, 10, 0, 999999990]) if ordered else 0,
            'marker': rng.choice('.)') if ordered else rng.choice('-+*'), 'pad': rng.randint(1, 4), 'loose': loose, 'items': items}


def siblings3(rng, depth, first_para=False, in_quote=False):
    out = []
    for i in range(rng.randint(1, 3)):
        t = frag_tree3(rng, depth, in_quote)
        if (i == 0 and first_para) or (out and out[-1]['k'] == 'list' and t['k'] == 'list'):
            t = {'k': 'para', 'lines': [frag_line(rng) + '\n']}
        out.append(t)
    return out


def _has(t, kind):
    if t['k'] == kind:
        return True
    if t['k'] == 'quote':
        return any(_has(k, kind) for k in t['kids'])
    if t['k'] == 'list':
        return any(_has(k, kind) for it in t['items'] for k in it)
    return False


def theorem_unit_code(ctx):
    """`C03_code_html_partial` on the real renderer: forests with fenced code blocks and setext headings"""
    rng3 = ctx.rng('fragment3')
    forests3 = [siblings3(rng3, 0) for _ in range(ctx.budget(2500, 25000))]
    opts3 = [{}, {'html_escape_double_quotes': True}, {'html_escape_single_quotes': True}]
    res3 = common.driver_batch([{'op': 'c03.fragment3', 'forest': f, 'dq': bool(opts3[i % 3].get('html_escape_double_quotes')),
                                 'sq': bool(opts3[i % 3].get('html_escape_single_quotes'))} for i, f in enumerate(forests3)],
                               binary=common.PROPS_DRIVER)
    n_ok = n_f = n_s = 0
    for i, (f, r) in enumerate(zip(forests3, res3)):
        if not (isinstance(r, dict) and r.get('ok')):
            continue
        n_ok += 1
        hf, hs = any(_has(t, 'fence') for t in f), any(_has(t, 'setext') for t in f)
        n_f += hf
        n_s += hs
        try:
            real = impl.parse_render('HtmlRenderer', opts3[i % 3], r['text'])[1]
        except Exception as e:
            real = {'raises': type(e).__name__}
        ctx.compare('c03.theorem.code', {'text': r['text'], 'options': opts3[i % 3]}, r['html'], real,
                    kind=('fence' if hf else '') + ('+setext' if hs else '') or 'neither')
    ctx.notes.append('of %d generated forests with code blocks / setext headings %d satisfy the hypothesis T3.oks (%d with a fenced block, %d with a '
                     'setext heading)' % (len(forests3), n_ok, n_f, n_s))


CELLS = ['alpha', 'b c', 'x', 'AT&T', '3.14', 'a_b', '"q"', 'é', 'k=v', '*', '50%', '(p)', 'end.', '']


def _row(rng, n, lead=None, short_long=False):
    k = n
    if short_long:
        k = rng.choice([n, n, max(1, n - 1), n + 1])
    cells = [' ' * rng.randint(0, 2) + (rng.choice(CELLS) or ' ') + ' ' * rng.randint(0, 2) for _ in range(k)]
    cells = [c if c.strip() or c else ' ' for c in cells]
    lead = rng.random() < 0.7 if lead is None else lead
    trail = lead if rng.random() < 0.8 else not lead
    if not lead:
        cells[0] = cells[0].lstrip(' ') or 'x'
    if not trail:
        cells[-1] = cells[-1].rstrip(' ') or 'y'
    return {'lead': lead, 'trail': trail, 'cells': cells}


def frag_tree4(rng, depth, in_quote=False, first_in_item=False):
    """a tree of the fragment with tables and indented code blocks (Props/C03_Tables.lean)"""
    r = rng.random()
    if r < 0.2:
        n = rng.randint(1, 3)
        lead = rng.random() < 0.7
        dcells = [[rng.randint(0, 2), rng.random() < 0.4, rng.choice([1, 3, 3, 5]), rng.random() < 0.4, rng.randint(0, 2)] for _ in range(n)]
        return {'k': 'table', 'hdr': _row(rng, n, lead), 'del': {'lead': lead or n == 1, 'trail': lead or n == 1, 'cells': dcells},
                'rows': [_row(rng, n, None, True) for _ in range(rng.randint(0, 3))]}
    if r < 0.32 and not first_in_item:
        body = [rng.choice(['code', 'x = 1', '  more', '*not em*', '# h', '- i', '> q', '| a |']) for _ in range(rng.randint(1, 3))]
        lines = []
        for i, b in enumerate(body):
            lines.append('    ' + b + '\n')
            if i + 1 < len(body) and rng.random() < 0.25:
                lines.append(rng.choice(['\n', '\n', '  \n', '      \n']) if depth == 0 and not in_quote else '\n')
        return {'k': 'icode', 'lines': lines}
    t = frag_tree3(rng, 9 if depth >= 3 else depth, in_quote)
    # re-generate the containers with trees of this fragment
    if t['k'] == 'quote':
        t['kids'] = siblings4(rng, depth + 1, in_quote=True)
    elif t['k'] == 'list' and t['loose']:
        t['items'] = [siblings4(rng, depth + 1, first_para=rng.random() < 0.5, in_quote=in_quote, in_item=True) for _ in t['items']]
        if len(t['items']) == 1 and len(t['items'][0]) == 1:
            t['items'][0].append({'k': 'para', 'lines': [frag_line(rng) + '\n']})
    return t


def siblings4(rng, depth, first_para=False, in_quote=False, in_item=False):
    out = []
    for i in range(rng.randint(1, 3)):
        t = frag_tree4(rng, depth, in_quote, first_in_item=(in_item and i == 0)) if depth < 3 else {'k': 'para', 'lines': [frag_line(rng) + '\n']}
        if (i == 0 and first_para) or (out and out[-1]['k'] == 'list' and t['k'] == 'list') or (out and out[-1]['k'] == 'icode' and t['k'] == 'icode'):
            t = {'k': 'para', 'lines': [frag_line(rng) + '\n']}
        out.append(t)
    return out


def theorem_unit_tables(ctx):
    """`C03_table_html_partial` on the real renderer: forests with tables and indented code blocks"""
    rng4 = ctx.rng('fragment4')
    forests4 = [siblings4(rng4, 0) for _ in range(ctx.budget(2500, 25000))]
    opts4 = [{}, {'html_escape_double_quotes': True}, {'html_escape_single_quotes': True}]
    res4 = common.driver_batch([{'op': 'c03.fragment4', 'forest': f, 'dq': bool(opts4[i % 3].get('html_escape_double_quotes')),
                                 'sq': bool(opts4[i % 3].get('html_escape_single_quotes'))} for i, f in enumerate(forests4)],
                               binary=common.PROPS_DRIVER)
    n_ok = n_t = n_c = 0
    for i, (f, r) in enumerate(zip(forests4, res4)):
        if not (isinstance(r, dict) and r.get('ok')):
            continue
        n_ok += 1
        ht, hc = any(_has(t, 'table') for t in f), any(_has(t, 'icode') for t in f)
        n_t += ht
        n_c += hc
        try:
            real = impl.parse_render('HtmlRenderer', opts4[i % 3], r['text'])[1]
        except Exception as e:
            real = {'raises': type(e).__name__}
        ctx.compare('c03.theorem.tables', {'text': r['text'], 'options': opts4[i % 3]}, r['html'], real,
                    kind=('table' if ht else '') + ('+icode' if hc else '') or 'neither')
    ctx.notes.append('of %d generated forests with tables / indented code %d satisfy the hypothesis T4.oks (%d with a table, %d with an indented '
                     'code block)' % (len(forests4), n_ok, n_t, n_c))


def units(ctx):
    theorem_unit_tables(ctx)
    theorem_unit_code(ctx)
    rng2 = ctx.rng('fragment2')
    forests2 = [siblings2(rng2, 0) for _ in range(ctx.budget(2500, 25000))]
    opts2 = [{}, {'html_escape_double_quotes': True}, {'html_escape_single_quotes': True}]
    res2 = common.driver_batch([{'op': 'c03.fragment2', 'forest': f, 'dq': bool(opts2[i % 3].get('html_escape_double_quotes')),
                                 'sq': bool(opts2[i % 3].get('html_escape_single_quotes'))} for i, f in enumerate(forests2)],
                               binary=common.PROPS_DRIVER)
    n_ok2 = n_list = 0
    for i, (f, r) in enumerate(zip(forests2, res2)):
        if not (isinstance(r, dict) and r.get('ok')):
            continue
        n_ok2 += 1
        n_list += any(t['k'] == 'list' for t in f)
        try:
            real = impl.parse_render('HtmlRenderer', opts2[i % 3], r['text'])[1]
        except Exception as e:
            real = {'raises': type(e).__name__}
        ctx.compare('c03.theorem.lists', {'text': r['text'], 'options': opts2[i % 3]}, r['html'], real,
                    kind='depth%d' % max(_depth2(t) for t in f))
    ctx.notes.append('of %d generated forests with lists %d satisfy the hypothesis T2.oks (%d of them contain a list)' % (len(forests2), n_ok2, n_list))
    rng = ctx.rng('fragment')
    forests = []
    for _ in range(ctx.budget(2500, 25000)):
        f = [frag_tree(rng, 0) for _ in range(rng.randint(1, 4))]
        for t in f:
            fix_bare(t)
        forests.append(f)
    opts = [{}, {'html_escape_double_quotes': True}, {'html_escape_single_quotes': True}]
    reqs = [{'op': 'c03.fragment', 'forest': f, 'dq': bool(opts[i % 3].get('html_escape_double_quotes')),
             'sq': bool(opts[i % 3].get('html_escape_single_quotes'))} for i, f in enumerate(forests)]
    res = common.driver_batch(reqs, binary=common.PROPS_DRIVER)
    n_ok = 0
    for i, (f, r) in enumerate(zip(forests, res)):
        if not (isinstance(r, dict) and r.get('ok')):
            continue
        n_ok += 1
        try:
            real = impl.parse_render('HtmlRenderer', opts[i % 3], r['text'])[1]
        except Exception as e:
            real = {'raises': type(e).__name__}
        ctx.compare('c03.theorem', {'text': r['text'], 'options': opts[i % 3]}, r['html'], real,
                    kind='depth%d' % max([_depth(t) for t in f]))
    ctx.notes.append('of %d generated forests of the fragment %d satisfy the theorem hypothesis T.oks' % (len(forests), n_ok))
    texts = [gen(ctx.seed * 7919 + i)[1] for i in range(ctx.budget(1500, 15000))]
    doc_units.run(ctx, texts, configs=doc_units.CONFIGS[:3])


def _depth(t):
    return 1 + max([_depth(k) for k in t['kids']], default=0) if t['k'] == 'quote' else 1


def explore(ctx, seeds):
    base = ctx.seed * 1000003
    n = ctx.budget(2500, 40000)
    cases = [{'seed': base + i, 'nblocks': None if i % 3 else 1 + i % 2} for i in range(n)]
    if ctx.scale > 1:
        cases += [{'seed': base + n + i} for i in range(4000 * ctx.scale)]
    reported = set()
    for c in cases:
        bs, text, _, _ = gen(c['seed'], c.get('nblocks'))
        ctx.explored_case(c, kind='doc', nontrivial=any(b.kind in ('quote', 'list') for b in bs))
        fails, detail = check_witness(c)
        if fails:
            cls = 'adjacent' if adjacent_lists(bs) else 'other'
            if cls in reported and cls == 'adjacent':
                continue
            reported.add(cls)
            ctx.violation(detail, c)
            if len(ctx.violations) >= 8:
                break
    bs, text, _, defs = gen(cases[0]['seed'], cases[0].get('nblocks'))
    ctx.sample({'seed': cases[0]['seed'], 'document': text, 'expected_html': gen_tree.expected_html(bs, defs)})
