"""
C03 — documents built from Markdown constructs parse to the tree they were built from.

Exploration: a seeded grammar (harness/gen_tree.py) produces a tree of CommonMark/GFM constructs,
writes it in one of the spellings the specification allows for that tree, and - independently -
the HTML the specification assigns to the tree; the implementation's HTML must be equivalent under
the specification's own test normalisation.
"""
import random

import common
import gen_tree
import impl
import specnorm

ID = 'C03'
LEVEL = 'exploration'
RULE = ('trees of up to depth 4 / ~40 blocks (paragraphs, ATX and setext headings, thematic breaks, fenced and indented code, '
        'block quotes, tight and loose bullet/ordered lists, tables, HTML blocks, link definitions; emphasis, strong, '
        'strikethrough, code spans, inline/reference links, images, autolinks, hard and soft breaks, escapes, character '
        'references, raw inline HTML) x free spellings (markers, 0-3 spaces of indent, marker padding 1-4, fence char and '
        'length, closing #s, > with/without space, lazy continuation, omitted blank lines where a block may interrupt a '
        'paragraph, blank first line of list items, placement of definitions). Distinct by document; non-trivial when the '
        'tree has a container')
TRUSTED = ['harness/gen_tree.py (writer and expected-HTML writer) and harness/specnorm.py are the oracle, written from the specification']
ASSUMPTIONS = ['spellings are restricted to those for which the specification unambiguously denotes the tree (the writer\'s '
               'admissibility rules)']
PARTIAL = ['interim level: generator-with-oracle exploration. The compositional Lean proof (leaf lemmas + wrap/concatenation '
           'laws over the parser model) is the planned upgrade']


def opts(seed=0):
    # every third case writes some inline constructs directly next to each other ("wow!`x`[a](b)")
    return gen_tree.Opts(glue=(seed % 3 == 2))


def gen(seed, nblocks=None):
    rng = random.Random(seed)
    return gen_tree.generate(rng, opts(seed), nblocks)


def adjacent_lists(bs):
    for a, b in zip(bs, bs[1:]):
        if a.kind == 'list' and b.kind == 'list':
            return True
    for b in bs:
        if b.kind == 'quote' and adjacent_lists(b.kids):
            return True
        if b.kind == 'list' and any(adjacent_lists(it.kids) for it in b.items):
            return True
    return False


def table_first_in_later_item(bs):
    for b in bs:
        if b.kind == 'list':
            for k, it in enumerate(b.items):
                if k > 0 and it.kids and it.kids[0].kind == 'table':
                    return True
                if table_first_in_later_item(it.kids):
                    return True
        elif b.kind == 'quote' and table_first_in_later_item(b.kids):
            return True
    return False


def check_witness(w):
    if 'text' in w:            # explicit witness (known findings): document + the HTML of its tree
        text, exp_fixed = w['text'], w['expected_html']
        out = impl.parse_render('HtmlRenderer', {'html_escape_double_quotes': True}, text)[1]
        if specnorm.normalize(out) != specnorm.normalize(exp_fixed):
            return True, 'document %r renders as %r, its tree is %r' % (text, out, exp_fixed)
        return False, 'ok'
    bs, text, deflist, defs = gen(w['seed'], w.get('nblocks'))
    try:
        out = impl.parse_render('HtmlRenderer', {'html_escape_double_quotes': True}, text)[1]
    except Exception as e:
        return True, 'raised %s: %s on generated document %r' % (type(e).__name__, e, text)
    exp = gen_tree.expected_html(bs, defs)
    a, b = specnorm.normalize(out), specnorm.normalize(exp)
    if a != b:
        i = next((i for i, (x, y) in enumerate(zip(a, b)) if x != y), min(len(a), len(b)))
        return True, ('the document written from the tree does not parse back to it: first difference at %d: got …%r expected …%r; '
                      'document %r' % (i, a[max(0, i - 40):i + 60], b[max(0, i - 40):i + 60], text))
    return False, 'ok'


def matches_known(v, finding):
    w = v['witness']
    if 'text' in w:
        return False
    bs, text, _, _ = gen(w['seed'], w.get('nblocks'))
    if finding.get('class') == 'adjacent-lists-looseness':
        return adjacent_lists(bs)
    return False


def finding_still_fails(finding):
    return check_witness(finding['witness'])[0]


def units(ctx):
    pass


def explore(ctx, seeds):
    base = ctx.seed * 1000003
    n = ctx.budget(2500, 40000)
    cases = [{'seed': base + i, 'nblocks': None if i % 3 else 1 + i % 2} for i in range(n)]
    if ctx.scale > 1:
        cases += [{'seed': base + n + i} for i in range(4000 * ctx.scale)]
    reported = set()
    for c in cases:
        bs, text, _, _ = gen(c['seed'], c.get('nblocks'))
        ctx.explored_case(c, kind='doc', nontrivial=any(b.kind in ('quote', 'list') for b in bs))
        fails, detail = check_witness(c)
        if fails:
            cls = 'adjacent' if adjacent_lists(bs) else 'other'
            if cls in reported and cls == 'adjacent':
                continue
            reported.add(cls)
            ctx.violation(detail, c)
            if len(ctx.violations) >= 8:
                break
    bs, text, _, defs = gen(cases[0]['seed'], cases[0].get('nblocks'))
    ctx.sample({'seed': cases[0]['seed'], 'document': text, 'expected_html': gen_tree.expected_html(bs, defs)})
