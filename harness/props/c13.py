"""
C13 — every block token reports the source line on which it starts.

Exploration: documents written from generated trees (harness/gen_tree.py); the writer knows the line
on which it put each block; compared with token.line_number at every depth, under the Html and the
Markdown token sets.
"""
import random

import common
import gen_tree
import impl

ID = 'C13'
LEVEL = 'exploration'
RULE = ('documents from the tree generator (all block kinds, containers nested to depth 4, list items that begin with a blank '
        'line, lazy continuation lines, link definitions before and between blocks, leading blank lines, omitted blank lines '
        'before interrupting blocks) x {Html, Markdown} token sets. Distinct by document; non-trivial when a block sits '
        'inside a container')
TRUSTED = ['harness/gen_tree.py records the line of every block as it writes it']
ASSUMPTIONS = ['compared only when the sequence of block kinds in the parse equals the generated one (a structural difference '
               'is C03\'s business)']
PARTIAL = ['interim level: generator-with-oracle exploration. The Lean proof with ghost line origins over the block-parser '
           'model (C13_buffer_origin, C13_line_numbers) is the planned upgrade']


def gen(seed, nblocks=None):
    return gen_tree.generate(random.Random(seed), gen_tree.Opts(), nblocks)


def check_witness(w):
    bs, text, _, _ = gen(w['seed'], w.get('nblocks'))
    exp = gen_tree.expected_lines(bs)
    for rname in ('HtmlRenderer', 'MarkdownRenderer'):
        try:
            doc = impl.parse_only(rname, {}, text)
        except Exception as e:
            return False, 'raised %s (C01)' % type(e).__name__
        got = gen_tree.actual_lines(doc)
        if [k for k, _ in got] != [k for k, _ in exp]:
            continue        # structure differs: C03
        for (k, a), (_, e) in zip(got, exp):
            if a != e:
                return True, ('a %s that starts on line %d reports line_number %d (token set of %s); document %r' % (k, e, a, rname, text))
    return False, 'ok'


def matches_known(v, finding):
    return False


def finding_still_fails(finding):
    return check_witness(finding['witness'])[0]


def units(ctx):
    pass


def explore(ctx, seeds):
    base = ctx.seed * 1000003 + 17
    n = ctx.budget(2500, 40000)
    cases = [{'seed': base + i, 'nblocks': None if i % 3 else 1 + i % 2} for i in range(n)]
    if ctx.scale > 1:
        cases += [{'seed': base + n + i} for i in range(4000 * ctx.scale)]
    for c in cases:
        bs, text, _, _ = gen(c['seed'], c.get('nblocks'))
        ctx.explored_case(c, kind='doc', nontrivial=any(b.kind in ('quote', 'list') for b in bs))
        fails, detail = check_witness(c)
        if fails:
            ctx.violation(detail, c)
            if len(ctx.violations) >= 8:
                break
    bs, text, _, _ = gen(cases[0]['seed'], cases[0].get('nblocks'))
    ctx.sample({'seed': cases[0]['seed'], 'document': text, 'expected_lines': gen_tree.expected_lines(bs)[:12]})
