"""
C13 — every block token reports the source line on which it starts.

Theorems (lean/Mistletoe/Props/C13.lean) over the block-parser model with ghost line origins.
Units: `scan.*` (every hand-written scanner against the compiled pattern objects of the working
tree) and `block.buffer` (the real tokenize_block - parse buffer with line numbers at every depth,
looseness, definitions - against `Block.blockPhase` under four token sets, on the spec corpus,
generated trees, random and malformed documents).
Exploration: documents written from generated trees (harness/gen_tree.py); the writer knows the line
on which it put each block; compared with token.line_number at every depth, under the Html and the
Markdown token sets (this is also what covers TableRow/TableCell/ListItem constructors).
Failing-input search when a unit disagrees: a text on which the code builds the parse buffer the model builds, except
for line numbers, is a failing input (the model's numbers are proved to be the true first lines).
"""
import random

import block_units
import doc_units
import common
import gen_docs
import gen_tree
import impl
import scan_units

ID = 'C13'
RULE = ('documents from the tree generator (all block kinds, containers nested to depth 4, list items that begin with a blank '
        'line, lazy continuation lines, link definitions before and between blocks, leading blank lines, omitted blank lines '
        'before interrupting blocks) x {Html, Markdown} token sets. Distinct by document; non-trivial when a block sits '
        'inside a container')
TRUSTED = ['harness/gen_tree.py records the line of every block as it writes it']
ASSUMPTIONS = ['compared only when the sequence of block kinds in the parse equals the generated one (a structural difference '
               'is C03\'s business)']
PARTIAL = ['the model returns err .fuel when its call-chain budget runs out; the theorems are about returned results (C01 proves '
           'that with enough gas a result is returned)',
           'the token constructors are covered at the model level (C13_constructors_copy, C13_document_line_numbers: every block '
           'of Document(lines) at every depth, list items, table rows and cells included, reports the ghost origin of its first '
           'line); that the model constructors are the code is the doc correspondence (token tree with line numbers) and the '
           'exploration on generated trees']
EXTRA_MODULES = ['Mistletoe.Proofs.DocLines']


def gen(seed, nblocks=None):
    return gen_tree.generate(random.Random(seed), gen_tree.Opts(), nblocks)


def _strip_numbers(buf):
    """the parse buffer in block_units' canonical JSON with every line number removed"""
    entries, loose = buf
    out = []
    for name, payload, _ln in entries:
        if name == 'Quote':
            payload = _strip_numbers(payload)
        elif name == 'List':
            payload = [[_strip_numbers(m[0]), m[1], m[2], m[3]] for m in payload]
        elif name == 'Table':
            payload = [payload[0]]
        out.append([name, payload])
    return [out, loose]


def _model_oracle(w):
    """A text on which model and code build the SAME parse buffer except for line numbers: the model's numbers are
    the true ones (C13_line_numbers: every entry reports the origin of its first line), so the code's are wrong."""
    lines = block_units.lines_of(w['text'])
    res, types = block_units.real_block_phase(w.get('renderer') or 'HtmlRenderer', w.get('kwargs') or {}, lines)
    m = common.driver_batch([{'op': 'block.parse', 'types': types, 'lines': lines, 'fuel': 1000000}])[0]
    if not (isinstance(m, dict) and 'buffer' in m and 'buffer' in res):
        return False, 'no buffer on one side'
    if m['buffer'] == res['buffer'] or _strip_numbers(m['buffer']) != _strip_numbers(res['buffer']):
        return False, 'ok'
    return True, ('the parse buffer of %r has the structure the model computes but other line numbers: the code reports %s, the '
                  'true first lines (model, C13_line_numbers) are %s' % (w['text'], res['buffer'], m['buffer']))


def check_witness(w):
    if 'text' in w:
        return _model_oracle(w)
    bs, text, _, _ = gen(w['seed'], w.get('nblocks'))
    exp = gen_tree.expected_lines(bs)
    for rname in ('HtmlRenderer', 'MarkdownRenderer'):
        try:
            doc = impl.parse_only(rname, {}, text)
        except Exception as e:
            return False, 'raised %s (C01)' % type(e).__name__
        got = gen_tree.actual_lines(doc)
        if [k for k, _ in got] != [k for k, _ in exp]:
            continue        # structure differs: C03
        for (k, a), (_, e) in zip(got, exp):
            if a != e:
                return True, ('a %s that starts on line %d reports line_number %d (token set of %s); document %r' % (k, e, a, rname, text))
    return False, 'ok'


def matches_known(v, finding):
    return False


def finding_still_fails(finding):
    return check_witness(finding['witness'])[0]


def units(ctx):
    scan_units.run(ctx)
    rng = ctx.rng('block.buffer')
    texts = list(gen_docs.spec_texts())
    for i in range(ctx.budget(1200, 12000)):
        texts.append(gen_tree.generate(random.Random(ctx.seed * 7919 + i), gen_tree.Opts())[1])
    texts += [gen_docs.random_doc(rng) for _ in range(ctx.budget(1200, 12000))]
    texts += [gen_docs.mutate(rng, rng.choice(texts[:652])) for _ in range(ctx.budget(600, 6000))]
    texts += [gen_docs.malformed(rng) for _ in range(ctx.budget(300, 3000))]
    block_units.run(ctx, texts)
    # the token constructors (ListItem, Table, TableRow, TableCell copy the buffer's numbers): whole token tree with line numbers
    doc_units.run(ctx, texts[652:652 + ctx.budget(1500, 15000)], configs=[doc_units.CONFIGS[0], doc_units.CONFIGS[7]])


def explore(ctx, seeds):
    # inputs on which a correspondence unit disagreed: is it the line numbers?
    if ctx.lean is not None and ctx.lean.build_ok and not [b for b in ctx.lean.bad if b.startswith('audit')]:
        for sd in seeds[:40]:
            if isinstance(sd, dict) and 'text' in sd:
                w = {'text': sd['text'], 'renderer': sd.get('renderer'), 'kwargs': sd.get('kwargs') or {}}
                try:
                    fails, detail = _model_oracle(w)
                except Exception:
                    continue
                if fails:
                    ctx.violation(detail, w)
    base = ctx.seed * 1000003 + 17
    n = ctx.budget(2500, 40000)
    cases = [{'seed': base + i, 'nblocks': None if i % 3 else 1 + i % 2} for i in range(n)]
    if ctx.scale > 1:
        cases += [{'seed': base + n + i} for i in range(4000 * ctx.scale)]
    for c in cases:
        bs, text, _, _ = gen(c['seed'], c.get('nblocks'))
        ctx.explored_case(c, kind='doc', nontrivial=any(b.kind in ('quote', 'list') for b in bs))
        fails, detail = check_witness(c)
        if fails:
            ctx.violation(detail, c)
            if len(ctx.violations) >= 8:
                break
    bs, text, _, _ = gen(cases[0]['seed'], cases[0].get('nblocks'))
    ctx.sample({'seed': cases[0]['seed'], 'document': text, 'expected_lines': gen_tree.expected_lines(bs)[:12]})
