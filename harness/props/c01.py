"""
C01 — parsing and rendering are total and terminate for every input.

Theorems (lean/Mistletoe/Props/C01.lean; lemmas in Proofs/BlockTotal.lean, Proofs/DocTotal.lean, Proofs/CoreTotal.lean)
over the parser model, in which every Python raise site is an explicit error value and every loop that is not
structural takes fuel:
  * `C01_block_no_raise`: for every token-type list, gas and list of complete lines (what Document(str) produces:
    `C01_block_document`), the block phase returns no error other than running out of gas - none of the IndexError /
    TypeError / StopIteration / UnboundLocalError sites of block_token.py / block_tokenizer.py is reachable;
  * `C01_block_terminates`: with gas above an explicit closed-form bound in the weighted text length the block phase
    returns a result (no inner loop fuel and no nesting gas runs out), and more gas never changes it
    (`C01_block_gas_mono`, `C01_block_gas_irrelevant`);
  * the Document-level and inline theorems listed in the evidence;
  * Props/C01_Renderers.lean (lemmas in Proofs/MdTotal.lean, Proofs/ContribTotal.lean): parse-and-render with the Markdown
    renderer (every option set), the Jira renderer and the XWiki renderer returns a string for every text - no render-map
    KeyError, no IndexError on empty containers, no TypeError on tables/links - and each renderer model raises on a TREE
    exactly outside a decidable shape predicate that every parsed document satisfies.
Units: `scan.*`, `block.buffer` and `doc` - the real tokenize_block / Document(text) / HtmlRenderer against the model
(result or exception kind) on this run's random, mutated, malformed, truncated and deeply nested inputs; `md.render`,
`jira.render`, `xwiki.render` (+ `.tree`): the three renderer models against the real renderers, byte for byte.
Exploration on the implementation: every bundled renderer configuration (boolean options, max_line_length) on random
documents, mutations of the spec corpus, a malformed stream, exhaustive small-alphabet strings and line sequences,
deep nesting up to depth 100; any exception other than the two documented refusals, and any parse+render over the
wall-clock budget, is a violation.
"""
import io
import itertools

import block_units
import common
import contrib_units
import doc_units
import md_units
import gen_docs
import impl
import scan_units

ID = 'C01'
EXTRA_MODULES = ['Mistletoe.Proofs.BlockTotal', 'Mistletoe.Proofs.MdTotal', 'Mistletoe.Proofs.ContribTotal', 'Mistletoe.Proofs.HtmlFamilyTotal']
RULE = ('random documents, spec mutations/splices, malformed Unicode stream, exhaustive strings over {a,space,*,_,.,[,],`} '
        'and exhaustive line sequences over a 14-line vocabulary, deep nesting (quotes, lists, brackets, emphasis) to depth '
        '100; x the 11 bundled renderers x their boolean options x max_line_length in {None,0,1,2,40}; supplied as str, '
        'list of lines or file object. Distinct by (input, configuration); non-trivial when the input has >= 2 '
        'Markdown-significant characters')
TRUSTED = ['per-input wall-clock budget enforced with SIGALRM (10 s for <= 4 KB)', 'Pygments itself is exercised, not modelled']
ASSUMPTIONS = ['admissible failures: RuntimeError from LaTeX inline code without a free \\\\verb delimiter; pygments ClassNotFound '
               'with fail_on_unsupported_language=True; RecursionError only beyond nesting depth 100']
PARTIAL = ['the theorems cover the parser (block phase, token constructors, inline phase) and the Html, Markdown, Jira, XWiki and LaTeX '
           'renderers (C01_html_total, C01_markdown_total, C01_jira_total, C01_xwiki_total, C01_latex_total_or_refusal) and the HTML '
           'family (C01_html_family_total: Html with / without process_html_tokens, Toc, GithubWiki, MathJax - every parsed document holds '
           'only tokens the renderer has a render method for; Pygments exactly when there is no code block); the Ast renderer is a total '
           'Lean function by construction of its model (get_ast has no raise site), its totality on the implementation is explored; '
           'Pygments is not modelled',
           'wall-clock termination and the interpreter recursion limit are runtime behaviour: measured on the '
           'implementation (depth <= 100), represented in the model by the gas bound']


def configs(ctx):
    cs = [('HtmlRenderer', kw) for kw in impl.HTML_OPTION_SETS]
    for L in (None, 0, 1, 2, 40):
        for nw in (False, True):
            cs.append(('MarkdownRenderer', {'max_line_length': L, 'normalize_whitespace': nw}))
    cs += [('LaTeXRenderer', {}), ('AstRenderer', {}), ('JiraRenderer', {}), ('XWiki20Renderer', {}), ('GithubWikiRenderer', {}),
           ('MathJaxRenderer', {}), ('TocRenderer', {}), ('TocRenderer', {'depth': 2, 'omit_title': False}),
           ('PygmentsRenderer', {}), ('PygmentsRenderer', {'fail_on_unsupported_language': True}),
           ('GithubWikiRenderer', {'html_escape_double_quotes': True}), ('MathJaxRenderer', {'process_html_tokens': False})]
    return cs


def admissible(rname, kw, e):
    n = type(e).__name__
    if rname == 'LaTeXRenderer' and n == 'RuntimeError' and 'delimiter' in str(e):
        return True
    if rname == 'PygmentsRenderer' and kw.get('fail_on_unsupported_language') and n == 'ClassNotFound':
        return True
    return False


def run(rname, kw, inp, budget=10):
    impl.parse_render(rname, kw, inp, timeout=budget)


def check_witness(w):
    rname, kw, text = w['renderer'], w['kwargs'], w['text']
    form = w.get('form', 'str')
    inp = text if form == 'str' else (text.splitlines(keepends=True) if form == 'list' else io.StringIO(text))
    try:
        run(rname, kw, inp)
    except impl.Timeout as e:
        return True, '%s%r did not finish within the budget on %r' % (rname, kw, text[:300])
    except RecursionError as e:
        if w.get('depth', 0) > 100:
            return False, 'recursion limit beyond depth 100'
        return True, '%s%r hit the recursion limit on an input nested %d deep: %r' % (rname, kw, w.get('depth', 0), text[:200])
    except Exception as e:
        if admissible(rname, kw, e):
            return False, 'documented refusal'
        return True, '%s%r raised %s: %s on %r' % (rname, kw, type(e).__name__, e, text[:300])
    return False, 'ok'


def matches_known(v, finding):
    return False


def finding_still_fails(finding):
    return check_witness(finding['witness'])[0]


LINES = ['', 'a', '> a', '>', '- a', '-', '    a', '# a', '```', '---', '| a |', '|-|', '[a]: /b', '<div>', '1. a', '  a', '***', '=']


def nested(depth, kind):
    if kind == 'quote':
        return '>' * depth + ' a\n'
    if kind == 'list':
        return ''.join(' ' * (2 * i) + '- a\n' for i in range(depth))
    if kind == 'bracket':
        return '[' * depth + 'a' + ']' * depth + '\n'
    if kind == 'emph':
        return '*a ' * depth + 'b' + '*' * depth + '\n'
    if kind == 'altlist':
        # nested lists whose sibling markers alternate: every level ends with an item of another marker type
        return ''.join(' ' * (2 * i) + '- a\n' + ' ' * (2 * i) + '+ b\n' for i in range(depth))
    if kind == 'altlist2':
        return ''.join(' ' * (3 * i) + '1. a\n' + ' ' * (3 * i) + '1) b\n' for i in range(depth))
    if kind == 'mixed':
        return ''.join('> ' * i + ' ' * 0 + '- ' * 0 + 'a\n' for i in range(depth))
    return 'a\n'


def _cases(ctx):
    rng = ctx.rng('cases')
    cs = configs(ctx)
    cases = []
    texts = gen_docs.corpus_stream(rng, ctx.budget(600, 8000), only_lf=False)
    texts += [gen_docs.malformed(rng) for _ in range(ctx.budget(150, 2000))]
    texts += ['**a****b*', '>', '-', '> ', '1.', '```', '|', '[', '![', '`', '\\', '<', '&', '*', '_', '\t', '- \n  \n', '>\n>',
              '| |\n|-|\n', '[a]:', '***\n---\n===\n', '    \n', '\n\n\n', '#', '# #', '<!--', '<?', '<![CDATA[', '</', '<a']
    for i, t in enumerate(texts):
        for (rn, kw) in ([cs[i % len(cs)], cs[(i * 7 + 3) % len(cs)], cs[(i * 13 + 5) % len(cs)]] if not ctx.thorough else cs):
            cases.append({'renderer': rn, 'kwargs': kw, 'text': t, 'form': ['str', 'str', 'list', 'file'][i % 4]})
    # every prefix and every suffix of every spec example: truncation leaves constructs unclosed at the
    # end of the text, where unguarded index accesses live
    for e in gen_docs.spec_examples():
        md = e['markdown']
        if not ctx.thorough and len(md) > 120:
            continue
        for k in range(1, len(md)):
            cases.append({'renderer': 'HtmlRenderer', 'kwargs': {}, 'text': md[:k]})
            if k % 3 == 0:
                cases.append({'renderer': cs[k % len(cs)][0], 'kwargs': cs[k % len(cs)][1], 'text': md[k:]})
    # corner inputs under every configuration
    for t in ['>', '-', '> \n', '-\n', '*\n', '1.\n', '- \n- \n', '> > \n', '>\n\n>', '|a|\n|-|\n', '', '\n']:
        for rn, kw in cs:
            cases.append({'renderer': rn, 'kwargs': kw, 'text': t})
    # exhaustive small alphabets under the Html renderer
    alpha = ['a', ' ', '*', '_', '.', '[', ']', '`']
    n = 5 if not ctx.thorough else 6
    for k in range(1, n + 1):
        for tup in itertools.product(alpha, repeat=k):
            cases.append({'renderer': 'HtmlRenderer', 'kwargs': {}, 'text': ''.join(tup)})
    emph = ['a', '*', '_', ' ']
    for k in range(6, (9 if not ctx.thorough else 11)):
        for tup in itertools.product(emph, repeat=k):
            s = ''.join(tup)
            if s.count('*') + s.count('_') >= 4:
                cases.append({'renderer': 'HtmlRenderer', 'kwargs': {}, 'text': s})
    for k in range(1, (3 if not ctx.thorough else 4) + 1):
        for tup in itertools.product(LINES, repeat=k):
            cases.append({'renderer': ['HtmlRenderer', 'MarkdownRenderer', 'XWiki20Renderer', 'JiraRenderer'][len(cases) % 4],
                          'kwargs': {}, 'text': '\n'.join(tup) + '\n'})
    # characters that Python's regex classes accept beyond ASCII: decimal digits of other scripts in the places of ASCII digits
    # (\d matches them, [0-9] does not - two patterns that must agree may not), Unicode spaces in the places of spaces
    digit_sets = ['٠١٢٣٤٥٦٧٨٩', '０１２３４５６７８９', '०१२३४५६७८९']
    tmpl = ['1. a\n', '2) b\n', '> 1. a\n', '- 1. a\n  2. b\n', '1.\n', '10. x\n    y\n', 'a\n1. b\n', '   3. c\n3. d\n', '1. a\n\n   2. b\n',
            '&#35; &#x23;\n', '| 1 |\n|---|\n| 2 |\n', '1986\\. ok\n', '```1\nx\n```\n', '# 1\n', '[1]: /u\n\n[1]\n']
    for t in tmpl:
        for ds in digit_sets:
            u = ''.join(ds[int(c)] if c.isdigit() and c.isascii() else c for c in t)
            mixed = ''.join((ds[int(c)] if (c.isdigit() and c.isascii() and i % 2) else c) for i, c in enumerate(t))
            for v in (u, mixed, u.replace(' ', '\u2003', 1), u.replace(' ', '\xa0', 1)):
                for rn, kw in cs[:1] + [cs[(len(cases) * 7 + 3) % len(cs)]]:
                    cases.append({'renderer': rn, 'kwargs': kw, 'text': v})
    # long runs of one significant character, alone and inside the line shapes the block patterns look at (a pattern that
    # backtracks exponentially on such a run hangs here; ordinary inputs never contain a run of this length)
    for ch in '-=*_`~[]()<>!#|:&\\+.0 \t':
        for n in (48, 200):
            run = ch * n
            for t in (run + '\n', run + 'x\n', 'a | b\n' + run + ' | =\n', '| ' + run + ' |\n|' + run + '\n', '> ' + run + ' x\n', '- ' + run + '\n  ' + run + 'y\n',
                      'a\n' + run + ' z\n', '[' + run + ']: ' + run + '\n', '<' + run + '\n', '`' + run + '\n', ('a' + ch) * n + '\n'):
                cases.append({'renderer': 'HtmlRenderer', 'kwargs': {}, 'text': t})
                if n == 48:
                    cases.append({'renderer': 'MarkdownRenderer', 'kwargs': {'max_line_length': 20}, 'text': t})
    for depth in (10, 50, 100):
        for kind in ('quote', 'list', 'bracket', 'emph', 'mixed', 'altlist', 'altlist2'):
            for rn, kw in (cs if depth == 100 and not kind.startswith('alt') else cs[:3]):
                cases.append({'renderer': rn, 'kwargs': kw, 'text': nested(depth, kind), 'depth': depth})
    # deep containers FOLLOWED BY lines without markers (lazy continuation of the innermost paragraph) or by shallower lines:
    # whatever a container reader does per such line is multiplied by the depth - or, done recursively, by much more
    for depth in (8, 16, 30, 100):
        for kind in ('quote', 'list', 'mixed'):
            for k in (1, 5, 10):
                for tail in ('b\n', '> b\n', '  b\n', '>\n'):
                    if tail != 'b\n' and k != 5:
                        continue
                    cases.append({'renderer': 'HtmlRenderer', 'kwargs': {}, 'text': nested(depth, kind) + tail * k, 'depth': depth})
    return cases


def units(ctx):
    scan_units.run(ctx)
    rng = ctx.rng('units')
    texts = gen_docs.corpus_stream(rng, ctx.budget(1500, 15000), only_lf=False)
    texts += [gen_docs.malformed(rng) for _ in range(ctx.budget(400, 4000))]
    texts += ['**a****b*', '>', '-', '> ', '1.', '```', '|', '[', '![', '`', '\\', '<', '&', '*', '_', '\t', '- \n  \n', '>\n>',
              '| |\n|-|\n', '[a]:', '***\n---\n===\n', '    \n', '\n\n\n', '#', '# #', '<!--', '<?', '<![CDATA[', '</', '<a', '<!', '<!\n']
    for e in gen_docs.spec_examples()[::3]:
        md = e['markdown']
        texts += [md[:k] for k in range(1, len(md), 2)]
    for depth in (10, 40):
        for kind in ('quote', 'list', 'bracket', 'emph', 'mixed'):
            texts.append(nested(depth, kind))
    block_units.run(ctx, texts[::2])
    doc_units.run(ctx, texts)
    md_units.run(ctx, texts[1::2])
    contrib_units.run(ctx, texts)


def explore(ctx, seeds):
    cases = _cases(ctx)
    if ctx.scale > 1:
        rng = ctx.rng('deep')
        cs = configs(ctx)
        for t in gen_docs.corpus_stream(rng, 3000 * ctx.scale, only_lf=False):
            cases.append({'renderer': rng.choice(cs)[0], 'kwargs': {}, 'text': t})
    seen = set()
    for c in cases:
        ctx.explored_case(c, kind=c['renderer'], nontrivial=sum(ch in '*_`[]<>#-|\\&' for ch in c['text']) >= 2)
        fails, detail = check_witness(c)
        if fails:
            key = detail.split(' on ')[0]
            if key in seen and len(ctx.violations) >= 3:
                continue
            seen.add(key)
            ctx.violation(detail, c)
            if len(ctx.violations) >= 10:
                break
    ctx.sample(cases[0])
