"""
C17 — LaTeX output keeps its group/environment structure whatever the text says.

Units: `py.latex.raw_text`, `py.latex.escape_url` (every code point singly + random strings against
the per-character model built from the regenerated tables), `render.latex` (real LaTeXRenderer
output vs `flat (renderDoc …)` on parser ASTs and on hostile edited ASTs).
Exploration: latexcheck (the executable form of the predicate) on real output for
special-character-rich documents, verbatim regions replaced by placeholders before rendering.
"""
import sys

import common
import export
import gen_docs
import impl
import latexcheck
from common import driver_batch

ID = 'C17'
EXTRA_MODULES = ['Mistletoe.Proofs.Latex', 'Mistletoe.Proofs.LatexEndToEnd']
RULE = ('documents from the spec corpus, mutations, random documents and templates rich in $ # { } & _ % ^ \\\\ in text, '
        'link targets, image sources, titles and info strings; token trees additionally edited to carry such strings '
        'in every string attribute; escapers over single code points and random strings. Distinct by text; '
        'non-trivial when the document contains a LaTeX-special character')
TRUSTED = ['harness/latexcheck.py is the executable reading of the predicate used on implementation output',
           'verbatim regions (\\\\verb, lstlisting body, math) are set aside by placeholders before rendering']
ASSUMPTIONS = ['URL arguments of \\\\href/\\\\url/\\\\includegraphics are a leaf kind of their own (hyperref reads them '
               'verbatim-like): obligation = no brace, no backslash except \\\\% and \\\\#, no raw % or #',
               'math spans ($...$) are passed through by design and set aside']
PARTIAL = []

SPECIALS = ['$', '#', '{', '}', '&', '_', '%', '^', '\\', '\\\\', '\\{', '}{', '{}', '$$', '%%', '~', '\\begin{x}', '\\end{document}',
            '\\verb|x|', 'a_b', 'x^2', '50%', '#1', '&amp;', '\\textbf{', '}}', '{{', '\\', '\\ ']
# compatibility look-alikes of the LaTeX specials (fullwidth and small forms): NFKC folds them to the ASCII character, so an
# output stage that normalises AFTER escaping turns them into active specials; on their own they are ordinary letters
SPECIALS += ['＄', '＃', '％', '＆', '＿', '＾', '＼', '｛', '｝', '﹛', '﹜', '﹩', '﹪', '﹟', '﹠', '﹨', '100％', 'a＿b', '｝｛']
WORDS = ['foo', 'bar', 'a', 'b c', 'é', '中', 'x.y', 'path/to', 'http://u.v/w']


def _template_payloads():
    """format fields named as in the renderers' own source, positional / %-style fields, back-references: dangerous only when
    text is pasted into a template that is expanded again (see harness/props/c08.py)"""
    import re as _re
    names = set()
    for f in list((common.REPO / 'mistletoe').glob('*.py')) + list((common.REPO / 'mistletoe' / 'contrib').glob('*.py')):
        try:
            names.update(_re.findall(r'\{(\w{1,12})\}', f.read_text()))
        except OSError:
            pass
    return ['{0}', '{{', '}}', '%s', '%(inner)s', '\\1', '\\g<0>', '{0.__class__}'] + ['{%s}' % n for n in sorted(names)]


SPECIALS += _template_payloads()


def special(rng, k=3):
    return ''.join(rng.choice(SPECIALS + WORDS) for _ in range(rng.randint(1, k)))


def nosp(s, bad):
    for b in bad:
        s = s.replace(b, '')
    return s


def special_doc(rng):
    used = []

    def sp():
        # now and then the SAME string again in another syntactic role of the same document (code span then text, text then
        # URL, ...): a renderer that remembers how it treated a string once must not reuse that treatment elsewhere
        if used and rng.random() < 0.3:
            return rng.choice(used)
        x = special(rng)
        used.append(x)
        return x
    atoms = [
        sp,
        lambda: '*%s*' % sp(), lambda: '**%s**' % sp(), lambda: '~~%s~~' % nosp(sp(), '~'),
        lambda: '`%s`' % nosp(sp(), '`'),
        lambda: '[%s](<%s>)' % (nosp(sp(), '[]'), nosp(sp(), '<>\n')),
        lambda: '[%s](%s)' % (nosp(sp(), '[]'), nosp(sp(), ' ()<>')),
        lambda: '![%s](<%s> "%s")' % (nosp(sp(), '[]'), nosp(sp(), '<>\n'), nosp(sp(), '"')),
        lambda: '![i](%s)' % nosp(sp(), ' ()<>'),
        lambda: '<http://%s>' % nosp(sp(), ' <>'),
        lambda: '<a%s@b.c>' % rng.choice(['', '{', '}', '$', '^', '%', '#', '_', '&']),
        lambda: '\\' + rng.choice('\\{}$#&_%^~*['),
        lambda: '$%s$' % nosp(sp(), '$'),
        lambda: '[r%d]' % rng.randint(0, 1)]
    lines = []
    for _ in range(rng.randint(1, 5)):
        r = rng.random()
        line = ' '.join(rng.choice(atoms)() for _ in range(rng.randint(1, 4)))
        if r < 0.15:
            lines += ['```%s' % nosp(sp(), '`\n'), line, '```']
        elif r < 0.25:
            lines += ['| a | %s |' % nosp(sp(), '|'), '|---|:-:|', '| %s | b |' % nosp(line, '|')]
        elif r < 0.35:
            lines += ['#' * rng.randint(1, 4) + ' ' + line]
        elif r < 0.45:
            lines += ['> ' + line, '']
        elif r < 0.55:
            lines += [rng.choice(['- ', '1. ']) + line, '']
        elif r < 0.62:
            lines += ['    ' + line, '']
        else:
            lines += [line, '']
    for k in range(2):
        if rng.random() < 0.5:
            lines += ['', '[r%d]: <%s> "%s"' % (k, nosp(sp(), '<>\n'), nosp(sp(), '"'))]
    return '\n'.join(lines) + '\n'


def walk(tok):
    yield tok
    for c in (tok.children or []):
        yield from walk(c)
    if 'header' in vars(tok):
        yield from walk(tok.header)


def edit_tree(rng, doc):
    for t in walk(doc):
        name = type(t).__name__
        for attr in ('target', 'src', 'title', 'language'):
            if attr in vars(t) and isinstance(getattr(t, attr), str) and rng.random() < 0.5 and name != 'BlockCode':
                setattr(t, attr, special(rng))
        if name == 'AutoLink' and rng.random() < 0.5:
            t.target = special(rng)
            t.children[0].content = t.target
        if name == 'RawText' and rng.random() < 0.3:
            t.content = special(rng)


def placeholders(doc):
    k = 0
    for t in walk(doc):
        name = type(t).__name__
        if name == 'InlineCode':
            t.children[0].content = '\x00V%d\x00' % k
            k += 1
        elif name in ('CodeFence', 'BlockCode'):
            t.children[0].content = '\x00L%d\x00' % k
            k += 1
        elif name == 'Math':
            t.content = '\x00M%d\x00' % k
            k += 1
    return k


def has_special(text):
    return any(c in text for c in '$#{}&_%^\\')


def check_witness(w):
    text = w['text']
    try:
        doc = impl.parse_only('LaTeXRenderer', {}, text)
    except Exception as e:
        return False, 'parse raised %s (C01)' % type(e).__name__
    if w.get('edit_seed') is not None:
        edit_tree(common.sub_rng(w['edit_seed'], 'edit'), doc)
    placeholders(doc)
    try:
        out = impl.render_tree('LaTeXRenderer', {}, doc)
    except Exception as e:
        return False, 'render raised %s (C01 / documented refusal)' % type(e).__name__
    problem = latexcheck.check(out)
    if problem:
        return True, '%s; input %r output %r' % (problem, text, out[:400])
    # second pass WITHOUT touching the tree: the placeholders above make every verbatim content unique, which hides a renderer
    # that treats a text like an identical string it met before as code; here the verbatim regions are cut out of the OUTPUT
    if w.get('edit_seed') is None:
        try:
            doc2 = impl.parse_only('LaTeXRenderer', {}, text)
            toks = list(walk(doc2))
            codes = [t.children[0].content for t in toks if type(t).__name__ in ('CodeFence', 'BlockCode')]
            if (not any(type(t).__name__ == 'Math' for t in toks) and not any('\\end{lstlisting}' in c for c in codes)):
                out2 = impl.render_tree('LaTeXRenderer', {}, doc2)
                problem = latexcheck.check(strip_verbatim(out2))
                if problem:
                    return True, '%s (verbatim regions cut out of the output); input %r output %r' % (problem, text, out2[:400])
        except Exception:
            pass
    return False, 'ok'


VERB = __import__('re').compile(r'\\verb(.)(.*?)\1', __import__('re').S)
# the header line is taken whole: the language option may itself contain brackets ("```[a][]" gives [language=[a][]])
LST = __import__('re').compile(r'(\\begin\{lstlisting\}[^\n]*\n)(.*?)(\\end\{lstlisting\})', __import__('re').S)


def strip_verbatim(out):
    """the output with every \\verb body and every lstlisting body replaced by an opaque placeholder (the \\verb delimiter is
    chosen by the renderer so that it does not occur in the body)"""
    k = [0]

    def v(m):
        k[0] += 1
        return '\\verb%s\x00V%d\x00%s' % (m.group(1), k[0], m.group(1))

    def l(m):
        k[0] += 1
        return m.group(1) + '\x00L%d\x00\n' % k[0] + m.group(3)
    return VERB.sub(v, LST.sub(l, out))


def matches_known(v, finding):
    return False


def finding_still_fails(finding):
    return check_witness(finding['witness'])[0]


def _texts(ctx):
    rng = ctx.rng('texts')
    texts = [special_doc(rng) for _ in range(ctx.budget(600, 9000))]
    texts += gen_docs.corpus_stream(rng, ctx.budget(400, 6000))
    texts += ['\\\\{', '![a](x}y)', '```a]b}\nx\n```', 'a\\\\b', '# h_1 $x^2$ 50%', '<a{b@example.com>', '**`f({`**']
    return texts


def units(ctx):
    rng = ctx.rng('units')
    from mistletoe.latex_renderer import LaTeXRenderer
    from mistletoe import span_token
    allcp = [c for c in range(sys.maxunicode + 1) if not (0xD800 <= c <= 0xDFFF)]
    if ctx.thorough:
        cps = allcp
    else:
        cps = sorted(set(list(range(0x900)) + [rng.randrange(0x900, 0x110000) for _ in range(3000)]
                         + [0xFFFF, 0x10000, 0x10FFFF, 0xD7FF, 0xE000, 0x7FF, 0x800]) - set(range(0xD800, 0xE000)))
    strings = [chr(c) for c in cps] + [gen_docs.random_string(rng, maxlen=10) + special(rng) for _ in range(ctx.budget(1500, 20000))]
    lr = LaTeXRenderer()
    lr.__exit__(None, None, None)
    for fn, f in (('latex.raw_text', lambda s: lr.render_raw_text(span_token.RawText(s))), ('latex.escape_url', lr.escape_url)):
        model = driver_batch([dict(op='escape', fn=fn, s=s) for s in strings])
        for s, m in zip(strings, model):
            ctx.compare('py.' + fn, {'s': s}, m, f(s))
    texts = _texts(ctx)
    ctx._c17_texts = texts
    reqs, cases = [], []
    for i, t in enumerate(texts):
        for edit in (None, i):
            try:
                doc = impl.parse_only('LaTeXRenderer', {}, t)
            except Exception:
                continue
            if edit is not None:
                edit_tree(common.sub_rng(ctx.seed, 'edit', i), doc)
            try:
                out = {'out': impl.render_tree('LaTeXRenderer', {}, doc)}
            except Exception:
                out = {'raises': True}
            try:
                j = export.export_doc(doc, check_parent=False)
            except export.ShapeError:
                continue
            reqs.append({'op': 'latex.render', 'doc': j})
            cases.append(({'text': t, 'edited': edit is not None}, out))
    model = driver_batch(reqs)
    for (case, out), m in zip(cases, model):
        ctx.compare('render.latex', case, m, out, kind='edited' if case['edited'] else 'parsed')


def explore(ctx, seeds):
    texts = list(getattr(ctx, '_c17_texts', None) or _texts(ctx))
    for sd in seeds:
        if isinstance(sd, dict) and isinstance(sd.get('text'), str):
            texts.insert(0, sd['text'])
        if isinstance(sd, dict) and isinstance(sd.get('s'), str):
            texts.insert(0, sd['s'] + '\n')
            texts.insert(0, '[l](<' + sd['s'].replace('<', '').replace('>', '') + '>)\n')
    if ctx.scale > 1:
        rng = ctx.rng('deep')
        texts += [special_doc(rng) for _ in range(3000 * ctx.scale)]
    for i, t in enumerate(texts):
        for edit in (None, ctx.seed * 1000003 + i):
            w = {'text': t, 'edit_seed': edit}
            ctx.explored_case(w, kind='edited' if edit is not None else 'parsed', nontrivial=has_special(t))
            fails, detail = check_witness(w)
            if fails:
                ctx.violation(detail, w)
        if len(ctx.violations) >= 8:
            break
    ctx.sample({'text': texts[0]})
