"""
C19 — the table of contents lists exactly the qualifying headings, in order.

Unit `toc`: real TocRenderer._headings after render() against the Lean model `Toc.collectL`
(document order, depth / omit_title / filter_conds, parse_rendered_heading), on outline documents
and on arbitrary documents.  Exploration on the implementation with the generator's outline as the
oracle: entries = qualifying headings in order with their plain text, and the `toc` list nested by
heading level.
Nesting is a theorem (`C19_toc_nested`, lemmas in Proofs/Outline.lean): for every heading list that is an outline
with plain titles, the block phase on the toc lines returns one List nested exactly as the outline, for the token
lists of the working tree (`C19_toc_config_current`).  Unit `c19.theorem`: random heading lists go to the second
driver (op c19.outline), which evaluates the hypotheses and the forest the theorem concludes; wherever they hold the
REAL TocRenderer.toc (its `_headings` set to that list) must be a List nested exactly like that forest.
"""
import common
import export
import gen_docs
import impl
from common import driver_batch

ID = 'C19'
EXTRA_MODULES = ['Mistletoe.Proofs.Outline', 'Mistletoe.Proofs.TocPlain', 'Mistletoe.Proofs.TocEndToEnd', 'Mistletoe.Proofs.TocTokens', 'propsdriver']
RULE = ('generated outline documents (first heading shallowest, never deepening by more than one; plain-word titles; ATX '
        'with/without closing #s and setext; at top level, inside block quotes and list items; paragraphs, code and '
        'lists in between) x depth 1-6 x omit_title x filter predicates (substring filters); plus spec/mutated documents '
        'for the collection unit. Distinct by (document, configuration); non-trivial when >= 2 headings qualify')
TRUSTED = ['filter_conds are modelled as substring predicates (the harness passes exactly such predicates)']
ASSUMPTIONS = ['a document with no qualifying heading has no table of contents to check (toc raises IndexError there: '
               'outside "documents whose headings form an outline")']
PARTIAL = ['the property as stated is proved END TO END (Props/C19_EndToEnd.lean: text -> document -> _headings -> list lines -> one '
           'List nested as the outline of the qualifying headings, in document order, with the plain text) under three decidable '
           'hypotheses on the parsed tree - headings made of raw text / emphasis / strong / strikethrough / code / escapes free of '
           '<, >, &; the qualifying headings form an outline; their texts begin with a letter - and re-checked on the real TocRenderer '
           'each run (c19.theorem.document); with the extra hypothesis that the titles are inert inline text the token tree `toc` returns is proved '
           'too (Props/C19_Tokens.lean: every item a Paragraph of one RawText)',
           'nesting of the toc list by level is proved (C19_toc_nested) for heading lists that are outlines with plain titles '
           '(a letter first, no newline); titles with markup or another first character, and qualifying lists that are not '
           'outlines, are explored on the implementation against the outline oracle only',
           'plain-text clause: proved for titles made of raw text, emphasis, strong, strikethrough, inline code and escapes whose '
           'text is free of <, >, & (C19_plain_text_entry, C19_plain_text_formatted); titles with links or raw HTML are tied by the '
           'toc unit only (a link whose title attribute spans a line break leaves its tag in the entry: the regex "." does not '
           'match a newline - outside "plain-word titles")']

WORDS = ['Intro', 'Usage', 'API', 'Notes', 'alpha', 'beta', 'Gamma', 'setup', 'Zed', 'foo', 'bar', 'Part', 'One', 'two',
         'x1', 'Überblick', '中文', 'end']
FILTERS = [[], ['foo'], ['a'], ['Part', 'Zed'], ['zzz']]


def outline(rng):
    n = rng.randint(1, 8)
    base = rng.randint(1, 3)
    levels = [base]
    for _ in range(n - 1):
        prev = levels[-1]
        levels.append(rng.randint(base, min(6, prev + 1)))
    return [(l, ' '.join(rng.choice(WORDS) for _ in range(rng.randint(1, 3)))) for l in levels]


def outline_doc(rng, hs):
    lines = []
    for level, title in hs:
        form = rng.random()
        container = rng.choice(['', '', '', '> ', '- ', '1. '])
        pad = ' ' * len(container) if container.strip() in ('-', '1.') else container
        block = []
        if form < 0.25 and level <= 2 and container != '> ':   # setext inside a block quote: recorded finding
            block = [title, ('=' if level == 1 else '-') * rng.randint(1, 5)]
        elif form < 0.5:
            block = ['#' * level + ' ' + title + ' ' + '#' * rng.randint(1, 3)]
        else:
            block = [' ' * rng.randint(0, 3) + '#' * level + ' ' + title]
        if container:
            block = [container + block[0]] + [pad + b for b in block[1:]]
        lines += block + ['']
        r = rng.random()
        if r < 0.3:
            lines += [rng.choice(['some text here', '    code', '- item\n- item', '> quote', '***', '| a |\n|---|\n| b |']), '']
    return '\n'.join(lines) + '\n'


def qualifying(hs, depth, omit_title, subs):
    return [(l, t) for l, t in hs
            if not ((omit_title and l == 1) or l > depth or any(s in t for s in subs))]


def is_outline(q):
    if not q:
        return False
    base = min(l for l, _ in q)
    if q[0][0] != base:
        return False
    return all(b[0] <= a[0] + 1 for a, b in zip(q, q[1:]))


def expected_tree(q):
    """[(title, children)] nested by level."""
    root = []
    stack = [(q[0][0] - 1, root)]
    for l, t in q:
        while stack[-1][0] >= l:
            stack.pop()
        node = (t, [])
        stack[-1][1].append(node)
        stack.append((l, node[1]))
    return root


def toc_tree(lst):
    """Real List token -> [(title, children)]."""
    out = []
    if type(lst).__name__ != 'List':
        return [('<%s>' % type(lst).__name__, [])]
    for item in lst.children:
        title = None
        kids = []
        for c in item.children:
            n = type(c).__name__
            if n == 'Paragraph' and title is None:
                title = ''.join(getattr(x, 'content', '\n') for x in c.children)
            elif n == 'List':
                kids += toc_tree(c)
            else:
                kids.append(('<%s>' % n, []))
        out.append((title, kids))
    return out


def run_toc(text, depth, omit_title, subs, kwargs=None):
    from mistletoe import Document
    from mistletoe.contrib.toc_renderer import TocRenderer
    conds = [(lambda c, s=s: s in c) for s in subs]
    try:
        with impl.time_limit(20):
            with TocRenderer(depth=depth, omit_title=omit_title, filter_conds=conds, **(kwargs or {})) as r:
                doc = Document(text)
                r.render(doc)
                hs = list(r._headings)
                toc = r.toc if hs else None
                return doc, hs, toc
    finally:
        impl.reset_library()


def check_witness(w):
    hs, text = [tuple(h) for h in w['outline']], w['text']
    depth, omit, subs = w['depth'], w['omit_title'], w['filters']
    try:
        doc, got, toc = run_toc(text, depth, omit, subs)
    except Exception as e:
        return True, 'TocRenderer raised %s: %s on %r' % (type(e).__name__, e, text)
    q = qualifying(hs, depth, omit, subs)
    if [tuple(g) for g in got] != q:
        return True, 'collected %r, qualifying headings are %r (depth=%d omit_title=%r filters=%r); document %r' % (
            got, q, depth, omit, subs, text)
    if is_outline(q):
        exp = expected_tree(q)
        if toc_tree(toc) != exp:
            return True, 'toc nesting %r, expected %r (depth=%d omit_title=%r filters=%r); document %r' % (
                toc_tree(toc), exp, depth, omit, subs, text)
    return False, 'ok'


QUOTED_SETEXT = __import__('re').compile(r'^ {0,3}>.*\n {0,3}> {0,3}(=+|-+) *$', __import__('re').M)


def matches_known(v, finding):
    # class "setext underline inside a block quote" (the hypothesis NoSetextCandidate of C04's partial theorem)
    if finding.get('class') == 'setext-in-quote':
        return QUOTED_SETEXT.search(v['witness'].get('text', '')) is not None and v['what'].startswith('collected')
    return False


def finding_still_fails(finding):
    return check_witness(finding['witness'])[0]


def _cases(ctx):
    rng = ctx.rng('cases')
    cases = []
    for _ in range(ctx.budget(600, 8000)):
        hs = outline(rng)
        cases.append({'outline': hs, 'text': outline_doc(rng, hs), 'depth': rng.randint(1, 6),
                      'omit_title': rng.random() < 0.5, 'filters': rng.choice(FILTERS)})
    cases.append({'outline': [(2, 'a'), (3, 'b'), (4, 'c'), (2, 'd')], 'text': '## a\n### b\n#### c\n## d\n', 'depth': 6,
                  'omit_title': True, 'filters': []})
    cases.append({'outline': [(1, 'foo T'), (2, 'b')], 'text': '# foo T\n\nb\n---\n', 'depth': 5, 'omit_title': False,
                  'filters': ['foo']})
    return cases


def units(ctx):
    cases = _cases(ctx)
    ctx._c19_cases = cases
    rng = ctx.rng('units')
    extra = [{'text': t, 'depth': rng.randint(1, 6), 'omit_title': rng.random() < 0.5, 'filters': rng.choice(FILTERS)}
             for t in gen_docs.corpus_stream(rng, ctx.budget(400, 5000))]
    reqs, exp, meta = [], [], []
    for i, c in enumerate(cases + extra):
        kw = impl.HTML_OPTION_SETS[i % 4]
        try:
            doc, got, _ = run_toc(c['text'], c['depth'], c['omit_title'], c['filters'], kw)
            j = export.export_doc(doc, check_parent=False)
        except Exception:
            continue
        reqs.append({'op': 'toc.collect', 'dq': kw.get('html_escape_double_quotes', False),
                     'sq': kw.get('html_escape_single_quotes', False), 'depth': c['depth'],
                     'omitTitle': c['omit_title'], 'excludeIfContains': c['filters'], 'doc': j})
        exp.append([[l, t] for l, t in got])
        meta.append({k: c[k] for k in ('text', 'depth', 'omit_title', 'filters')})
    model = driver_batch(reqs)
    for case, e, m in zip(meta, exp, model):
        ctx.compare('toc', case, m.get('headings') if isinstance(m, dict) else m, e)
    theorem_unit(ctx)
    theorem_unit_document(ctx)


def real_toc_of(hs):
    """TocRenderer.toc for a given list of collected headings (the property `toc` reads only `_headings`)."""
    from mistletoe.contrib.toc_renderer import TocRenderer
    try:
        with impl.time_limit(20):
            with TocRenderer() as r:
                r._headings = [(l, t) for l, t in hs]
                return toc_tree(r.toc)
    finally:
        impl.reset_library()


def forest_tree(f):
    return [(n['t'], forest_tree(n['kids'])) for n in f]


def theorem_unit(ctx):
    rng = ctx.rng('theorem')
    lists = []
    for _ in range(ctx.budget(1200, 12000)):
        hs = outline(rng)
        if rng.random() < 0.15:      # not an outline / not plain: the hypothesis must reject it
            i = rng.randrange(len(hs))
            hs[i] = rng.choice([(hs[i][0] + 2, hs[i][1]), (hs[i][0], '*' + hs[i][1]), (max(1, hs[0][0] - 1), hs[i][1])])
        lists.append(hs)
    res = common.driver_batch([{'op': 'c19.outline', 'headings': [[l, t] for l, t in hs]} for hs in lists], binary=common.PROPS_DRIVER)
    n_ok = 0
    for hs, r in zip(lists, res):
        if not (isinstance(r, dict) and r.get('ok')):
            continue
        n_ok += 1
        try:
            real = real_toc_of(hs)
        except Exception as e:
            real = {'raises': type(e).__name__}
        ctx.compare('c19.theorem', {'headings': hs}, forest_tree(r['forest']), real, kind='n%d' % len(hs))
    ctx.notes.append('of %d generated heading lists %d satisfy the hypotheses of C19_toc_nested' % (len(lists), n_ok))


def one_rawtext_each(lst):
    """every ListItem of the toc List (at any depth) holds a Paragraph whose children are exactly one RawText"""
    if type(lst).__name__ != 'List':
        return False
    for item in lst.children:
        paras = [c for c in item.children if type(c).__name__ == 'Paragraph']
        if len(paras) != 1 or [type(x).__name__ for x in paras[0].children] != ['RawText']:
            return False
        for c in item.children:
            if type(c).__name__ == 'List' and not one_rawtext_each(c):
                return False
    return True


def theorem_unit_document(ctx):
    """`C19_text_toc_current` on the real TocRenderer: documents whose headings (plain text, also with emphasis / code spans)
    sit at top level, in block quotes and in list items; the model parses the text and evaluates the hypotheses; the real
    `_headings` and the real `toc` must be what the theorem concludes"""
    from mistletoe.contrib.toc_renderer import TocRenderer
    rng = ctx.rng('theorem-doc')
    reqs = []
    for _ in range(ctx.budget(700, 7000)):
        hs = outline(rng)
        if rng.random() < 0.3:       # inline formatting in a title: raw text, emphasis, strong, code
            i = rng.randrange(len(hs))
            hs[i] = (hs[i][0], hs[i][1] + rng.choice([' *em*', ' **st** x', ' `code`', ' a\\*b', ' ~~s~~']))
        if rng.random() < 0.12:      # something outside the hypotheses: the evaluation must reject it
            i = rng.randrange(len(hs))
            hs[i] = rng.choice([(hs[i][0] + 2, hs[i][1]), (hs[i][0], hs[i][1] + ' <b>'), (hs[i][0], hs[i][1] + ' [l](u)')])
        reqs.append({'op': 'c19.document', 'text': outline_doc(rng, hs), 'depth': rng.randint(1, 6), 'omit_title': rng.random() < 0.5})
    res = common.driver_batch(reqs, binary=common.PROPS_DRIVER)
    n_ok = 0
    for q, r in zip(reqs, res):
        if not (isinstance(r, dict) and r.get('ok')):
            continue
        n_ok += 1
        try:
            with impl.time_limit(20):
                with TocRenderer(depth=q['depth'], omit_title=q['omit_title']) as rd:
                    from mistletoe import Document
                    rd.render(Document(q['text']))
                    toc = rd.toc
                    real = {'headings': [[l, t] for l, t in rd._headings], 'toc': toc_tree(toc), 'one_rawtext_each': one_rawtext_each(toc)}
        except Exception as e:
            real = {'raises': type(e).__name__}
        finally:
            impl.reset_library()
        ctx.compare('c19.theorem.document', {'text': q['text'], 'depth': q['depth'], 'omit_title': q['omit_title']},
                    {'headings': r['headings'], 'toc': forest_tree(r['forest']),
                     # token level (C19_document_toc_tokens): every item's Paragraph is ONE RawText - claimed only under titlesInert
                     'one_rawtext_each': True if r.get('titlesInert') else real.get('one_rawtext_each') if isinstance(real, dict) else None},
                    real, kind='n%d' % len(r['headings']))
    ctx.notes.append('of %d generated documents %d satisfy the hypotheses of C19_text_toc_current (plain headings, outline, plain titles)'
                     % (len(reqs), n_ok))


def explore(ctx, seeds):
    cases = list(getattr(ctx, '_c19_cases', None) or _cases(ctx))
    if ctx.scale > 1:
        rng = ctx.rng('deep')
        for _ in range(4000 * ctx.scale):
            hs = outline(rng)
            cases.append({'outline': hs, 'text': outline_doc(rng, hs), 'depth': rng.randint(1, 6),
                          'omit_title': rng.random() < 0.5, 'filters': rng.choice(FILTERS)})
    for c in cases:
        q = qualifying([tuple(h) for h in c['outline']], c['depth'], c['omit_title'], c['filters'])
        ctx.explored_case(c, kind='outline' if is_outline(q) else 'entries-only', nontrivial=len(q) >= 2)
        fails, detail = check_witness(c)
        if fails:
            ctx.violation(detail, c)
            if len(ctx.violations) >= 6:
                break
    ctx.sample(cases[0])
