"""
C05 — blocks separated by a blank line are parsed independently of each other.

Theorems (lean/Mistletoe/Props/C05.lean; lemmas in Proofs/Locality.lean, 2770 lines) over the block-parser model:
  * `C05_suffix_local` / `C05_suffix_shift` (full strength): whatever stands before a block boundary, the dispatch loop
    started at that boundary computes exactly what tokenize_block computes on the remaining lines alone, with every
    line number at every depth shifted by the number of preceding lines - no reader (BlockCode's trailing-blank
    back-off, Footnote's hand-back, every backstep, List.read's reset to its anchor) ever looks at or steps back into
    an earlier line; needs only that lines are complete (a counterexample with an embedded newline is kernel-checked
    and reproduced on the real code: outside Document(str));
  * `C05_prefix` / `C05_blank_line_independent` (Props/C05_Lists.lean, lemmas in Proofs/LocalityLists.lean; full strength):
    for A whose last block is closed (paragraph, setext/ATX heading, thematic break, quote, table), parsing A followed by an
    empty line and ANY further lines reaches the boundary with A's entries and A's state; with A defining no references,
    blockPhase(A ++ ["\n"] ++ B) = A's entries ++ B's entries shifted by |A|+1, loose.  (`C05_prefix_partial` in
    Props/C05.lean is the earlier form restricted to A without a top-level list.  The restriction marked a genuine defect:
    List.read read the item behind a marker of another type before discarding it, the read ran through the blank line
    into B, and a definition found there stayed registered - repaired in /repo, the model follows the repaired code.)
Units: `scan.*` and `block.buffer` (real tokenize_block against the model) on A, B and A + blank line + B of this
run's pairs.
Exploration (metamorphic, on the implementation): AST with line numbers of Document(A), Document(B) and
Document(A + blank line + B) for pairs meeting the side conditions.
"""
import block_units
import common
import export
import gen_docs
import impl
import scan_units

ID = 'C05'
EXTRA_MODULES = ['Mistletoe.Proofs.Locality', 'Mistletoe.Proofs.LocalityLists', 'Mistletoe.Proofs.DocLevel']
RULE = ('pairs (A, B) of spec examples, mutations, splices, random documents and strings, and of short sequences of marker-like '
        'lines followed by a paragraph that uses a label (A) with an indented would-be definition of that label (B), such that A ends in a closed block '
        '(paragraph, heading, thematic break, block quote, table) and neither defines link references; both as str. '
        'Distinct by pair; non-trivial when B has a container or a multi-line block')
TRUSTED = ['the exporter (harness/export.py) as canonical AST observation incl. line numbers']
ASSUMPTIONS = []
PARTIAL = ['proved for the block phase AND for the token tree Document(lines) returns (Props/C05_Document.lean: A\'s blocks followed by '
           'B\'s blocks with every line number at every depth shifted; exceptions of the inline phase included; the general form '
           'with definitions too); class-level scratch (Heading.level, CodeFence._open_info, HtmlBlock._end_cond) is modelled as '
           'recomputed from the line start() was called on, and that modelling is what the block.buffer correspondence on '
           'concatenated documents checks']

CLOSED = ('Paragraph', 'Heading', 'SetextHeading', 'ThematicBreak', 'Quote', 'Table')


def ast(text):
    doc = impl.parse_only('HtmlRenderer', {}, text)
    j = export.export_doc(doc, check_parent=False)
    return j['kids'], j['footnotes']


def shift(j, k):
    if isinstance(j, dict):
        return {kk: (v + k if kk == 'ln' else shift(v, k)) for kk, v in j.items()}
    if isinstance(j, list):
        return [shift(x, k) for x in j]
    return j


def norm(t):
    return t if t.endswith('\n') else t + '\n'


def check_witness(w):
    A, B = norm(w['A']), w['B']
    try:
        a, fa = ast(A)
        b, fb = ast(B)
        if not a or a[-1]['t'] not in CLOSED or fa or fb:
            return False, 'side conditions not met'
        ab, fab = ast(A + '\n' + B)
    except Exception as e:
        return False, 'raised %s (C01)' % type(e).__name__
    n = len(A.splitlines()) + 1       # Document(str) cuts lines with str.splitlines
    want = a + shift(b, n)
    if fab:
        return True, ('neither A nor B defines a link reference, but A + blank + B does: %r; A=%r B=%r' % (fab, A, B))
    if ab != want:
        # locate the first difference
        i = next((i for i, (x, y) in enumerate(zip(ab, want)) if x != y), min(len(ab), len(want)))
        return True, ('A + blank + B does not parse to A\'s blocks followed by B\'s (shifted by %d lines): first difference at '
                      'block %d: %r vs expected %r; A=%r B=%r' % (n, i, str(ab[i:i + 1])[:300], str(want[i:i + 1])[:300], A, B))
    return False, 'ok'


def matches_known(v, finding):
    return False


def finding_still_fails(finding):
    return check_witness(finding['witness'])[0]


def _cases(ctx):
    rng = ctx.rng('cases')
    texts = gen_docs.corpus_stream(rng, ctx.budget(1200, 16000))
    texts = [t for t in texts if not any(c.isspace() and c not in ' \n\t' for c in t)]
    extra_a = ['a\n', '# h\n', 'h\n===\n', '***\n', '> q\n', '| a |\n|---|\n| b |\n', '> ```\n> x = 1   \n', '> - a\n', 'a\nb\n', '> q\nlazy\n']
    extra_b = ['b\n', '    code\n', '- x\n  - y\n', '> - | a |\n>   |---|\n>   | b |\n', '1. | h |\n   |---|\n   | r |\n', '```\nx\n```\n',
               '<div>\nx\n</div>\n', '===\n', '# h ##\n', '  \n  text\n', '- a\n\n  b\n\n      c\n', '> > deep\n> > er\n', 'p\n---\n']
    # A: one text per kind of closing block and per kind of line that a document-wide scan could remember (thematic break,
    # setext underline, table delimiter row); B: every block that can INTERRUPT a paragraph, inside each kind of container
    extra_a += ['intro\n\n---\n', 'T\n-----\n', 'T\n=\n', '| a | b |\n|---|---|\n', '> | a |\n> |---|\n', '***\n', '# h #\n', 'a\n\n\n']
    extra_b += ['> text\n> | h1 | h2 |\n> | -- | -- |\n> | c1 | c2 |\n', '- p\n  | a |\n  |---|\n  | b |\n', '> - p\n>   | a | b |\n>   |--|--|\n',
                '> p\n> # h\n', '> p\n> ```\n> x\n> ```\n', '> p\n> - i\n', '> p\n> ***\n', '- p\n  > q\n', '- p\n  # h\n', '1. p\n   ```\n   x\n   ```\n',
                'p\n| a |\n|---|\n', 'p\n# h\n', 'p\n> q\n', 'p\n<div>\n', '> p\n> <div>\n', 'p\n- i\n']
    cases = []
    for _ in range(ctx.budget(9000, 60000)):
        cases.append({'A': rng.choice(texts + extra_a * 20), 'B': rng.choice(texts + extra_b * 20)})
    for a in extra_a:
        for b in extra_b:
            cases.append({'A': a, 'B': b})
    # readers that look ahead past the blank line: A made of short marker-like lines and a closed paragraph that USES a label,
    # B an indented line that would DEFINE it if some reader of A took it in (alone it is an indented code block)
    import itertools
    vocab = ['- \n', '-\n', '- a\n', '* * *\n', '* b\n', '+ c\n', '1. d\n', '2) e\n', '\n', '  f\n', '> g\n', '*\tx\n', '---\n', '   - h\n', '10. i\n']
    for k in (1, 2, 3):
        for tup in itertools.product(vocab, repeat=k):
            if tup[0] == '\n' or (k == 3 and rng.random() < (0.0 if ctx.thorough else 0.6)):
                continue
            for ind in (4, 6, 8):
                cases.append({'A': ''.join(tup) + 'p [foo]\n', 'B': ' ' * ind + '[foo]: /u\n'})
    return cases


def units(ctx):
    scan_units.run(ctx)
    cases = _cases(ctx)
    rng = ctx.rng('units')
    rng.shuffle(cases)
    texts = []
    for c in cases[:ctx.budget(900, 9000)]:
        A, B = norm(c['A']), c['B']
        texts += [A, B, A + '\n' + B]
    block_units.run(ctx, texts, sets=block_units.TOKEN_SETS[:2])


def explore(ctx, seeds):
    cases = _cases(ctx)
    if ctx.scale > 1:
        rng = ctx.rng('deep')
        texts = gen_docs.corpus_stream(rng, 3000)
        for _ in range(8000 * ctx.scale):
            cases.append({'A': rng.choice(texts), 'B': rng.choice(texts)})
    for c in cases:
        fails, detail = check_witness(c)
        if detail == 'side conditions not met' or detail.startswith('raised'):
            continue
        ctx.explored_case(c, kind='pair', nontrivial=c['B'].count('\n') >= 2)
        if fails:
            ctx.violation(detail, c)
            if len(ctx.violations) >= 8:
                break
    ctx.sample(cases[-1])
