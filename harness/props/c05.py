"""
C05 — blocks separated by a blank line are parsed independently of each other.

Exploration (metamorphic, on the implementation alone): AST with line numbers of Document(A),
Document(B) and Document(A + blank line + B) for pairs meeting the side conditions.
"""
import common
import export
import gen_docs
import impl

ID = 'C05'
LEVEL = 'exploration'
RULE = ('pairs (A, B) of spec examples, mutations, splices, random documents and strings such that A ends in a closed block '
        '(paragraph, heading, thematic break, block quote, table) and neither defines link references; both as str. '
        'Distinct by pair; non-trivial when B has a container or a multi-line block')
TRUSTED = ['the exporter (harness/export.py) as canonical AST observation incl. line numbers']
ASSUMPTIONS = []
PARTIAL = ['interim level: metamorphic exploration. The Lean locality theorem over the block-parser model and the '
           'no-stale-scratch refinement are the planned upgrade']

CLOSED = ('Paragraph', 'Heading', 'SetextHeading', 'ThematicBreak', 'Quote', 'Table')


def ast(text):
    doc = impl.parse_only('HtmlRenderer', {}, text)
    j = export.export_doc(doc, check_parent=False)
    return j['kids'], j['footnotes']


def shift(j, k):
    if isinstance(j, dict):
        return {kk: (v + k if kk == 'ln' else shift(v, k)) for kk, v in j.items()}
    if isinstance(j, list):
        return [shift(x, k) for x in j]
    return j


def norm(t):
    return t if t.endswith('\n') else t + '\n'


def check_witness(w):
    A, B = norm(w['A']), w['B']
    try:
        a, fa = ast(A)
        b, fb = ast(B)
        if not a or a[-1]['t'] not in CLOSED or fa or fb:
            return False, 'side conditions not met'
        ab, fab = ast(A + '\n' + B)
    except Exception as e:
        return False, 'raised %s (C01)' % type(e).__name__
    n = A.count('\n') + 1
    want = a + shift(b, n)
    if ab != want:
        # locate the first difference
        i = next((i for i, (x, y) in enumerate(zip(ab, want)) if x != y), min(len(ab), len(want)))
        return True, ('A + blank + B does not parse to A\'s blocks followed by B\'s (shifted by %d lines): first difference at '
                      'block %d: %r vs expected %r; A=%r B=%r' % (n, i, str(ab[i:i + 1])[:300], str(want[i:i + 1])[:300], A, B))
    return False, 'ok'


def matches_known(v, finding):
    return False


def finding_still_fails(finding):
    return check_witness(finding['witness'])[0]


def _cases(ctx):
    rng = ctx.rng('cases')
    texts = gen_docs.corpus_stream(rng, ctx.budget(1200, 16000))
    texts = [t for t in texts if not any(c.isspace() and c not in ' \n\t' for c in t)]
    extra_a = ['a\n', '# h\n', 'h\n===\n', '***\n', '> q\n', '| a |\n|---|\n| b |\n', '> ```\n> x = 1   \n', '> - a\n', 'a\nb\n', '> q\nlazy\n']
    extra_b = ['b\n', '    code\n', '- x\n  - y\n', '> - | a |\n>   |---|\n>   | b |\n', '1. | h |\n   |---|\n   | r |\n', '```\nx\n```\n',
               '<div>\nx\n</div>\n', '===\n', '# h ##\n', '  \n  text\n', '- a\n\n  b\n\n      c\n', '> > deep\n> > er\n', 'p\n---\n']
    cases = []
    for _ in range(ctx.budget(9000, 60000)):
        cases.append({'A': rng.choice(texts + extra_a * 20), 'B': rng.choice(texts + extra_b * 20)})
    for a in extra_a:
        for b in extra_b:
            cases.append({'A': a, 'B': b})
    return cases


def units(ctx):
    pass


def explore(ctx, seeds):
    cases = _cases(ctx)
    if ctx.scale > 1:
        rng = ctx.rng('deep')
        texts = gen_docs.corpus_stream(rng, 3000)
        for _ in range(8000 * ctx.scale):
            cases.append({'A': rng.choice(texts), 'B': rng.choice(texts)})
    for c in cases:
        fails, detail = check_witness(c)
        if detail == 'side conditions not met' or detail.startswith('raised'):
            continue
        ctx.explored_case(c, kind='pair', nontrivial=c['B'].count('\n') >= 2)
        if fails:
            ctx.violation(detail, c)
            if len(ctx.violations) >= 8:
                break
    ctx.sample(cases[-1])
