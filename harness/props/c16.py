"""
C16 — inline tokenization tiles the source; custom tokens obey precedence rules.

Correspondence unit `span.resolve`: the real `span_tokenizer.tokenize` driven with scripted token
classes (their `find` returns prepared match objects) against the Lean model `Span.tokenize` on
the same candidate set.  Exploration: the property's predicates (tiling, order, disjointness,
children inside the parse group, the pair rule) evaluated directly on the real tokenizer's output.
"""
import itertools

import common
from common import driver_batch

ID = 'C16'
RULE = ('candidate sets for scripted span-token classes: exhaustive pairs (all intervals incl. empty ones '
        'and all parse groups inside them over a short string, x precedence relation x parse_inner^2, both '
        'class orders) and random sets of up to 4 classes x 3 matches; a case is distinct by its candidate '
        'list, non-trivial when at least two candidates overlap or nest')
TRUSTED = ['scripted match objects stand for re.Match objects (start/end/group of the parse group only)']
ASSUMPTIONS = ['every match has its parse group inside the match (WFCands); a custom token whose parse '
               'group did not participate in the match (start(g) = -1) is outside the claim',
               'the recognition of custom tokens only inside the renderer context is C11\'s exit theorem']
PARTIAL = []


def _mods():
    from mistletoe import span_tokenizer, span_token
    return span_tokenizer, span_token


class FakeMatch:
    def __init__(self, cand, string):
        self.cand = cand
        self.string = string

    def start(self, g=0):
        return self.cand[0] if g == 0 else self.cand[2]

    def end(self, g=0):
        return self.cand[1] if g == 0 else self.cand[3]

    def group(self, g=0):
        return self.string[self.start(g):self.end(g)]


def make_classes(cands, string):
    """cands: list of [start, stop, pstart, pend, prec, inner, cls, ord]; classes by `cls`."""
    _, span_token = _mods()
    by_cls = {}
    for c in cands:
        by_cls.setdefault(c[6], []).append(c)
    classes = []
    for k in sorted(by_cls):
        cs = sorted(by_cls[k], key=lambda c: c[7])

        def find(cls, s, _cs=cs):
            return [FakeMatch(c, s) for c in _cs]

        def init(self, match):
            self.match = match

        # every other set of classes is a CHAIN of subclasses (each user token type derives from the previous one and overrides
        # precedence / parse_inner / parse_group again): the rules are about the class's own settings, wherever it inherits from
        chain = sum(c[0] + c[1] + c[4] for c in cands) % 2 == 1
        base = classes[-1] if (chain and classes) else span_token.SpanToken
        T = type('Scripted%d' % k, (base,), {
            'precedence': cs[0][4], 'parse_inner': cs[0][5], 'parse_group': 1,
            'find': classmethod(find), '__init__': init})
        classes.append(T)
    return classes


def the_string(n):
    return ''.join(chr(0x4E00 + i) for i in range(n))


def observe(tokens, string):
    _, span_token = _mods()
    out = []
    for t in tokens:
        if isinstance(t, span_token.RawText):
            if t.content == '':
                out.append(['raw', -1, -1])
            else:
                a = string.index(t.content[0])
                assert string[a:a + len(t.content)] == t.content
                out.append(['raw', a, a + len(t.content)])
        else:
            c = t.match.cand
            kids = observe(t.children, string) if (t.children is not None and c[5]) else []
            out.append(['tok', c[6], c[7], kids])
    return out


def run_impl(cands, n):
    span_tokenizer, span_token = _mods()
    s = the_string(n)
    classes = make_classes(cands, s)
    toks = span_tokenizer.tokenize(s, classes + [span_token.RawText])
    return toks, s


def wf(c, n):
    return c[0] <= c[2] <= c[3] <= c[1] <= n


# ---- generators ------------------------------------------------------------------------------

def intervals(n):
    return [(a, b) for a in range(n + 1) for b in range(a, n + 1)]


def cands_in(n, groups='all'):
    res = []
    for (a, b) in intervals(n):
        inner = [(p, q) for p in range(a, b + 1) for q in range(p, b + 1)]
        if groups == 'some':
            inner = [g for g in inner if g in ((a, b), (a + 1, b - 1), (a, a), (b, b), (a + 1, b))
                     and g[0] <= g[1]]
        for (p, q) in inner:
            res.append((a, b, p, q))
    return res


def pair_cases(n, groups):
    base = cands_in(n, groups)
    for x in base:
        for y in base:
            for (px, py) in ((5, 5), (4, 6), (6, 4)):
                for ix in (True, False):
                    for iy in (True, False):
                        yield [[x[0], x[1], x[2], x[3], px, ix, 0, 0],
                               [y[0], y[1], y[2], y[3], py, iy, 1, 0]]


def random_set(rng, n):
    cands = []
    ncls = rng.randint(1, 4)
    for k in range(ncls):
        prec = rng.randint(3, 7)
        inner = rng.random() < 0.6
        for o in range(rng.randint(1, 3)):
            a = rng.randint(0, n)
            b = rng.randint(a, min(n, a + rng.randint(0, 8)))
            p = rng.randint(a, b)
            q = rng.randint(p, b)
            cands.append([a, b, p, q, prec, inner, k, o])
        # a class's finditer results come in increasing start order
        mine = [c for c in cands if c[6] == k]
        mine.sort(key=lambda c: (c[0], c[1]))
        for o, c in enumerate(mine):
            c[7] = o
    cands.sort(key=lambda c: (c[6], c[7]))     # find_tokens: class by class, each in find() order
    return cands


def nontrivial(cands):
    for x, y in itertools.combinations(cands, 2):
        if x[0] < y[1] and y[0] < x[1]:
            return True
    return False


# ---- property predicates on implementation output ---------------------------------------------

def flatten(tokens, s):
    _, span_token = _mods()
    out = ''
    for t in tokens:
        if isinstance(t, span_token.RawText):
            out += t.content
        else:
            c = t.match.cand
            if c[5]:
                out += s[c[0]:c[2]] + flatten(t.children, s) + s[c[3]:c[1]]
            else:
                out += s[c[0]:c[1]]
    return out


def span_of(t, s):
    _, span_token = _mods()
    if isinstance(t, span_token.RawText):
        if t.content == '':
            return None
        a = s.index(t.content[0])
        return (a, a + len(t.content))
    return (t.match.cand[0], t.match.cand[1])


def ordered_inside(tokens, s, lo, hi):
    prev = lo
    for t in tokens:
        sp = span_of(t, s)
        if sp is None:
            return 'empty raw text token'
        if sp[0] < prev:
            return 'token %r starts before the previous one ended (%d)' % (sp, prev)
        if sp[1] > hi:
            return 'token %r leaves its parent parse group end %d' % (sp, hi)
        prev = sp[1]
        if hasattr(t, 'match') and t.match.cand[5]:
            c = t.match.cand
            r = ordered_inside(t.children, s, c[2], c[3])
            if r:
                return r
    return None


def expected_pair(x, y):
    """The pair rule (DESIGN C16; Lean: C16_pair_rule) for x found first (x.start <= y.start)."""
    X = ['tok', x[6], x[7], []]
    Y = ['tok', y[6], y[7], []]
    if x[1] <= y[0]:
        return [X, Y]
    if x[1] >= y[1] and x[2] <= y[0] and x[3] >= y[1]:
        return [['tok', x[6], x[7], 'Y']] if x[5] else [X]
    if x[1] >= y[1] and x[3] <= y[0]:
        return [X]
    return [X] if x[4] >= y[4] else [Y]


def strip_raw(obs):
    res = []
    for o in obs:
        if o[0] == 'tok':
            res.append(['tok', o[1], o[2], strip_raw(o[3])])
    return res


def check_witness(w):
    """w: {'cands': [...], 'n': int}.  Returns (fails, detail)."""
    cands, n = sorted(w['cands'], key=lambda c: (c[6], c[7])), w['n']
    try:
        toks, s = run_impl(cands, n)
    except Exception as e:
        return True, 'tokenize raised %s: %s' % (type(e).__name__, e)
    if flatten(toks, s) != s:
        return True, 'tokens do not tile the source: %r' % observe(toks, s)
    r = ordered_inside(toks, s, 0, n)
    if r:
        return True, r
    if w.get('nested'):
        # a parse_inner parent whose parse group holds both candidates: the pair rule applies inside it
        P = [c for c in cands if c[6] == 0][0]
        x, y = sorted(sorted([c for c in cands if c[6] != 0], key=lambda c: (c[6], c[7])), key=lambda c: c[0])
        exp = expected_pair(x, y)
        if exp and exp[0][3] == 'Y':
            exp = [['tok', x[6], x[7], [['tok', y[6], y[7], []]]]]
        exp = [['tok', P[6], P[7], exp]]
        got = strip_raw(observe(toks, s))
        if got != exp:
            return True, 'pair rule inside a parent: expected %r, got %r' % (exp, got)
    elif len(cands) == 2:
        # find_tokens: class order, match order, then a stable sort by start
        x, y = sorted(sorted(cands, key=lambda c: (c[6], c[7])), key=lambda c: c[0])
        exp = expected_pair(x, y)
        got = strip_raw(observe(toks, s))
        if exp and exp[0][3] == 'Y':
            exp = [['tok', x[6], x[7], [['tok', y[6], y[7], []]]]]
        if got != exp:
            return True, 'pair rule: expected %r, got %r' % (exp, got)
    return False, 'ok'


def matches_known(v, finding):
    return False


def finding_still_fails(finding):
    return False


# ---- units + exploration -----------------------------------------------------------------------

def _cases(ctx):
    rng = ctx.rng('cases')
    n_pairs = 3 if not ctx.thorough else 4
    groups = 'some' if not ctx.thorough else 'all'
    cases = []
    for cands in pair_cases(n_pairs, groups):
        cases.append((cands, n_pairs + 1))
    for cands in pair_cases(n_pairs if ctx.thorough else 2, groups):
        x, y = cands
        P = [0, n_pairs + 3, 1, n_pairs + 2, 5, True, 0, 0]
        sh = lambda c, k: [c[0] + 1, c[1] + 1, c[2] + 1, c[3] + 1, c[4], c[5], k, 0]
        cases.append(([P, sh(x, 1), sh(y, 2)], n_pairs + 4, True))
    for _ in range(ctx.budget(4000, 60000)):
        n = rng.randint(1, 14)
        cases.append((random_set(rng, n), n))
    return cases


def units(ctx):
    cases = _cases(ctx)
    ctx._c16_cases = cases
    reqs = [{'op': 'span.tokenize', 'n': c[1], 'cands': c[0]} for c in cases]
    model = driver_batch(reqs)
    for c, m in zip(cases, model):
        cands, n = c[0], c[1]
        try:
            toks, s = run_impl(cands, n)
            impl = observe(toks, s)
        except Exception as e:
            impl = {'raised': type(e).__name__}
        ctx.compare('span.resolve', {'cands': cands, 'n': n}, m, impl,
                    kind='pair' if len(cands) == 2 else 'set')


def explore(ctx, seeds):
    cases = list(getattr(ctx, '_c16_cases', None) or _cases(ctx))
    for sd in seeds:
        if isinstance(sd, dict) and 'cands' in sd:
            cases.insert(0, (sd['cands'], sd['n']))
    if ctx.scale > 1:
        rng = ctx.rng('deep')
        for _ in range(20000 * ctx.scale):
            n = rng.randint(1, 16)
            cases.append((random_set(rng, n), n))
    for c in cases:
        cands, n = c[0], c[1]
        w = {'cands': cands, 'n': n}
        if len(c) > 2:
            w['nested'] = True
        ctx.explored_case(w, kind='nested' if len(c) > 2 else 'pair' if len(cands) == 2 else 'set',
                          nontrivial=nontrivial(cands))
        fails, detail = check_witness(w)
        if fails:
            ctx.violation(detail, w)
            if len(ctx.violations) >= 5:
                break
    if cases:
        ctx.sample({'candidates': cases[-1][0], 'n': cases[-1][1],
                    'impl_forest': observe(*run_impl(cases[-1][0], cases[-1][1]))})
