"""
C18 — HTML-based contrib renderers conservatively extend the HTML renderer.

Units `render.<R>`: the real Toc / GithubWiki / MathJax (/ Pygments without code blocks) renderer
against the model with that flavour, byte for byte, on documents with and without extension syntax.
Exploration: the two real renderers compared directly on inputs meeting the side condition.
"""
import re

import common
import export
import gen_docs
import impl
from common import driver_batch

ID = 'C18'
RULE = ('spec corpus, mutations, random and hostile documents, plus documents using $math$ and [[wiki|links]]; each x '
        'the HtmlRenderer option sets passed through; side conditions: no [[..|..]] (GithubWiki), no $ (MathJax), no '
        'code block in the parsed tree (Pygments), none for Toc. Distinct by (renderer, text, options)')
TRUSTED = ['Pygments itself is not modelled; PygmentsRenderer is compared only on documents without code blocks']
ASSUMPTIONS = ['method-resolution tables are read from the imported working tree by introspection on every run']
EXTRA_MODULES = ['Mistletoe.Proofs.ContribSame', 'Mistletoe.Proofs.ContribSame2']
PARTIAL = ['parse-level equality is proved for every text in which the wiki pattern "[[..|..]]" matches nowhere (GithubWiki: the '
           'property\'s own side condition, Props/C18_NoMatch.lean), for every text without "$" (MathJax) and for every text for the '
           'Toc / Pygments token lists (Props/C18_Text.lean); a text with a single "$", or with "$" signs that form no "$..$" pair, is '
           'inside the property but outside the theorem: explored on the implementation; Pygments itself is not modelled (documents '
           'with code blocks are outside its side condition)']

FAMILY = [('TocRenderer', 'toc'), ('GithubWikiRenderer', 'githubWiki'), ('MathJaxRenderer', 'mathjax'),
          ('PygmentsRenderer', 'pygments')]
WIKI = re.compile(r"\[\[ *(.+?) *\| *(.+?) *\]\]")


def walk(tok):
    yield tok
    for c in (tok.children or []):
        yield from walk(c)


def side_condition(rname, text, kw=None):
    if rname == 'GithubWikiRenderer':
        return WIKI.search(text) is None
    if rname == 'MathJaxRenderer':
        return '$' not in text
    if rname == 'PygmentsRenderer':
        try:
            doc = impl.parse_only('HtmlRenderer', kw or {}, text)
        except Exception:
            return False
        return not any(type(t).__name__ in ('CodeFence', 'BlockCode') for t in walk(doc))
    return True


def rendered(rname, kw, text):
    try:
        return ('ok', impl.parse_render(rname, kw, text)[1])
    except Exception as e:
        return ('raised', type(e).__name__)


def check_witness(w):
    rname, kw, text = w['renderer'], w['kwargs'], w['text']
    if not side_condition(rname, text, kw):
        return False, 'side condition not met'
    base = rendered('HtmlRenderer', kw, text)
    got = rendered(rname, kw, text)
    if base[0] == 'ok' and rname == 'MathJaxRenderer':
        from mistletoe.contrib.mathjax import MathJaxRenderer
        base = ('ok', base[1] + MathJaxRenderer.mathjax_src)
    if got != base:
        return True, '%s%r differs from HtmlRenderer on %r: %r vs %r' % (rname, kw, text, got, base)
    return False, 'ok'


def matches_known(v, finding):
    return False


def finding_still_fails(finding):
    return False


def _texts(ctx):
    rng = ctx.rng('texts')
    texts = gen_docs.corpus_stream(rng, ctx.budget(700, 9000))
    ext = ['$x$', '$$y^2$$', '[[a|b]]', '[[ *alt* | link ]]', '$ 5', 'a $b$ c $$', '[[x]]', '`$c$`', '[[`a|b`]]']
    for _ in range(ctx.budget(150, 2000)):
        t = rng.choice(texts)
        ls = t.split('\n')
        i = rng.randrange(len(ls))
        ls[i] = ls[i] + ' ' + rng.choice(ext)
        texts.append('\n'.join(ls))
    texts += ['', '\n', '[foo]: /url "title"\n', 'Foo\nbar\n===\n', '# h\n\n## h2 *x*\n', '1. a\n\n   b\n', '<div>\n']
    return texts


def units(ctx):
    texts = _texts(ctx)
    ctx._c18_texts = texts
    reqs, cases = [], []
    for i, t in enumerate(texts):
        kw = impl.HTML_OPTION_SETS[i % 8]
        for rname, flavor in FAMILY:
            if rname == 'PygmentsRenderer' and not side_condition(rname, t, kw):
                continue
            try:
                doc, out = impl.parse_render(rname, kw, t)
                j = export.export_doc(doc, check_parent=False)
            except Exception:
                continue
            reqs.append({'op': 'html.render', 'opts': impl.lean_html_opts(kw, flavor), 'doc': j})
            cases.append(({'renderer': rname, 'kwargs': kw, 'text': t}, {'out': out}))
    model = driver_batch(reqs)
    for (case, out), m in zip(cases, model):
        ctx.compare('render.' + case['renderer'], case, m, out)


def explore(ctx, seeds):
    texts = list(getattr(ctx, '_c18_texts', None) or _texts(ctx))
    for sd in seeds:
        if isinstance(sd, dict) and isinstance(sd.get('text'), str):
            texts.insert(0, sd['text'])
    if ctx.scale > 1:
        texts += gen_docs.corpus_stream(ctx.rng('deep'), 3000 * ctx.scale)
    for i, t in enumerate(texts):
        kws = impl.HTML_OPTION_SETS if ctx.thorough else [impl.HTML_OPTION_SETS[(i * 3) % 8]]
        for kw in kws:
            for rname, _ in FAMILY:
                w = {'renderer': rname, 'kwargs': kw, 'text': t}
                if not side_condition(rname, t, kw):
                    continue
                ctx.explored_case(w, kind=rname, nontrivial=len(t) > 3)
                fails, detail = check_witness(w)
                if fails:
                    ctx.violation(detail, w)
        if len(ctx.violations) >= 6:
            break
    ctx.sample({'renderer': 'TocRenderer', 'text': texts[1] if len(texts) > 1 else ''})
