"""Writes /verif/MANIFEST.json from the table below (kept in one place so it stays valid)."""
import json
from pathlib import Path

ROOT = Path(__file__).resolve().parent.parent

CHECKS = {
    'C16': dict(
        text='Lean 4 theorems over ALL candidate sets (every user-defined span token type, pattern, precedence, '
             'parse_inner flag and parse group at once): the resolved tokens tile the source exactly, are ordered '
             'and disjoint with children inside the parent parse group at every depth, candidate ordering is a '
             'stable sort, and the two-candidate resolution rule is stated outright. The model of '
             'span_tokenizer.py is hand-written and tied to the code by a correspondence check that drives the '
             'real tokenizer with scripted token classes (exhaustive small pairs + random sets).',
        note='Trusted: Lean kernel; axioms propext/Classical.choice/Quot.sound only; the correspondence harness '
             '(agreement on generated candidate sets only); hypothesis WFCands (parse group inside the match). '
             'Recognition only inside the renderer context is covered under C11.',
        technique='Lean 4 proof (invariant by induction over the candidate fold) + differential correspondence with scripted token classes',
        ref='DESIGN.md section 5, C16'),
}

CHECKS['C15'] = dict(
    text='Lean 4 theorems about the model of Document.__init__ line normalisation: for every text whose only '
         'terminator is \\n, str.splitlines(keepends)+completion equals the list-of-lines and the file-iteration '
         'form, and a final newline after a non-empty last line changes nothing; everything downstream is a function '
         'of that line list. Tied to the code by capturing the line list the real Document hands to the tokenizer '
         '(str, list, StringIO, real file), by an every-code-point comparison of the splitlines separator table '
         '(regenerated from the running interpreter), and by running the real CLI on files.',
    note='Trusted: Lean kernel (axioms propext/Classical.choice/Quot.sound at most); CPython file iteration and the '
         'CLI (argparse/open/stdout) are exercised by correspondence, not modelled; final-newline clause read for '
         'texts with a non-empty last line.',
    technique='Lean 4 proof (induction over the character list) + correspondence on captured line lists + CLI runs',
    ref='DESIGN.md section 5, C15')

CHECKS['C08'] = dict(
    text='Lean 4 theorems for EVERY token tree (not only parser output), every attribute string and all option sets: '
         'the HTML renderer model emits an event list that is properly nested, uses only the fixed tag vocabulary and '
         'attribute names, has attribute values free of quote/angle characters and text with &,<,> only in escaped '
         'form; the raw leaves are exactly the HtmlBlock/HtmlSpan contents in order, and there are none when the tree '
         'has no HTML token. The escaping helpers are per-character maps whose ASCII tables are re-probed from /repo '
         'on every run, so a dropped or reordered escape breaks a `decide` obligation. The renderer model is tied to '
         'the code byte-for-byte on parser ASTs and on hostile edited ASTs under all 8 option sets. For every input TEXT '
         '(Props/C08_EndToEnd.lean): the parse returns a document, every parsed document has heading levels 1-6 '
         '(C12_parsed_shape), so the output is well formed with no hypothesis left (C08_every_text); with HtmlBlock and '
         'HtmlSpan absent from the token lists (process_html_tokens=False) no raw leaf reaches the output at all '
         '(C08_every_text_no_raw).',
    note='Trusted: Lean kernel (axioms propext/Classical.choice/Quot.sound at most); table extraction and the '
         'correspondence harness; htmlcheck.py as executable reading of the predicate on implementation output; '
         'hypothesis levelsOks (heading level 1..6). Pygments output is outside the model.',
    technique='Lean 4 proof (structural induction over the token tree; decide over regenerated escape tables) + byte-exact renderer correspondence',
    ref='DESIGN.md section 5, C08')

CHECKS['C18'] = dict(
    text='Lean 4 theorems `decide`d on tables regenerated from the imported working tree on every run: outside their '
         'own extension keys the Toc/GithubWiki/MathJax/Pygments renderers resolve every render_map entry and every '
         'helper method to the same function as HtmlRenderer (covers the MathJax double-inheritance MRO), and their '
         'token lists differ only by the extension token; in the model the rendering functions are shared and the '
         'output is the HTML output plus the MathJax script suffix. Each real contrib renderer is compared byte for '
         'byte with the model, and with the real HtmlRenderer on inputs meeting the side condition. At TEXT level (Props/C18_Text.lean): for every text without "[[" the GithubWiki renderer, for every text without "$" the MathJax renderer (plus its script line), and for every text the Toc renderer parse to the same document as and produce exactly the output of HtmlRenderer - the span resolver never reads a class index, the extension token finds nothing, and no inline string the constructors tokenize can contain a trigger the text lacks (an invariant through the whole block phase). For the GithubWiki renderer the hypothesis is the property\'s own (Props/C18_NoMatch.lean): the pattern [[..|..]] matches nowhere in the text.',
    note='Trusted: Lean kernel (no axioms beyond propext/Quot.sound/Classical.choice); introspection translator; '
         'correspondence harness. Pygments is not modelled (compared only without code blocks).',
    technique='Lean 4 proof (`decide` over regenerated method-resolution/token tables; relabelling-invariance of the span resolver and a trigger-free invariant through the block phase for the parse equality) + renderer correspondence + direct differential of the real renderers',
    ref='DESIGN.md section 5, C18')

CHECKS['C12'] = dict(
    text='Lean 4 theorems for every tree: the breadth-first tree walk (model of utils.traverse) yields a permutation of '
         'the pre-order list of proper descendants - each reachable token exactly once - each with a parent that lists '
         'it and its depth; klass/depth/include_source act as filters of that walk; get_ast mirrors the tree node for '
         'node. Both models are tied to the real functions on exported real trees (all option combinations). The '
         'clauses about parsed documents (child kinds, exactly one RawText in code/HTML blocks, parent links by object '
         'identity, heading level 1-6, list start vs first marker) are checked on the real object graph by the exporter '
         'over generated inputs under the Html, Markdown, LaTeX and XWiki token sets: that part is exploration, '
         'recorded as partial.',
    note='Trusted: Lean kernel (axioms propext/Classical.choice/Quot.sound at most); json.dumps validity (re-parsed with '
         'json.loads each run); exporter + correspondence harness. Object identity is not modelled.',
    technique='Lean 4 proof (BFS = permutation of pre-order descendants, by induction on fuel/height) + correspondence on exported real trees + run-time shape checks',
    ref='DESIGN.md section 5, C12')

CHECKS['C19'] = dict(
    text='Lean 4 theorems for every tree and configuration: the entries collected while rendering are exactly the '
         'headings (ATX and setext, at any nesting depth) in document pre-order that pass the depth / omit_title / '
         'filter test, and the list lines handed to the tokenizer are indented by 4*(level-base). The model (incl. the '
         'tag-stripping regex) is tied to the real TocRenderer._headings on outline documents and arbitrary documents. '
         'Nesting: for every heading list that is an outline with plain titles the block phase on those lines returns '
         'ONE list nested exactly as the outline (C19_toc_nested, for the token lists regenerated from /repo); the '
         'conclusion is re-checked on the real TocRenderer.toc each run; titles with markup and non-outline lists are '
         'explored on the implementation against the generator outline. Plain text: for titles of raw text, emphasis, '
         'strong, strikethrough, inline code and escapes free of <, >, & the tag-stripping regex removes exactly the tags '
         '(C19_plain_text_entry, C19_plain_text_formatted). END TO END (Props/C19_EndToEnd.lean): the pieces composed into '
         'the property as stated - for a text whose parsed headings are such titles and whose qualifying headings form an '
         'outline, _headings is exactly the qualifying headings in document order and toc is one list nested as their '
         'outline (C19_document_headings, C19_text_toc_current), and - for titles that are inert inline text - the token tree toc returns: '
         'every item a Paragraph of one RawText (Props/C19_Tokens.lean); re-checked on the real TocRenderer (c19.theorem.document).',
    note='Trusted: Lean kernel (axioms propext/Classical.choice/Quot.sound at most); correspondence harness; filters are '
         'substring predicates. A document without qualifying headings is outside the claim.',
    technique='Lean 4 proof (structural induction: collection = filtered pre-order of headings; mutual induction over the outline forest for the list parse) + correspondence of _headings + hypothesis evaluation with conclusion checked on the implementation + outline-oracle exploration',
    ref='DESIGN.md section 5, C19')

CHECKS['C17'] = dict(
    text='Lean 4 theorems for EVERY token tree and every attribute string: the LaTeX renderer model emits an event list '
         'with properly nested brace groups and begin/end pairs, only the renderer\'s own commands, environments and '
         'template literals, document text in which each of $ # { } & _ % ^ \\ occurs only inside an escaped form, URL '
         'arguments without braces/backslashes/raw % #, and a verb delimiter that does not occur in the code (or the '
         'documented refusal). The per-character escape tables are re-probed from /repo on every run, so a dropped or '
         'reordered escape breaks a `decide` obligation. The renderer model is tied to the code byte-for-byte on parser '
         'ASTs and on hostile edited ASTs. For every input TEXT (Props/C17_EndToEnd.lean): the parse returns a document and the renderer either refuses with the documented \\verb refusal or its output is well formed (C17_every_text).',
    note='Trusted: Lean kernel (axioms propext/Classical.choice/Quot.sound at most); table extraction and correspondence '
         'harness; latexcheck.py as executable reading of the predicate on implementation output. Verbatim regions '
         '(verb, lstlisting body, math) are set aside as the property says; URL arguments are a leaf kind with their own '
         'obligation (hyperref reads them verbatim-like).',
    technique='Lean 4 proof (structural induction over the token tree; decide over regenerated escape tables) + byte-exact renderer correspondence',
    ref='DESIGN.md section 5, C17')

CHECKS['C10'] = dict(
    text='Lean 4 theorems for every fragment list and every limit L (unbounded): the word-wrapping core (model of '
         'make_words + fragments_to_lines) emits only lines that fit in L or are exactly one unbreakable word; the '
         'output lines are the input words grouped in order and joined by single spaces (nothing dropped, added or '
         'reordered; only hard-break markers are consumed); the container budget arithmetic is stated outright, '
         'including the zero budget at which wrapping silently switched off. The models are tied to the real '
         'classmethods on generated fragment lists for L in None/0/negative/1..120 and to the budgets the real '
         'renderer hands to nested blocks. On PARSED documents (Props/C10_Reflow.lean), for the plain-word prose '
         'fragment: MarkdownRenderer(max_line_length=L).render(Document(text)) is the greedy re-fill of the same words, a '
         'line longer than L is one word, the HTML is the same up to the position of soft breaks, and reflowing again '
         'changes nothing - the conclusion is re-checked on the real renderer on random fragment documents each run. '
         'LIST ITEMS as containers (Props/C10_Lists.lean): the same four clauses for plain-word paragraphs inside bullet '
         'and ordered lists in normal form, nested to any depth, at top level and inside k block quotes - a paragraph '
         'behind item prefixes of total width w is filled with the budget max(L - 2k - w, 1), every line is prefix + a '
         'line of the fill loop, a body over its budget is one word, the re-filled text parses to the same lists and '
         'words, reflowing again changes nothing (also where budgets clamp at 1); re-checked on the real renderer '
         '(c10.theorem.lists). NOT RE-BROKEN (Props/C10_NoRebreak.lean): for EVERY token tree, limit and option set, ATX '
         'headings, indented and fenced code, HTML blocks, tables and thematic breaks render to the same lines whatever the '
         'limit - alone, inside quotes / lists / list items, and as pieces of an arbitrary document (only paragraphs, setext '
         'headings and link definitions differ); re-checked on the real renderer with the hypothesis evaluated on real token '
         'trees (c10.theorem.rigid). Hard breaks, inline markup and quotes inside items are explored on the implementation '
         'over generated nested prose for L in 1..120.',
    note='Trusted: Lean kernel (axioms propext/Classical.choice/Quot.sound at most); correspondence harness; the '
         'generated prose avoids words that look like block markers at line start (the recorded finding named by the '
         'property).',
    technique='Lean 4 proof (loop invariants of the greedy fill by induction over the word list; renderer computation on the parsed prose fragment via C14/C09) + correspondence of the real classmethods + hypothesis evaluation with conclusion checked on the implementation + four-clause exploration on nested documents',
    ref='DESIGN.md section 5, C10')

CHECKS['C11'] = dict(
    text='Lean 4 theorems over a state machine of the process-global parser state (token lists, code-match hand-over, '
         'parse_setext, _root_node, html._charref), for histories, parse programs and exception points of any length: '
         'exit resets the token lists to the defaults; a with-block over any bundled renderer, started clean, ends clean '
         'whatever is parsed inside and wherever a parse raises; by induction every history ends clean; what a parse '
         'hands through the code-match global does not depend on the state it starts in. Constructor effects are '
         'regenerated from the code on every run. The model is tied to the library by running the same histories '
         '(custom raising tokens at every list position and phase) and comparing the globals after every block; the '
         'property itself is explored by comparing probe outputs after each history with a fresh interpreter.',
    note='Trusted: Lean kernel (axioms propext/Classical.choice/Quot.sound at most); the abstract parse programs are '
         'hand-written per scenario and validated by the state unit; with-blocks are not nested (an inner exit also '
         'removes the outer renderer tokens: outside the claim); fresh-interpreter baseline from a subprocess.',
    technique='Lean 4 proof (invariant by induction over operation histories of a state machine) + history replay against a fresh interpreter',
    ref='DESIGN.md section 5, C11')

CHECKS['C07'] = dict(
    text='Lean 4 theorems for every list of definitions and every label: a reference resolves to the destination and '
         'title of the first definition (in append_footnotes call order) whose label equals it after normalisation, later '
         'duplicates never change an answer, and with no matching definition the lookup fails; normalisation is '
         'whitespace collapsing followed by the case fold whose table is regenerated from the interpreter. The model is '
         'tied to core_tokens.normalize_label (every folded/whitespace code point) and to the real Document.footnotes '
         '(keys, values and insertion order) on generated documents. Over the whole-document model: every inline '
         'tokenization is given the one final table (C07_two_phase) and the call order IS document order - the block '
         'phase leaves in its state exactly the definition entries of the parse buffer in pre-order, inside block quotes '
         'and list items alike (C07_table_is_document_order, C07_first_in_document_order, C07_position_independent; '
         'simultaneous induction over the tokenizer functions); that conclusion is re-checked on the real block phase '
         'each run (c07.order). A REFERENCE IN THE TEXT REACHES THAT LOOKUP (Props/C07_Resolve.lean): for shortcut, '
         'collapsed and full references, links and images, written in otherwise plain text, the inline parser calls the '
         'lookup with normalize_label(label), yields exactly one Link / Image token with the looked-up destination and '
         'title, and no token at all - the text stays literal - when the lookup fails; the document-level corollary '
         '(definition line, blank line, paragraph with the reference renders the link exactly when the labels are equal '
         'after normalisation) is re-checked on the real code each run (c07.resolve). THE DEFINITION LINE ITSELF '
         '(Props/C07_DefLine.lean): Footnote.start / read / match_reference on a run of definition lines (with or without a '
         'title) return exactly those definitions in order, so the document-level statements hold with no assumption about the '
         'block phase, and "the first definition of the run wins" is proved through to the HTML (C07_defs_document, '
         'C07_first_of_run_wins; re-checked on the real code: c07.defs). The implementation is explored with '
         'generated placements (definitions alone and in runs, before/after use, at every nesting level).',
    note='Trusted: Lean kernel (axioms propext/Classical.choice/Quot.sound at most); str.casefold as the Unicode case '
         'fold; correspondence harness. Definitions are placed at block boundaries.',
    technique='Lean 4 proof (fold invariant: table lookup = first matching definition; simultaneous induction over the tokenizer for the registration order) + correspondence of normalize_label and Document.footnotes + conclusion checked on the real block phase + placement exploration with the generator table as oracle',
    ref='DESIGN.md section 5, C07')

CHECKS['C02'] = dict(
    text='The property quantifies over a finite corpus, so it is decided for the model by evaluation in the Lean '
         'kernel: theorem C02_corpus says that the model of Document(markdown) + HtmlRenderer('
         'html_escape_double_quotes=True).render, under the token lists regenerated from /repo, returns the '
         'expected HTML byte for byte on every one of the 652 examples of the vendored CommonMark 0.30 spec.json '
         '(decide +kernel over 32 chunk files, no axioms; byte equality implies equality under the specification\'s '
         'normalisation), and C02_corpus_complete that the table holds exactly examples 1..652. The model is tied to '
         'the code on the same 652 inputs exhaustively (the function the theorem evaluates against the real renderer; '
         'the whole token tree with attributes and line numbers under three HTML option sets) and on mutations of '
         'them; every run also enumerates the corpus on the implementation under the specification driver\'s '
         'normalisation, which is what yields the failing example when something breaks.',
    note='Trusted: Lean kernel reduction (no axioms); harness/extract.py turning spec.json into Lean data (checked '
         'back through the driver against the JSON each run); specnorm.py (normaliser, used only when output is not '
         'byte-identical); the vendored corpus; doc correspondence harness.',
    technique='Lean 4 proof by kernel evaluation (decide +kernel) of the full parse+render model over the finite corpus + exhaustive correspondence on the corpus',
    ref='DESIGN.md section 5, C02 and section 12')

CHECKS['C01'] = dict(
    text='Lean 4 theorems over the parser model, in which every Python raise site of block_tokenizer.py / block_token.py / '
         'core_tokens.py is an explicit error value and every non-structural loop takes fuel: for EVERY list of complete '
         'lines (what Document(str) produces - proved), every token-type list and every amount of gas the block phase '
         'returns no error except running out of gas (none of the IndexError/TypeError/StopIteration/UnboundLocalError '
         'sites is reachable); with gas above an explicit closed-form bound it returns a result, and more gas never '
         'changes the result (termination of the dispatch loop, of every reader loop and of the recursion into '
         'containers). Document-level and inline-level totality theorems are listed in the evidence as they are '
         'added. The model is tied to the code by scanner-level, block-buffer-level and whole-document correspondence '
         '(result or exception kind) on random, mutated, malformed, truncated and deeply nested inputs. Renderers: '
         'parse-and-render returns a string for every text with the HTML renderer, the Markdown renderer (every option '
         'set), the Jira renderer and the XWiki renderer (Props/C01_Renderers.lean: no render-map KeyError, no IndexError '
         'on empty containers, no TypeError; each renderer model raises on a tree exactly outside a decidable shape '
         'predicate that every parsed document satisfies; with the LaTeX renderer a string or the documented \\verb '
         'refusal), the renderer models being tied to the real renderers byte for byte (md.render, jira.render, '
         'xwiki.render units). THE HTML FAMILY (Props/C01_HtmlFamily.lean): every document parsed under the token lists '
         'of HtmlRenderer (with and without process_html_tokens), TocRenderer, GithubWikiRenderer or MathJaxRenderer '
         'holds only tokens that renderer has a render method for, table alignments None/0/1 and well-formed table '
         'headers, so the renderer returns the model\'s string (for PygmentsRenderer: exactly when there is no code '
         'block, Pygments itself being outside the model). Pygments and wall-clock time are not modelled: explored on '
         'the implementation under all configurations.',
    note='Trusted: Lean kernel (axioms propext/Classical.choice/Quot.sound at most); correspondence harness; SIGALRM '
         'budget; Pygments exercised, not modelled; recursion limit represented by the gas bound.',
    technique='Lean 4 proof (simultaneous induction over the gas of the mutually recursive tokenizer; weighted-length measure for termination; shape invariants of parsed trees for renderer totality) + correspondence (parser and renderer models) + exploration of configurations on the implementation',
    ref='DESIGN.md section 5, C01 and section 12')

CHECKS['C06'] = dict(
    text='Lean 4 theorems over the model of core_tokens.py for EVERY text and every table of definitions: the inline '
         'parser never fails (no index access of find_core_tokens / find_link_image / process_emphasis / '
         'Delimiter.remove can raise, both loop fuels suffice - the clause "no such text makes the parser fail"); every '
         'em/strong match has non-empty content between two delimiter strings of equal length 1 or 2 made of one and '
         'the same character * or _; any two matches are disjoint or properly nested. Proving these exposed three '
         'genuine defects (trailing backslash taken into a run; a pending "!" surviving an escape or a code span), '
         'repaired in /repo. The CHOICE of matches is the specification\'s: an independent formal reading of CommonMark '
         '0.30 section 6.2 + appendix in Lean (Spec/Emphasis.lean: runs, flanking, underscore rules, rule of three, '
         'openers_bottom; Spec/EmphasisEsc.lean adds backslash escapes) and the refinement theorems '
         'C06_emphasis_is_spec_partial / C06_emphasis_is_spec_esc_partial - for every text without '
         'backquote, brackets, < and & (and without eight exotic whitespace code points, C06_whitespace_deviation) the '
         'matches of find_core_tokens are, one for one and in order, the specification\'s emphasis nodes; the opener '
         'bottoms never change a result (C06_bottoms_sound). The theorem is re-checked on the real find_core_tokens '
         '(c06.theorem), the Lean specification is compared with the independent Python reading (spec.emph). THE OUTPUT '
         '(Props/C06_Html.lean): the span resolver, the token builder and the HTML renderer turn those matches into '
         '<em>/<strong> elements nested exactly as the specification\'s spans around the escaped text - tokenize_inner + '
         'HtmlRenderer give the specification\'s HTML of the text (C06_html_is_spec_esc_partial; through Document: '
         'C06_paragraph_html_is_spec_esc_partial) for one-line texts without "~~"; re-checked on the real code (c06.theorem.html). Texts '
         'with "!" and "[": exhaustive small-alphabet and random exploration against the Python '
         'oracle. Model tied to the code by an inline-level correspondence (token tree with attributes) on the same '
         'exhaustive strings.',
    note='Trusted: Lean kernel (axioms propext/Classical.choice/Quot.sound at most); inline correspondence harness; '
         'spec_emph.py as oracle for the unproved clause (self-checked against the corpus examples each run).',
    technique='Lean 4 proof (delimiter-stack invariant, decreasing measure; refinement of an independent Lean specification of CommonMark 6.2 by simulation between the delimiter list and the specification stack) + inline correspondence + hypothesis evaluation with conclusion checked on the implementation + exhaustive differential against a second specification oracle',
    ref='DESIGN.md section 5, C06 and section 12')

CHECKS['C04'] = dict(
    text='Lean 4 theorems over the block-parser model, for every buffer, start line, parser state and gas: '
         'tokenize_block on lines each behind "> " or ">" equals one Quote around tokenize_block on the unmarked lines '
         'run with Paragraph.parse_setext off (errors included, definitions unchanged), hence exactly B whenever the '
         'parse does not depend on that switch - the recorded finding setext-in-quote is precisely the failure of that '
         'hypothesis and is exhibited on the model; lines indented as one list item (markers - + * and 1-9 digits with '
         '. or ), padding 1-4) parse to one single-item List whose item content is the parse of the original lines with '
         'the same definitions - in the general form (Props/C04_General.lean) with the marker at indentation 0-3 and '
         'whitespace-only lines allowed, the content being the parse of the text with its spaces-only lines read as '
         'an empty line (exactly B when there is none); every remaining hypothesis has a kernel-checked '
         'counterexample reproduced on the code. Proved for every token-type list in which only types that cannot start on the marked '
         'line precede Quote/List, instantiated for the HTML and Markdown renderer lists. Tied to the code by scanner and '
         'block-buffer correspondence on the original and embedded texts; the metamorphic law itself is also explored on '
         'the implementation (AST of Document(text) vs Document(embed(text))). AT DOCUMENT LEVEL (Props/C04_Document.lean): '
         'Document of the quoted / list-indented lines is one Quote / one single-item List whose children are the children '
         'of the document of the text - same tokens, line numbers and definitions (C04_quote_document, '
         'C04_item_document_partial).',
    note='Trusted: Lean kernel (axioms propext/Classical.choice/Quot.sound at most); correspondence harness; exporter. '
         'Hypotheses of the list half (first character not str.isspace; continuation lines start, after their own '
         'spaces, with a non-isspace character or are spaces-only) and the flag-independence hypothesis of the quote half are '
         'stated in the theorems and in the evidence.',
    technique='Lean 4 proof (reader-by-reader simulation lemmas, equation between the two tokenizer runs) + block-buffer correspondence + metamorphic exploration',
    ref='DESIGN.md section 5, C04 and section 12')

CHECKS['C05'] = dict(
    text='Lean 4 theorems over the block-parser model. Full strength: whatever stands before a block boundary, the '
         'dispatch loop started at the boundary computes exactly tokenize_block of the remaining lines alone with all '
         'line numbers (every depth) shifted by the number of preceding lines - no reader looks at or steps back into '
         'earlier lines (BlockCode back-off, Footnote hand-back, every backstep, List.read anchor reset), for complete '
         'lines. Prefix half, as the property states it (Props/C05_Lists.lean): for A whose last block is closed, parsing A '
         '+ empty line + anything reaches the boundary with A\'s entries and state; hence blockPhase(A ++ ["\\n"] ++ B) = '
         'A\'s entries ++ B\'s entries shifted by |A|+1 when A defines no references - lists anywhere in A included. '
         '(Proving this exposed a genuine defect: List.read read the item behind a marker of another type before '
         'discarding it, which could register a definition from B; repaired in /repo, the model follows the repaired '
         'code; the exploration now contains the input family that exhibits it.) The implementation is explored by the '
         'metamorphic comparison of Document(A), Document(B), Document(A + blank + B) with line numbers and '
         'definitions. Model tied to the code by scanner and block-buffer correspondence on A, B and the concatenations. '
         'AT DOCUMENT LEVEL (Props/C05_Document.lean): the token constructors and the inline phase distribute over the '
         'concatenation and commute with the line shift, so Document(A + blank + B) is A\'s tokens followed by B\'s '
         'tokens with every line number at every depth shifted (C05_document_eq; with definitions: C05_document_general).',
    note='Trusted: Lean kernel (axioms propext/Classical.choice/Quot.sound at most); correspondence harness; exporter. '
         'Class-level scratch is modelled as recomputed from the line start() saw (checked by correspondence on '
         'concatenated documents, not proved about Python attribute semantics).',
    technique='Lean 4 proof (cursor-relation simulation lemmas per reader + simultaneous induction over gas) + block-buffer correspondence + metamorphic exploration',
    ref='DESIGN.md section 5, C05 and section 12')

CHECKS['C14'] = dict(
    text='Lean 4 theorems over the parser and HTML renderer models: lines on which no block-start scanner fires form '
         'exactly one Paragraph of exactly those lines (every token-type list containing Paragraph); a text meeting a '
         'decidable inertness condition (no backslash/backtick, < and & not starting a tag, autolink or reference, no '
         '~~, no ] after the first [, every * or _ run unable to close by the flanking rules; widened in '
         'Props/C14_Wide.lean: runs may open or close as long as no opener precedes a closer of the same character, '
         '"&...;" that html.unescape leaves alone, "]" after "[" when neither "(" nor "[" follows) yields no inline token '
         'candidate at all; end to end Document(text) is one Paragraph of raw text and soft breaks and the renderer '
         'writes "<p>" + escape(text) + "</p>" for every option set. The hypotheses are executable: each run evaluates '
         'them in Lean on thousands of generated paragraphs and checks the theorem\'s conclusion on the REAL renderer '
         'wherever they hold; the conditions have been widened file by file (Props/C14_Wide.lean: inertBody2-5, a "<" that can '
         'complete no tag or autolink; Props/C14_Cont.lean: later lines of a paragraph only have to survive Paragraph.read - '
         'they may begin with "[", be an ordered-list-looking line not numbered 1, be indented four or more spaces); the share '
         'of the specification-derived inert domain they cover is measured each run; '
         'the rest of that domain is explored against an independent spec-derived predicate.',
    note='Trusted: Lean kernel (axioms propext/Classical.choice/Quot.sound at most); doc correspondence; the second '
         'driver (PropsMain.lean) evaluating the hypotheses; the spec-derived predicate of the exploration.',
    technique='Lean 4 proof (scanner lemmas, no-candidate invariant of the core scanner, renderer computation) + hypothesis evaluation with conclusion checked on the implementation + exploration',
    ref='DESIGN.md section 5, C14 and section 12')

CHECKS['C03'] = dict(
    text='Lean 4 compositional theorem for a fragment of the grammar at EVERY nesting depth, by induction over the tree '
         'from the theorems of C14 (inert lines form one paragraph of raw text), C04 (quote wrapping) and C05 (blank-line '
         'independence) plus the dispatch on ATX heading and thematic-break lines: for every well-formed forest of '
         'paragraphs (0-3 spaces of indent), ATX headings and thematic breaks in any spelling the dispatcher accepts, and '
         'block quotes of these with either marker, Document(write(tree)) is exactly the tree with its line numbers and '
         'HtmlRenderer returns byte for byte the HTML written directly from the tree, for the token lists regenerated '
         'from /repo; two spellings of one tree give the same HTML. LISTS (Props/C03_Lists.lean, possible since C05 '
         'holds with lists among earlier siblings): bullet and ordered lists, padding 1-4, tight or loose, any number of '
         'items and of blocks per item, nested lists and quotes to any depth - Document(write(tree)) is the tree (List / '
         'ListItem tokens with loose, start, markers, offsets, line numbers) and the HTML is byte for byte the HTML '
         'written from the tree (C03_lists_document_partial, C03_lists_html_partial). FENCED CODE BLOCKS AND SETEXT '
         'HEADINGS (Props/C03_Code.lean): fences of either character at indentation 0-3 with any info string and any '
         'content that does not close them, at top level, in quotes and in list items; setext headings at top level and '
         'in list items (C03_code_document_partial, C03_code_html_partial) - the proof of the fence case found the '
         'closing-fence defect repaired by 99c8328. TABLES AND INDENTED CODE BLOCKS (Props/C03_Tables.lean): alignments, '
         'short and long body rows, outer pipes per row, cells of inert text; indented code with interior blank lines; at top '
         'level, in quotes and in list items (C03_table_document_partial, C03_table_html_partial) - this proof found the two '
         'whitespace-only-line defects of BlockCode repaired by 0b09465 and 2952153. The hypothesis is executable: each run generates '
         'random forests, evaluates it and the concluded HTML in Lean, and checks the REAL renderer on the written text. '
         'Everything outside the fragment (HTML blocks, link definitions, all '
         'inline constructs other than text and soft breaks, lazy continuation, interruption, list marker indentation, '
         'items beginning with a blank line) is NOT proved: it is '
         'explored with the tree generator (all block and inline kinds, depth <= 4, free spellings, adjacency without '
         'spaces) against an independent HTML oracle under the specification driver\'s normalisation.',
    note='Trusted: Lean kernel (axioms propext/Classical.choice/Quot.sound at most); doc correspondence; the second driver '
         'evaluating hypotheses and conclusions; gen_tree.py writer + expected-HTML writer and specnorm.py for the '
         'explored part.',
    technique='Lean 4 proof (structural induction over the tree composing leaf, wrap and concatenation theorems) + hypothesis/conclusion evaluation checked on the implementation + generator-with-oracle exploration',
    ref='DESIGN.md section 5, C03 and section 12')

CHECKS['C13'] = dict(
    text='Lean 4 theorems over a model of the whole block phase (FileWrapper, every start/read/check_interrupts_paragraph, '
         'tokenize_block, List.read, ListItem.read, Quote.read) in which every line carries as ghost state the index of the '
         'input line it was cut from: for every token list and flags, every list of complete lines (Document(str) always '
         'produces such lines: proved), at every nesting depth, the line number the code stores for a token (start_line + '
         'cursor) equals the index of the input line the token was dispatched on; the lines handed to nested tokenizers '
         'have origins start_line, start_line+1, ...; Footnote.read hands back exactly the lines it consumed; table row k '
         'is input line start_line+k. Proved by simultaneous induction over the call-chain budget of the four mutually '
         'recursive functions, no bound on sizes or depth. The model is tied to the code by the scan.* units (each scanner vs '
         'the compiled pattern) and the block.buffer unit (real tokenize_block vs the model, buffers with line numbers at '
         'every depth). The property itself is also explored on the implementation with a generator that knows where it '
         'wrote each block (this covers the token constructors: ListItem, TableRow, TableCell).',
    note='Trusted: Lean kernel (axioms propext/Classical.choice/Quot.sound at most); the hand-written block model and its '
         'correspondence harness; gen_tree.py as oracle for the exploration. The constructors that copy the buffer line '
         'number into tokens are explored, not modelled.',
    technique='Lean 4 proof (ghost line origins; mutual induction over the tokenizer call chain) + correspondence of scanners and parse buffers + generator-with-oracle exploration',
    ref='DESIGN.md section 5, C13')

CHECKS['C09'] = dict(
    text='Lean theorems (Props/C09.lean) over the parser model and the model of markdown_renderer.py, for the fragment: documents of '
         'inert prose paragraphs, ATX headings, thematic breaks, fenced and indented code blocks (Props/C09_Code.lean) in the renderer\'s normal form, separated by single empty lines, '
         'inside any number of nested block quotes, no line limit, either value of normalize_whitespace: the document is reproduced '
         'byte for byte (C09_blocks_exact_partial, C09_prose_exact_partial), rendering again reproduces it, and the rendered text '
         'parses to the same document with the same definitions and the same HTML under every configuration '
         '(C09_blocks_roundtrip_markdown), instantiated for the token lists regenerated from /repo. The Markdown renderer model is '
         'tied to the code byte for byte on all 652 spec examples x 4 option sets, generated documents and perturbed trees; the '
         'theorem\'s hypotheses are evaluated by the second driver and its conclusion checked on the real renderer. The fragment '
         'has grown by further files: fenced and indented code blocks (Props/C09_Code.lean), bullet and ordered lists in normal '
         'form nested to any depth (Props/C09_Lists.lean), setext headings at top level and HTML blocks of start condition 6 / 7 '
         '(Props/C09_Setext.lean), INLINE MARKUP: one-line paragraphs holding emphasis, strong emphasis and backslash escapes of '
         'the C06 alphabet - the Markdown rendering of the inline tokens is the source text (Props/C09_Emph.lean) - each with its own '
         're-check on the real renderer (c09.theorem.code / .lists / .setext / .emph). Everything '
         'outside the fragment (other block and inline constructs, documents not in normal form) is decided by round-trip '
         'exploration of the three clauses on generated documents and the spec corpus; the spec examples that fail today are '
         'listed individually as known findings.',
    note='Partial: proof for the prose/heading/thematic-break/quote fragment; other constructs by exploration. Trusted: HtmlRenderer output + Document.footnotes as meaning.',
    technique='Lean 4 proof (renderer computation on the parsed fragment composed from the C14 prose, C04 quote-wrap and C05 locality theorems) + byte-exact correspondence of the Markdown renderer model + hypothesis evaluation with conclusion checked on the implementation + round-trip exploration',
    ref='DESIGN.md section 12.2, C09')

NOT_YET = {}


def main():
    props = [json.loads(l) for l in (ROOT / 'properties.jsonl').read_text().splitlines() if l.strip()]
    checks = []
    na = []
    for p in props:
        pid = p['id']
        if pid in CHECKS:
            c = CHECKS[pid]
            checks.append({
                'property_id': pid,
                'quick_cmd': './check %s --tier quick' % pid,
                'thorough_cmd': './check %s --tier thorough' % pid,
                'evidence_file': 'evidence/%s.json' % pid,
                'replay_cmd_template': './check %s --replay {path}' % pid,
                'engine': 'lean-model+correspondence',
                'level_claimed': {'category': c.get('category', 'proof'), 'text': c['text'], 'design_ref': c['ref']},
                'level_note': c['note'],
                'technique': c['technique'],
            })
        else:
            na.append({'property_id': pid,
                       'reason': NOT_YET.get(pid, 'check not built yet in this round (the technique applies; see '
                                                  'DESIGN.md section 11 for the build order) - not claimed until its '
                                                  'theorems and correspondence exist')})
    man = {
        'version': 1,
        'setup_cmd': './setup.sh',
        'hooks': {
            'guard': 'MISTLETOE_VERIF',
            'enable': 'no source hooks in /repo: the harness sets MISTLETOE_VERIF=1 in its own process and wraps '
                      'library functions at run time where a trace is needed',
            'baseline_off_cmd': 'cd /repo && /venv/bin/python -m pytest -ra -q -p no:cacheprovider --timeout=900 '
                                '--continue-on-collection-errors',
            'source_commits': [],
            'add_only': True,
        },
        'engines': [{
            'name': 'lean-model+correspondence',
            'path': 'lean/ (model, proofs, property theorems, native driver) + harness/ (translator, correspondence, search)',
            'serves_properties': [c['property_id'] for c in checks],
            'kind_free_text': 'machine-checked proof in Lean 4 about a hand-written executable model; constants '
                              'regenerated from /repo on every run; model tied to the code by differential '
                              'correspondence; failing-input search with the property predicate on the implementation',
        }],
        'checks': checks,
        'not_applicable': na,
        'notes': 'See DESIGN.md. Exit 0 = held; exit 1 + VIOLATION line = violation (or broken obligation with '
                 'no-failing-input-found); exit 2 = machinery error/timeout.',
    }
    (ROOT / 'MANIFEST.json').write_text(json.dumps(man, indent=1) + '\n')


if __name__ == '__main__':
    main()
