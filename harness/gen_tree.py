"""
Grammar-directed document generator (DESIGN.md generator (c)): produces a *tree* of CommonMark/GFM
constructs first, then writes it out as Markdown in one of the spellings the specification allows
for that tree, and - independently of mistletoe - the HTML the specification assigns to the tree.
The writer also records the 1-based source line on which every block starts (C13) and the link
definitions in document order (C07/C09).
"""
import html as _html

WORDS = ['alpha', 'beta', 'gamma', 'delta', 'one', 'two', 'three', 'foo', 'bar', 'baz', 'lorem', 'ipsum', 'x', 'Zed', 'qux', 'é', 'naïve']


class N:
    def __init__(self, kind, **kw):
        self.kind = kind
        self.__dict__.update(kw)
        self.line = None          # filled by the writer

    def __repr__(self):
        return '%s(%s)' % (self.kind, ', '.join('%s=%r' % (k, v) for k, v in self.__dict__.items() if k not in ('kind', 'line')))


class Opts:
    """Which parts of the grammar / which spellings are allowed (domains of C03, C09, C13 differ)."""
    def __init__(self, **kw):
        self.charrefs = True
        self.escapes = True
        self.setext_in_quote = False      # recorded finding: not recognised there
        self.lazy = True
        self.cont_indent_max = 3
        self.html = True
        self.refs = True
        self.tables = True
        self.blank_first_item = True      # list items that begin with a blank line
        self.leading_blank_lines = True
        self.interrupt = True             # omit the blank line where a block may interrupt a paragraph
        self.adjacent_lists = False       # two lists in a row: recorded finding (looseness of the first)
        self.extra_blank = True           # now and then two or three blank lines between blocks
        self.glue = False                 # write some inline constructs directly next to each other (no space)
        self.__dict__.update(kw)


# ------------------------------------------------------------------ inline ----

def gen_inlines(rng, o, depth=0, n=None, allow_break=True, allow_link=True):
    out = []
    n = n if n is not None else rng.randint(1, 7)
    for i in range(n):
        r = rng.random()
        w = lambda: rng.choice(WORDS)
        if r < 0.5 or depth >= 2:
            out.append(N('text', s=w()))
        elif r < 0.57:
            out.append(N('emph', ch=rng.choice('*_'), kids=gen_inlines(rng, o, depth + 1, rng.randint(1, 3), False, allow_link)))
        elif r < 0.63:
            out.append(N('strong', ch=rng.choice('*_'), kids=gen_inlines(rng, o, depth + 1, rng.randint(1, 3), False, allow_link)))
        elif r < 0.67:
            out.append(N('strike', kids=[k for k in gen_inlines(rng, o, depth + 1, rng.randint(1, 2), False, allow_link) if not has_kind(k, 'strike')]
                         or [N('text', s=w())]))
        elif r < 0.73:
            out.append(N('code', s=rng.choice(['code', 'a b', 'x*y*', '<tag>', 'a_b_', '[l](u)', 'two  spaces']), ticks=rng.choice([1, 1, 2])))
        elif r < 0.79 and allow_link:
            out.append(N('link', kids=gen_inlines(rng, o, depth + 1, rng.randint(1, 2), False, False),
                         dest=rng.choice(['/url', 'http://example.com/a?b=c', '/p/q.html', '#frag']),
                         title=rng.choice([None, None, 'title', 'two words']), angle=rng.random() < 0.2,
                         tq=rng.choice(['"', "'", '('])))
        elif r < 0.83 and allow_link and o.refs:
            out.append(N('reflink', kids=[N('text', s=w())], label=rng.choice(['ref1', 'Ref Two', 'r3']),
                         form=rng.choice(['full', 'collapsed', 'shortcut'])))
        elif r < 0.87 and allow_link:
            out.append(N('image', alt=w(), dest=rng.choice(['/img.png', 'http://example.com/i.jpg']), title=rng.choice([None, 'pic'])))
        elif r < 0.90:
            out.append(N('autolink', url=rng.choice(['http://example.com/x', 'https://a.b/c?d=e', 'mailto:me@example.com'])))
        elif r < 0.93 and o.escapes:
            out.append(N('escape', ch=rng.choice('*_#[]<>&\\`!')))
        elif r < 0.96 and o.charrefs:
            out.append(N('charref', src=rng.choice(['&amp;', '&lt;', '&copy;', '&#35;', '&#x41;', '&quot;'])))
        elif r < 0.98 and o.html:
            out.append(N('rawhtml', s=rng.choice(['<span class="x">', '</span>', '<br/>', '<!-- c -->'])))
        elif allow_break and i not in (0, n - 1):
            out.append(N('break', hard=rng.random() < 0.5, bs=rng.random() < 0.5))
        else:
            out.append(N('text', s=w()))
    # no two breaks in a row, no break at the edges; a run starts with a word, and a word follows every
    # break (so that no line of a paragraph can be mistaken for the start of another block)
    res = []
    for x in out:
        if x.kind == 'break' and (not res or res[-1].kind == 'break'):
            continue
        if res and res[-1].kind == 'break' and x.kind != 'text':
            res.append(N('text', s=rng.choice(WORDS)))
        if x.kind == 'break' and res and res[-1].kind == 'escape' and res[-1].ch == '\\':
            res.append(N('text', s=rng.choice(WORDS)))     # '\\\\' + newline: recorded finding (hard break)
        res.append(x)
    while res and res[-1].kind == 'break':
        res.pop()
    if not res or res[0].kind != 'text':
        res.insert(0, N('text', s=rng.choice(WORDS)))
    if depth > 0 and res[-1].kind != 'text':
        res.append(N('text', s=rng.choice(WORDS)))
    if getattr(o, 'glue', False):
        glue_inlines(rng, res)
    return res


def glue_inlines(rng, res):
    """Adjacency without spaces, only where the specification leaves no doubt about the reading: a code span,
    backslash escape, inline link or autolink written directly after a word, a code span, an escape, a link or
    an autolink.  Excluded: '!' directly before a link (that is an image), two code spans in a row (the
    backtick runs would merge), an escaped backtick or backslash before a code span.  A word before a glued
    code span or escape may get a trailing '!' ("wow!`x`"), which must stay a literal '!'."""
    for i in range(1, len(res)):
        prev, cur = res[i - 1], res[i]
        # emphasis / strong emphasis (either delimiter character) written directly after a construct that ENDS IN ASCII
        # PUNCTUATION: a code span, an autolink, raw inline HTML, an inline link, or a word followed by a punctuation mark
        # (among them the symbols $ + = ^ that Unicode does not class as punctuation but the specification does).  The
        # opening run is then left-flanking and not right-flanking (punctuation before, a letter after: the content of a
        # nested run begins and ends with a word), so the reading is beyond doubt for `*` and for `_`.
        if cur.kind in ('emph', 'strong') and prev.kind in ('text', 'code', 'autolink', 'rawhtml', 'link') and not getattr(prev, 'glue_tail', False):
            if rng.random() < 0.3 and cur.kids and cur.kids[0].kind == 'text' and cur.kids[0].s[0].isalnum():
                if prev.kind == 'text':
                    if not prev.s[-1].isalnum():
                        continue
                    prev.s = prev.s + rng.choice('$+=^).:;,"')
                cur.glue = True
            continue
        if cur.kind not in ('code', 'escape', 'link', 'autolink') or prev.kind not in ('text', 'code', 'escape', 'link', 'autolink'):
            continue
        if rng.random() >= 0.35:
            continue
        if prev.kind == 'code' and cur.kind == 'code':
            continue
        if prev.kind == 'escape' and prev.ch in '`\\' and cur.kind == 'code':
            continue
        if prev.kind == 'text':
            if not prev.s[-1].isalnum():
                continue
            if cur.kind in ('code', 'escape') and rng.random() < 0.4:
                prev.s = prev.s + '!'
        cur.glue = True


def has_kind(x, kind):
    return x.kind == kind or any(has_kind(k, kind) for k in getattr(x, 'kids', []) if isinstance(k, N))


def write_inlines(rng, nodes):
    """Source text of a run of inlines (may contain '\\n' for breaks); constructs are separated by
    spaces so that flanking is never in doubt."""
    parts = []
    for x in nodes:
        if x.kind == 'text':
            parts.append(x.s)
        elif x.kind == 'emph':
            parts.append(x.ch + write_inlines(rng, x.kids) + x.ch)
        elif x.kind == 'strong':
            parts.append(x.ch * 2 + write_inlines(rng, x.kids) + x.ch * 2)
        elif x.kind == 'strike':
            parts.append('~~' + write_inlines(rng, x.kids) + '~~')
        elif x.kind == 'code':
            t = '`' * x.ticks
            parts.append(t + x.s + t)
        elif x.kind == 'link':
            d = '<%s>' % x.dest if x.angle else x.dest
            close = {'"': '"', "'": "'", '(': ')'}[x.tq]
            t = ' %s%s%s' % (x.tq, x.title, close) if x.title else ''
            parts.append('[%s](%s%s)' % (write_inlines(rng, x.kids), d, t))
        elif x.kind == 'reflink':
            inner = write_inlines(rng, x.kids)
            if x.form == 'full':
                parts.append('[%s][%s]' % (inner, x.label))
            elif x.form == 'collapsed':
                parts.append('[%s][]' % x.label)
            else:
                parts.append('[%s]' % x.label)
        elif x.kind == 'image':
            t = ' "%s"' % x.title if x.title else ''
            parts.append('![%s](%s%s)' % (x.alt, x.dest, t))
        elif x.kind == 'autolink':
            parts.append('<%s>' % x.url)
        elif x.kind == 'escape':
            parts.append('\\' + x.ch)
        elif x.kind == 'charref':
            parts.append(x.src)
        elif x.kind == 'rawhtml':
            parts.append(x.s)
        elif x.kind == 'break':
            parts.append('\n')
    out = ''
    for i, p in enumerate(parts):
        if p == '\n':
            out = out.rstrip(' ')
            brk = nodes[i]
            out += ('\\\n' if brk.bs else '  \n') if brk.hard else '\n'
        else:
            if out and not out.endswith('\n') and not getattr(nodes[i], 'glue', False):
                out += ' '
            out += p
    return out


def esc(s):
    return s.replace('&', '&amp;').replace('<', '&lt;').replace('>', '&gt;').replace('"', '&quot;')


def plain(nodes):
    out = []
    for x in nodes:
        if x.kind == 'text':
            out.append(x.s)
        elif x.kind in ('emph', 'strong', 'strike', 'link', 'reflink'):
            out.append(plain(x.kids) if x.kind != 'reflink' or x.form == 'full' else x.label)
        elif x.kind == 'code':
            out.append(x.s)
        elif x.kind == 'escape':
            out.append(x.ch)
        elif x.kind == 'charref':
            out.append(_html.unescape(x.src))
    return ' '.join(out)


def html_inlines(nodes, defs):
    parts = []
    for i, x in enumerate(nodes):
        if x.kind == 'text':
            parts.append(esc(x.s))
        elif x.kind == 'emph':
            parts.append('<em>%s</em>' % html_inlines(x.kids, defs))
        elif x.kind == 'strong':
            parts.append('<strong>%s</strong>' % html_inlines(x.kids, defs))
        elif x.kind == 'strike':
            parts.append('<del>%s</del>' % html_inlines(x.kids, defs))
        elif x.kind == 'code':
            parts.append('<code>%s</code>' % esc(x.s))
        elif x.kind == 'link':
            t = ' title="%s"' % esc(x.title) if x.title else ''
            parts.append('<a href="%s"%s>%s</a>' % (esc(x.dest), t, html_inlines(x.kids, defs)))
        elif x.kind == 'reflink':
            key = ' '.join(x.label.split()).casefold()
            inner = html_inlines(x.kids, defs) if x.form == 'full' else esc(x.label)
            if key in defs:
                dest, title = defs[key]
                t = ' title="%s"' % esc(title) if title else ''
                parts.append('<a href="%s"%s>%s</a>' % (esc(dest), t, inner))
            else:
                parts.append(esc({'full': '[%s][%s]' % (plain(x.kids), x.label), 'collapsed': '[%s][]' % x.label,
                                  'shortcut': '[%s]' % x.label}[x.form]))
        elif x.kind == 'image':
            t = ' title="%s"' % esc(x.title) if x.title else ''
            parts.append('<img src="%s" alt="%s"%s />' % (esc(x.dest), esc(x.alt), t))
        elif x.kind == 'autolink':
            parts.append('<a href="%s">%s</a>' % (esc(x.url), esc(x.url)))
        elif x.kind == 'escape':
            parts.append(esc(x.ch))
        elif x.kind == 'charref':
            parts.append(esc(_html.unescape(x.src)))
        elif x.kind == 'rawhtml':
            parts.append(x.s)
        elif x.kind == 'break':
            parts.append('<br />\n' if x.hard else '\n')
    out = ''
    for i, p in enumerate(parts):
        if nodes[i].kind == 'break':
            out += p
        else:
            if out and not out.endswith('\n') and not getattr(nodes[i], 'glue', False):
                out += ' '
            out += p
    return out


# ------------------------------------------------------------------ blocks ----

def gen_blocks(rng, o, depth, n, in_quote=False):
    out = []
    prev = None
    for _ in range(n):
        b = gen_block(rng, o, depth, in_quote, prev)
        while prev is not None and ((prev.kind == 'list' and b.kind == 'icode') or (prev.kind == 'icode' and b.kind == 'icode')
                                    or (prev.kind == 'list' and b.kind == 'list' and not o.adjacent_lists)):
            # indented code after a list would be read as part of the last item; two indented code blocks
            # separated by a blank line are one block; adjacent lists: recorded finding (looseness)
            b = gen_block(rng, o, depth, in_quote, prev)
        if prev is not None and prev.kind == 'list' and hasattr(b, 'indent'):
            b.indent = 0
        out.append(b)
        prev = b
    return out


def gen_block(rng, o, depth, in_quote, prev):
    r = rng.random()
    if depth < 4 and r < 0.13:
        # one quote in eight OPENS with 1-3 empty marker lines (`>` alone): still one quote, its blocks start later
        return N('quote', kids=gen_blocks(rng, o, depth + 1, rng.randint(1, 3), True), sp=rng.random() < 0.8,
                 lead=rng.choice([0] * 14 + [1, 2, 2, 3]))
    if depth < 4 and r < 0.30:
        ordered = rng.random() < 0.4
        tight = rng.random() < 0.5
        items = []
        for _ in range(rng.randint(1, 3)):
            if tight:
                kids = [N('para', kids=gen_inlines(rng, o, n=rng.randint(1, 4), allow_break=False))]
                if depth < 3 and rng.random() < 0.25:
                    sub = gen_block(rng, o, depth + 1, in_quote, None)
                    tries = 0
                    while (sub.kind != 'list' or not sub.tight) and tries < 20:
                        sub = gen_block(rng, o, depth + 1, in_quote, None)
                        tries += 1
                    if sub.kind == 'list' and sub.tight:
                        sub.no_blank_first = True
                        if sub.ordered:
                            sub.start = 1          # only then may it follow the paragraph without a blank line
                        kids.append(sub)
            else:
                kids = gen_blocks(rng, o, depth + 1, rng.randint(1, 3), in_quote)
            items.append(N('item', kids=kids, blank_first=False))
        if len(items) == 1 and not tight and len(items[0].kids) == 1:
            tight = True      # a single item with a single block has no blank line that could make it loose
        bullet = rng.choice('-+*')
        delim = rng.choice('.)')
        if prev is not None and prev.kind == 'list' and prev.ordered == ordered:
            if ordered:
                delim = '.' if prev.delim == ')' else ')'
            else:
                bullet = {'-': '+', '+': '*', '*': '-'}[prev.bullet]
        return N('list', ordered=ordered, start=rng.choice([1, 1, 2, 7, 10, 0, 999999997]) if ordered else None, tight=tight, items=items,
                 bullet=bullet, delim=delim, pad=rng.randint(1, 4), indent=rng.choice([0, 0, 0, 1, 2, 3]))
    if r < 0.37:
        # one in twelve ATX headings is EMPTY (spec 4.2: "ATX headings can be empty"): `#`, `# `, `## ##`
        return N('atx', level=rng.randint(1, 6), kids=gen_inlines(rng, o, n=rng.randint(1, 4), allow_break=False) if rng.random() > 0.085 else [],
                 closing=rng.choice([0, 0, 1, 3]), indent=rng.randint(0, 3))
    # inside a block quote the pinned Quote.read has setext headings switched off (recorded finding) - until a NESTED quote has been
    # read, which switches them on again for the rest of the enclosing quote: a setext heading whose previous sibling is a quote is
    # recognised, and is generated here
    if r < 0.42 and (o.setext_in_quote or not in_quote or (prev is not None and prev.kind == 'quote')):
        return N('setext', level=rng.choice([1, 2]), kids=gen_inlines(rng, o, n=rng.randint(1, 5), allow_break=False), ul=rng.randint(1, 6))
    if r < 0.46:
        return N('hr', s=rng.choice(['***', '---', '___', '* * *', '- - -', '_____']), indent=rng.randint(0, 3))
    if r < 0.54:
        ch = rng.choice('`~')
        n = rng.randint(3, 5)
        f = ch * n
        other = '~' if ch == '`' else '`'
        # lines that begin like a fence and are CONTENT by the specification (4.5: a closing fence is of the opening fence's
        # character, at least as long, and followed only by spaces): fence + text, a shorter run, the other character
        fencelike = [f + 'abc', f + ' x', ch * (n - 1), other * n, f + other * 3, ch * (n + 1) + '.']
        return N('fence', ch=ch, n=n, info=rng.choice(['', '', 'py', 'sh x=1']), indent=rng.randint(0, 3),
                 lines=[rng.choice(['x = 1', '', '  indented', '# not a heading', '> not a quote', '- not a list', '*a*', '    four', 'ü']
                                   + (fencelike if rng.random() < 0.3 else []))
                        for _ in range(rng.randint(0, 4))])
    if r < 0.58:
        return N('icode', lines=[rng.choice(['code line', 'x = 1', '  more', '*not em*']) for _ in range(rng.randint(1, 3))])
    if r < 0.62 and o.tables:
        ncol = rng.randint(1, 3)
        return N('table', aligns=[rng.choice([None, None, 0, 1]) for _ in range(ncol)],
                 header=[gen_inlines(rng, o, 1, rng.randint(1, 2), False) for _ in range(ncol)],
                 rows=[[gen_inlines(rng, o, 1, rng.randint(1, 2), False) for _ in range(ncol)] for _ in range(rng.randint(0, 3))],
                 outer=rng.random() < 0.7)
    if r < 0.65 and o.html:
        return N('html', lines=['<div class="c">', rng.choice(['text *not em*', '<p>inner</p>', 'plain']), '</div>'][:rng.choice([1, 3])])
    if r < 0.70 and o.refs:
        return N('def', label=rng.choice(['ref1', 'Ref Two', 'r3', 'REF1']), dest=rng.choice(['/d1', '/d2', 'http://x.y/z']),
                 title=rng.choice([None, 'T']))
    return N('para', kids=gen_inlines(rng, o))


def can_interrupt(b):
    """May this block directly follow a paragraph line (no blank line) and still be itself?"""
    if b.kind == 'atx' or b.kind == 'fence' or b.kind == 'quote':
        return True
    if b.kind == 'hr':
        return b.s[0] != '-'
    if b.kind == 'list':
        return (not b.ordered) or b.start == 1
    if b.kind == 'table':
        # GFM: a header row + delimiter row directly after paragraph text begin a table (mistletoe's documented default,
        # Table.interrupt_paragraph = True; the paragraph keeps the lines before the header row)
        return True
    return False


class Writer:
    def __init__(self, rng, o):
        self.rng = rng
        self.o = o
        self.defs = []        # (label, dest, title) in document order

    def para_lines(self, kids, first_ok=True):
        src = write_inlines(self.rng, kids)
        lines = src.split('\n')
        out = []
        for i, l in enumerate(lines):
            ind = ' ' * self.rng.randint(0, self.o.cont_indent_max) if i > 0 and self.rng.random() < 0.3 else ''
            out.append(ind + l)
        return out

    def block(self, b, in_quote):
        """Returns the block's lines (relative to its container's content column); sets .rel on nodes
        as offsets within these lines."""
        rng = self.rng
        b.rel = 0
        if b.kind == 'para':
            return self.para_lines(b.kids)
        if b.kind == 'atx':
            if not b.kids:
                return [' ' * b.indent + '#' * b.level + rng.choice(['', '', ' ', (' ' + '#' * b.closing) if b.closing else ''])]
            s = ' ' * b.indent + '#' * b.level + ' ' + write_inlines(rng, b.kids)
            if b.closing:
                s += ' ' + '#' * b.closing
            return [s]
        if b.kind == 'setext':
            return [write_inlines(rng, b.kids), ('=' if b.level == 1 else '-') * b.ul]
        if b.kind == 'hr':
            return [' ' * b.indent + b.s]
        if b.kind == 'fence':
            ind = ' ' * b.indent
            f = b.ch * b.n
            return [ind + f + (b.info and (' ' * rng.randint(0, 1) + b.info))] + [(ind + l) if l else '' for l in b.lines] + [ind + f]
        if b.kind == 'icode':
            return ['    ' + l for l in b.lines]
        if b.kind == 'table':
            def row(cells):
                inner = ' | '.join(write_inlines(rng, c) for c in cells)
                return '| ' + inner + ' |' if b.outer or len(cells) == 1 else inner
            delim = ' | '.join({None: '---', 0: ':-:', 1: '--:'}[a] for a in b.aligns)
            delim = '| ' + delim + ' |' if b.outer or len(b.aligns) == 1 else delim
            return [row(b.header), delim] + [row(r) for r in b.rows]
        if b.kind == 'html':
            return list(b.lines)
        if b.kind == 'def':
            self.defs.append((b.label, b.dest, b.title or ''))
            return ['[%s]: %s%s' % (b.label, b.dest, ' "%s"' % b.title if b.title else '')]
        if b.kind == 'quote':
            inner = self.blocks(b.kids, True)
            out = []
            for l in inner:
                if l == '':
                    out.append('>')
                else:
                    out.append(('> ' if (b.sp or l.startswith(' ')) else '>') + l)
            # lazy continuation: the last line of a trailing paragraph may drop its marker
            last = b.kids[-1]
            if self.o.lazy and last.kind == 'para' and len(out) >= 2 and rng.random() < 0.25:
                body = out[-1][2:] if out[-1].startswith('> ') else out[-1][1:]
                prevline = out[-2]
                if prevline not in ('>',) and body and not body[0] in '#>-+*=`~|<[0123456789 ' and len(inner) >= 2 and inner[-2] != '':
                    out[-1] = body
            return [rng.choice(['>', '>', '> ']) for _ in range(getattr(b, 'lead', 0))] + out
        if b.kind == 'list':
            out = []
            any_blank = False
            for k, it in enumerate(b.items):
                marker = (str(b.start + k) + b.delim) if b.ordered else b.bullet
                w = len(marker) + b.pad
                first_kid = it.kids[0]
                if hasattr(first_kid, 'indent'):
                    first_kid.indent = 0        # up to four spaces after the marker belong to the marker
                if first_kid.kind == 'hr' and not b.ordered and first_kid.s[0] == b.bullet:
                    first_kid.s = '___'         # '* ***' as a whole would be a thematic break
                if first_kid.kind == 'list' and not b.ordered and not first_kid.ordered and first_kid.bullet == b.bullet:
                    # '- - -' (a bullet list in a bullet list in a bullet list with one and the same marker, the innermost
                    # item beginning with a blank line or another such list) as a whole would be a thematic break
                    first_kid.bullet = {'-': '+', '+': '*', '*': '-'}[b.bullet]
                inner = self.blocks(it.kids, in_quote, tight=b.tight)
                any_blank = any_blank or self.last_blanks > 0
                it.rel = len(out)
                if first_kid.kind == 'icode':
                    w = len(marker) + 1          # marker, one space, then the code's own four columns
                it.shift = 0
                if (self.o.blank_first_item and first_kid.kind in ('para', 'atx', 'fence', 'quote') and rng.random() < 0.12 and inner
                        and not getattr(b, 'no_blank_first', False)):
                    # the item begins with a blank line: marker alone, content from the next line on
                    w = len(marker) + 1
                    lines = [marker] + [(' ' * w + l) if l else '' for l in inner]
                    it.shift = 1
                else:
                    lines = [marker + ' ' * (w - len(marker)) + inner[0]] + [(' ' * w + l) if l else '' for l in inner[1:]]
                if k:
                    if not b.tight:
                        out.append('')
                        it.rel += 1
                        any_blank = True
                out += lines
            b.tight = not any_blank       # looseness is decided by the blank lines actually written
            if getattr(b, 'indent', 0):
                # 0-3 spaces before the list markers (every line of the list moves with them)
                out = [(' ' * b.indent + l) if l else '' for l in out]
            return out
        raise ValueError(b.kind)

    def blocks(self, bs, in_quote, tight=False):
        out = []
        prev = None
        self.last_blanks = 0
        blanks = 0
        for b in bs:
            sep = not tight
            if prev is not None and prev.kind == 'para' and self.o.interrupt and can_interrupt(b) and self.rng.random() < 0.3:
                sep = False
            if prev is not None and prev.kind == 'def' and b.kind == 'def':
                sep = self.rng.random() < 0.5
            if prev is not None and not sep and b.kind == 'list':
                b.no_blank_first = True       # an empty first item cannot interrupt a paragraph
            lines = self.block(b, in_quote)
            if prev is not None and sep:
                out.append('')
                blanks += 1
                if self.o.extra_blank and self.rng.random() < 0.08:
                    # more than one blank line between two blocks means the same as one
                    out += [''] * self.rng.randint(1, 2)
            b.rel = len(out)
            out += lines
            prev = b
        self.last_blanks = blanks
        return out


def assign_lines(bs, base):
    """Absolute 1-based lines from the relative offsets recorded by the writer."""
    for b in bs:
        b.line = base + b.rel
        if b.kind == 'quote':
            assign_lines(b.kids, b.line + getattr(b, 'lead', 0))
        elif b.kind == 'list':
            for it in b.items:
                it.line = b.line + it.rel
                assign_lines(it.kids, it.line + it.shift)


def generate(rng, o=None, nblocks=None):
    o = o or Opts()
    bs = gen_blocks(rng, o, 0, nblocks or rng.randint(1, 6))
    w = Writer(rng, o)
    lines = w.blocks(bs, False)
    # a blank line may be spelled with spaces (spec 2.1: "a line containing no characters, or a line containing only spaces or
    # tabs, is called a blank line"): one top-level separator in twelve is 1-6 spaces
    for blk in bs[1:]:
        j = blk.rel - 1
        while j >= 0 and lines[j] == '':
            if rng.random() < 0.085:
                lines[j] = ' ' * rng.choice([1, 2, 3, 4, 4, 6])
            j -= 1
    lead = rng.randint(0, 2) if (o.leading_blank_lines and rng.random() < 0.2) else 0
    assign_lines(bs, 1 + lead)
    text = '\n' * lead + '\n'.join(lines) + '\n'
    defs = {}
    for label, dest, title in w.defs:
        defs.setdefault(' '.join(label.split()).casefold(), (dest, title))
    return bs, text, w.defs, defs


# ------------------------------------------------------------------ expected HTML ----

def html_blocks(bs, defs, tight=False):
    parts = []
    for b in bs:
        if b.kind == 'para':
            inner = html_inlines(b.kids, defs)
            parts.append(inner if tight else '<p>%s</p>' % inner)
        elif b.kind in ('atx', 'setext'):
            parts.append('<h%d>%s</h%d>' % (b.level, html_inlines(b.kids, defs), b.level))
        elif b.kind == 'hr':
            parts.append('<hr />')
        elif b.kind == 'fence':
            lang = b.info.split()[0] if b.info else ''
            cls = ' class="language-%s"' % lang if lang else ''
            parts.append('<pre><code%s>%s</code></pre>' % (cls, esc(''.join(l + '\n' for l in b.lines))))
        elif b.kind == 'icode':
            parts.append('<pre><code>%s</code></pre>' % esc(''.join(l + '\n' for l in b.lines)))
        elif b.kind == 'quote':
            inner = html_blocks(b.kids, defs)
            parts.append('<blockquote>\n%s</blockquote>' % (inner + '\n' if inner else ''))
        elif b.kind == 'list':
            tag = 'ol' if b.ordered else 'ul'
            attr = ' start="%d"' % b.start if b.ordered and b.start != 1 else ''
            items = []
            for it in b.items:
                inner = html_blocks(it.kids, defs, tight=b.tight)
                if inner == '':
                    items.append('<li></li>')
                elif b.tight:
                    items.append('<li>%s</li>' % inner)
                else:
                    items.append('<li>\n%s\n</li>' % inner)
            parts.append('<%s%s>\n%s\n</%s>' % (tag, attr, '\n'.join(items), tag))
        elif b.kind == 'table':
            def cell(tag, a, c):
                return '<%s align="%s">%s</%s>' % (tag, {None: 'left', 0: 'center', 1: 'right'}[a], html_inlines(c, defs), tag)
            head = '<thead>\n<tr>\n%s\n</tr>\n</thead>' % '\n'.join(cell('th', a, c) for a, c in zip(b.aligns, b.header))
            body = '<tbody>\n%s</tbody>' % ''.join('<tr>\n%s\n</tr>\n' % '\n'.join(cell('td', a, c) for a, c in zip(b.aligns, r)) for r in b.rows)
            parts.append('<table>\n%s\n%s\n</table>' % (head, body))
        elif b.kind == 'html':
            parts.append('\n'.join(b.lines))
        elif b.kind == 'def':
            continue
    return '\n'.join(parts)


def expected_html(bs, defs):
    inner = html_blocks(bs, defs)
    return inner + '\n' if inner else ''


# ------------------------------------------------------------------ expected line numbers ----

def expected_lines(bs):
    """[(token class name, line)] in the pre-order in which mistletoe lists block tokens."""
    out = []
    for b in bs:
        if b.kind == 'para':
            out.append(('Paragraph', b.line))
        elif b.kind == 'atx':
            out.append(('Heading', b.line))
        elif b.kind == 'setext':
            out.append(('SetextHeading', b.line))
        elif b.kind == 'hr':
            out.append(('ThematicBreak', b.line))
        elif b.kind == 'fence':
            out.append(('CodeFence', b.line))
        elif b.kind == 'icode':
            out.append(('BlockCode', b.line))
        elif b.kind == 'html':
            out.append(('HtmlBlock', b.line))
        elif b.kind == 'quote':
            out.append(('Quote', b.line))
            out += expected_lines(b.kids)
        elif b.kind == 'list':
            out.append(('List', b.line))
            for it in b.items:
                out.append(('ListItem', it.line))
                out += expected_lines(it.kids)
        elif b.kind == 'table':
            out.append(('Table', b.line))
            out.append(('TableRow', b.line))
            out += [('TableCell', b.line)] * len(b.header)
            for i, r in enumerate(b.rows):
                out.append(('TableRow', b.line + 2 + i))
                out += [('TableCell', b.line + 2 + i)] * len(b.aligns)
    return out


def actual_lines(doc):
    out = []

    def rec(t):
        for c in (t.children or []):
            n = type(c).__name__
            if n in ('Paragraph', 'Heading', 'SetextHeading', 'ThematicBreak', 'CodeFence', 'BlockCode', 'HtmlBlock', 'Quote', 'List',
                     'ListItem', 'Table', 'TableRow', 'TableCell'):
                out.append((n, c.line_number))
                if n == 'Table' and 'header' in vars(c):
                    out.append(('TableRow', c.header.line_number))
                    out.extend(('TableCell', x.line_number) for x in c.header.children)
                if n in ('Quote', 'List', 'ListItem', 'Table', 'TableRow'):
                    rec(c)
    rec(doc)
    return out
