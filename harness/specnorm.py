"""
Normalisation of HTML the way the CommonMark specification's own test driver compares outputs
(test/normalize.py of the spec repository, re-implemented): whitespace that is insignificant
between block-level tags is dropped, runs of whitespace outside <pre> collapse, attributes are
sorted, character references are decoded.  Content inside <pre> is kept verbatim.
"""
import html
import re
from html.parser import HTMLParser
from html.entities import name2codepoint

WS = re.compile(r'\s+')
BLOCK_TAGS = {'article', 'header', 'aside', 'hgroup', 'blockquote', 'hr', 'iframe', 'body', 'li', 'map', 'button',
              'object', 'canvas', 'ol', 'caption', 'output', 'col', 'p', 'colgroup', 'pre', 'dd', 'progress', 'div',
              'section', 'dl', 'table', 'td', 'dt', 'tbody', 'embed', 'textarea', 'fieldset', 'tfoot', 'figcaption',
              'th', 'figure', 'thead', 'footer', 'tr', 'form', 'ul', 'h1', 'h2', 'h3', 'h4', 'h5', 'h6', 'video',
              'script', 'style'}


class _Norm(HTMLParser):
    def __init__(self):
        HTMLParser.__init__(self, convert_charrefs=False)
        self.last = 'starttag'
        self.in_pre = False
        self.output = ''
        self.last_tag = ''

    def handle_data(self, data):
        after_tag = self.last in ('endtag', 'starttag')
        after_block_tag = after_tag and self.last_tag in BLOCK_TAGS
        if after_tag and self.last_tag == 'br':
            data = data.lstrip('\n')
        if not self.in_pre:
            data = WS.sub(' ', data)
        if after_block_tag and not self.in_pre:
            if self.last == 'starttag':
                data = data.lstrip()
            elif self.last == 'endtag':
                data = data.strip()
        self.output += data
        self.last = 'data'

    def handle_endtag(self, tag):
        if tag == 'pre':
            self.in_pre = False
        elif tag in BLOCK_TAGS:
            self.output = self.output.rstrip()
        self.output += '</' + tag + '>'
        self.last_tag = tag
        self.last = 'endtag'

    def handle_starttag(self, tag, attrs):
        if tag == 'pre':
            self.in_pre = True
        if tag in BLOCK_TAGS:
            self.output = self.output.rstrip()
        self.output += '<' + tag
        for k, v in sorted(attrs, key=lambda kv: (kv[0], kv[1] or '')):
            self.output += ' ' + k
            if v is not None:
                self.output += '="' + html.escape(html.unescape(v), quote=True) + '"'
        self.output += '>'
        self.last_tag = tag
        self.last = 'starttag'

    def handle_startendtag(self, tag, attrs):
        self.handle_starttag(tag, attrs)
        self.last_tag = tag
        self.last = 'endtag'

    def handle_comment(self, data):
        self.output += '<!--' + data + '-->'
        self.last = 'comment'

    def handle_decl(self, data):
        self.output += '<!' + data + '>'
        self.last = 'decl'

    def unknown_decl(self, data):
        self.output += '<![' + data + ']>'
        self.last = 'decl'

    def handle_pi(self, data):
        self.output += '<?' + data + '>'
        self.last = 'pi'

    def handle_entityref(self, name):
        try:
            c = chr(name2codepoint[name])
        except KeyError:
            c = None
        self._entity(c, '&' + name + ';')
        self.last = 'ref'

    def handle_charref(self, name):
        try:
            c = chr(int(name[1:], 16)) if name.startswith(('x', 'X')) else chr(int(name))
        except Exception:
            c = None
        self._entity(c, '&#' + name + ';')
        self.last = 'ref'

    def _entity(self, c, fallback):
        if c == '<':
            self.output += '&lt;'
        elif c == '>':
            self.output += '&gt;'
        elif c == '&':
            self.output += '&amp;'
        elif c == '"':
            self.output += '&quot;'
        elif c is None:
            self.output += fallback
        else:
            self.output += c


def normalize(s):
    try:
        p = _Norm()
        p.feed(s)
        p.close()
        return p.output
    except Exception:
        return s
