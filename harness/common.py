"""
Shared machinery of the checks: regenerate + build the Lean development, audit the property
theorems, talk to the native model driver, collect correspondence results and property
violations, reach a verdict, write evidence.  See DESIGN.md section 4.
"""
import fcntl
import hashlib
import json
import os
import random
import re
import subprocess
import sys
import time
import traceback
from pathlib import Path

ROOT = Path(__file__).resolve().parent.parent
LEAN = ROOT / 'lean'
REPO = Path(os.environ.get('MISTLETOE_REPO', '/repo'))
EVIDENCE = Path(os.environ.get('VERIF_EVIDENCE_DIR') or (ROOT / 'evidence'))   # scratch runs on seeded changes write elsewhere
REPLAYS = EVIDENCE / 'replays'
DRIVER = LEAN / '.lake' / 'build' / 'bin' / 'driver'
PY = sys.executable
ALLOWED_AXIOMS = {'propext', 'Classical.choice', 'Quot.sound'}
GUARD = 'MISTLETOE_VERIF'

os.environ[GUARD] = '1'
if str(REPO) not in sys.path:
    sys.path.insert(0, str(REPO))


class MachineryError(Exception):
    """Internal error of the checking machinery: exit 2, never a VIOLATION."""


def stable_hash(obj) -> str:
    return hashlib.sha256(json.dumps(obj, sort_keys=True, default=str).encode()).hexdigest()[:12]


def sub_rng(seed, *names):
    h = hashlib.sha256(repr((seed,) + names).encode()).digest()
    return random.Random(int.from_bytes(h[:8], 'big'))


# --------------------------------------------------------------------------------------
# Lean side
# --------------------------------------------------------------------------------------

class LeanState:
    """Result of regenerate + build + audit for one property."""

    def __init__(self):
        self.gen_changed = []
        self.build_ok = False
        self.build_log = ''
        self.driver_ok = False
        self.theorems = {}       # name -> list of axioms (or None if it could not be checked)
        self.bad = []            # human-readable reasons why an obligation is not discharged
        self.statements = {}     # name -> statement text (for the evidence samples)


def _run(cmd, cwd=None, timeout=3600, env=None):
    """Run a command in its own process group; on timeout the whole group (lake and the lean processes it
    started) is killed and the return code is 124."""
    import signal
    p = subprocess.Popen(cmd, cwd=cwd, stdout=subprocess.PIPE, stderr=subprocess.STDOUT, env=env, text=True,
                         start_new_session=True)
    try:
        out, _ = p.communicate(timeout=timeout)
        return p.returncode, out
    except subprocess.TimeoutExpired:
        try:
            os.killpg(p.pid, signal.SIGKILL)
        except ProcessLookupError:
            pass
        out, _ = p.communicate()
        return 124, (out or '') + '\nerror: timed out after %ds: %s' % (timeout, ' '.join(cmd))


def strip_lean_comments(src: str) -> str:
    out = []
    i = 0
    depth = 0
    n = len(src)
    while i < n:
        if src.startswith('/-', i):
            depth += 1
            i += 2
        elif depth and src.startswith('-/', i):
            depth -= 1
            i += 2
        elif depth:
            i += 1
        elif src.startswith('--', i):
            j = src.find('\n', i)
            i = n if j < 0 else j
        else:
            out.append(src[i])
            i += 1
    return ''.join(out)


FORBIDDEN = re.compile(r'\bsorry\b|\badmit\b|^\s*axiom\s|native_decide|bv_decide|implemented_by|'
                       r'\bunsafe\s|maxHeartbeats\s+0', re.M)


def property_modules(prop_id):
    """The Lean modules holding the property theorems of `prop_id`: Props/<ID>.lean and every Props/<ID>_*.lean
    (a second file is used where the theorems need lemma files that themselves import Props/<ID>.lean)."""
    d = LEAN / 'Mistletoe' / 'Props'
    files = [d / (prop_id + '.lean')] + sorted(d.glob(prop_id + '_*.lean'))
    return ['Mistletoe.Props.' + f.stem for f in files if f.exists()]


def property_theorems(prop_id):
    """Names and statements of the property theorems: every `theorem <ID>_…` in Props/<ID>.lean, Props/<ID>_*.lean."""
    res, ns0 = {}, None
    for mod in property_modules(prop_id):
        path = LEAN / (mod.replace('.', '/') + '.lean')
        src = path.read_text()
        ns = re.search(r'^namespace\s+(\S+)', src, re.M)
        ns = ns.group(1) if ns else ''
        ns0 = ns0 or ns
        clean = strip_lean_comments(src)
        for m in re.finditer(r'^theorem\s+(' + prop_id + r'_\w+)(.*?):=', clean, re.M | re.S):
            res[(ns + '.' if ns else '') + m.group(1)] = ' '.join((m.group(1) + m.group(2)).split())
    return res, ns0


def import_cone(modules):
    """Source files of the given modules and of everything they import inside this project."""
    seen, todo, files = set(), list(modules), []
    while todo:
        m = todo.pop()
        if m in seen:
            continue
        seen.add(m)
        f = LEAN / (m.replace('.', '/') + '.lean')
        if not f.exists():
            continue
        files.append(f)
        for imp in re.findall(r'^import\s+(\S+)', f.read_text(), re.M):
            if imp.startswith(('Mistletoe', 'Driver')):
                todo.append(imp)
    return sorted(files)


# A kernel evaluation (`decide +kernel`) of a statement that has become FALSE does not fail quickly: the kernel
# may run for a very long time before giving up.  Builds therefore run under a time limit (a timeout is a
# broken obligation like any build failure, never a violation by itself), and a property may supply a cheap
# `prebuild` test on the native driver that predicts such a failure so that the build is not even attempted.
BUILD_TIMEOUT = int(os.environ.get('VERIF_BUILD_TIMEOUT', '1500'))


def lean_prepare(prop_id, extra_modules=(), thorough=False, log=print, prebuild=None):
    """Regenerate Gen/*, build library + driver, audit the property's theorems."""
    st = LeanState()
    lock = open(LEAN / '.lock', 'w')
    fcntl.flock(lock, fcntl.LOCK_EX)
    try:
        import extract
        try:
            st.gen_changed = extract.regenerate(log=log)
        except Exception as e:   # a table can no longer be read: an obligation, not a crash
            st.bad.append('extract: %s: %s' % (type(e).__name__, e))
            st.gen_changed = ['<extract failed>']
        t0 = time.time()
        rc_d, out_d = _run(['lake', 'build', 'driver'], cwd=LEAN, timeout=BUILD_TIMEOUT)
        st.driver_ok = rc_d == 0 and DRIVER.exists()
        skip = None
        if prebuild is not None and st.driver_ok:
            try:
                skip = prebuild()
            except Exception as e:
                skip = 'prebuild test raised %s: %s' % (type(e).__name__, e)
        if not st.driver_ok:
            errs = [l for l in out_d.splitlines() if 'error' in l][:8]
            st.bad.append('lake build driver failed: ' + ' | '.join(errs))
            st.build_log = out_d
        elif skip:
            st.bad.append('theorems not rebuilt: ' + skip)
            st.build_log = skip
        else:
            targets = property_modules(prop_id) + list(extra_modules)
            rc, out = _run(['lake', 'build'] + targets, cwd=LEAN, timeout=BUILD_TIMEOUT)
            st.build_log = out
            st.build_ok = rc == 0
            if rc != 0:
                errs = [l for l in out.splitlines() if 'error' in l][:8]
                st.bad.append('lake build failed: ' + ' | '.join(errs))
        log('lake build: ok=%s in %.1fs' % (st.build_ok, time.time() - t0))
    finally:
        fcntl.flock(lock, fcntl.LOCK_UN)
        lock.close()

    thms, ns = property_theorems(prop_id)
    st.statements = thms
    if not thms:
        st.bad.append('no property theorems found for ' + prop_id)
        return st
    # source hygiene on the whole development (comments stripped)
    for f in import_cone(property_modules(prop_id) + list(extra_modules) + ['Main'] + (['PropsMain'] if 'propsdriver' in extra_modules else [])):
        m = FORBIDDEN.search(strip_lean_comments(f.read_text()))
        if m:
            st.bad.append('forbidden construct %r in %s' % (m.group(0).strip(), f.relative_to(LEAN)))
    if not st.build_ok:
        for t in thms:
            st.theorems[t] = None
        return st
    audit_dir = LEAN / '.lake' / 'audit'
    audit_dir.mkdir(parents=True, exist_ok=True)
    audit = audit_dir / (prop_id + '.lean')
    audit.write_text(''.join('import %s\n' % m for m in property_modules(prop_id)) +
                     ''.join('#print axioms %s\n' % t for t in thms))
    rc, out = _run(['lake', 'env', 'lean', str(audit)], cwd=LEAN, timeout=1200)
    text = ' '.join(out.split())
    for t in thms:
        m = re.search(r"'%s' depends on axioms: \[([^\]]*)\]" % re.escape(t), text)
        if m:
            st.theorems[t] = [a.strip() for a in m.group(1).split(',') if a.strip()]
        elif ("'%s' does not depend on any axioms" % t) in text:
            st.theorems[t] = []
        else:
            st.theorems[t] = None
            st.bad.append('audit: no axiom report for ' + t)
            continue
        extra = set(st.theorems[t]) - ALLOWED_AXIOMS
        if extra:
            st.bad.append('audit: %s depends on %s' % (t, sorted(extra)))
    if thorough:
        mods = property_modules(prop_id) + [m for m in extra_modules if m.startswith('Mistletoe.')]
        t0 = time.time()
        rc, out = _run(['lake', 'env', 'leanchecker'] + mods, cwd=LEAN, timeout=3000)
        log('leanchecker %s: rc=%d in %.1fs' % (' '.join(mods), rc, time.time() - t0))
        if rc != 0:
            st.bad.append('leanchecker failed: ' + out[-400:])
    return st


def lean_prepare_driver_only(log=print):
    st = LeanState()
    lock = open(LEAN / '.lock', 'w')
    fcntl.flock(lock, fcntl.LOCK_EX)
    try:
        import extract
        try:
            st.gen_changed = extract.regenerate(log=log)
        except Exception as e:
            st.gen_changed = ['<extract failed: %s>' % e]
        rc, out = _run(['lake', 'build', 'driver'], cwd=LEAN, timeout=BUILD_TIMEOUT)
        st.build_ok = rc == 0
        st.driver_ok = rc == 0 and DRIVER.exists()
        st.build_log = out
    finally:
        fcntl.flock(lock, fcntl.LOCK_UN)
        lock.close()
    return st


PROPS_DRIVER = LEAN / '.lake' / 'build' / 'bin' / 'propsdriver'


def driver_batch(requests, timeout=1800, binary=None):
    """Run the native model driver on a list of request dicts; returns the list of replies
    (the value under "ok", or {"error": …}).  `binary=PROPS_DRIVER` selects the second driver, which
    evaluates the executable hypotheses of property theorems (lean/PropsMain.lean)."""
    if not requests:
        return []
    DRIVER = binary or globals()['DRIVER']
    if not DRIVER.exists():
        raise MachineryError('driver binary missing: %s' % DRIVER)
    data = '\n'.join(json.dumps(r, ensure_ascii=False) for r in requests) + '\n'
    p = subprocess.run([str(DRIVER)], input=data.encode('utf-8', 'surrogatepass'),
                       stdout=subprocess.PIPE, stderr=subprocess.PIPE, timeout=timeout)
    lines = p.stdout.decode('utf-8').split('\n')
    if lines and lines[-1] == '':
        lines.pop()
    if len(lines) != len(requests):
        raise MachineryError('driver returned %d lines for %d requests (rc=%s, stderr=%s)' %
                             (len(lines), len(requests), p.returncode, p.stderr[-300:]))
    out = []
    for l in lines:
        j = json.loads(l)
        out.append(j['ok'] if 'ok' in j else {'error': j.get('error')})
    return out


# --------------------------------------------------------------------------------------
# Context: what a property module reports into
# --------------------------------------------------------------------------------------

class Unit:
    def __init__(self, name):
        self.name = name
        self.cases = 0
        self.distinct = set()
        self.disagreements = []
        self.kinds = {}
        self.samples = []

    def count(self, key, kind=None):
        self.cases += 1
        self.distinct.add(stable_hash(key))
        if kind is not None:
            self.kinds[kind] = self.kinds.get(kind, 0) + 1


class Ctx:
    def __init__(self, prop_id, tier, seed):
        self.prop = prop_id
        self.tier = tier
        self.thorough = tier == 'thorough'
        self.seed = seed
        self.t0 = time.time()
        self.units = {}
        self.violations = []         # dicts: {what, witness, key}
        self.explored = 0
        self.explored_distinct = set()
        self.explore_kinds = {}
        self.samples = []
        self.notes = []
        self.partial = []
        self.lean = None
        self.scale = 1               # budget multiplier (deep search uses a larger one)

    def rng(self, *names):
        return sub_rng(self.seed, self.prop, *names)

    def budget(self, quick, thorough=None):
        n = (thorough if (self.thorough and thorough is not None) else quick)
        return int(n * self.scale)

    def unit(self, name):
        if name not in self.units:
            self.units[name] = Unit(name)
        return self.units[name]

    def compare(self, unit_name, case, model, impl, kind=None):
        """Record one correspondence case; `model` and `impl` are canonical JSON-able values."""
        u = self.unit(unit_name)
        u.count(case, kind)
        if len(u.samples) < 2:
            u.samples.append({'input': case, 'observation': impl})
        if model != impl:
            if len(u.disagreements) < 20:
                u.disagreements.append({'input': case, 'model': model, 'impl': impl})
            return False
        return True

    def explored_case(self, key, kind=None, nontrivial=True):
        self.explored += 1
        if nontrivial:
            self.explored_distinct.add(stable_hash(key))
        if kind is not None:
            self.explore_kinds[kind] = self.explore_kinds.get(kind, 0) + 1

    def sample(self, s):
        if len(self.samples) < 6:
            self.samples.append(s)

    def violation(self, what, witness, cls=None):
        """A concrete input on which the *implementation* breaks the property."""
        key = stable_hash(witness)
        if any(v['key'] == key for v in self.violations):
            return
        self.violations.append({'what': what, 'witness': witness, 'key': key, 'class': cls})

    def log(self, *a):
        print('[%s %6.1fs]' % (self.prop, time.time() - self.t0), *a, file=sys.stderr, flush=True)


# --------------------------------------------------------------------------------------
# Known findings
# --------------------------------------------------------------------------------------

def load_known(prop_id):
    p = ROOT / 'known_findings.json'
    if not p.exists():
        return []
    data = json.loads(p.read_text())
    return [f for f in data.get('findings', []) if f['property'] == prop_id]


# --------------------------------------------------------------------------------------
# Verdict + evidence
# --------------------------------------------------------------------------------------

def write_replay(prop_id, payload):
    REPLAYS.mkdir(parents=True, exist_ok=True)
    path = REPLAYS / ('%s-%s.json' % (prop_id, stable_hash(payload)))
    payload = dict(payload)
    payload['property'] = prop_id
    payload['replay_cmd'] = './check %s --replay %s' % (prop_id, path.relative_to(ROOT) if path.is_relative_to(ROOT) else path)
    path.write_text(json.dumps(payload, indent=1, ensure_ascii=False, default=str))
    return path.relative_to(ROOT) if path.is_relative_to(ROOT) else path


def run_check(mod, tier, seed):
    """mod: property module with ID, units(ctx), explore(ctx), matches_known(v, finding),
    finding_still_fails(finding), and optional TRUSTED / ASSUMPTIONS / PARTIAL."""
    prop_id = mod.ID
    ctx = Ctx(prop_id, tier, seed)
    ctx.log('tier=%s seed=%d repo=%s' % (tier, seed, REPO))
    level = getattr(mod, 'LEVEL', 'proof')
    if level == 'proof':
        lean = lean_prepare(prop_id, getattr(mod, 'EXTRA_MODULES', ()), thorough=ctx.thorough,
                            log=ctx.log, prebuild=getattr(mod, 'prebuild', None))
    else:
        # interim check without Lean theorems of its own: the model driver is still (re)built because
        # units may use it, but no theorem audit takes place and the evidence says `exploration`
        lean = lean_prepare_driver_only(log=ctx.log)
    ctx.lean = lean
    broken = list(lean.bad)
    # source fingerprints: never an alarm; a source that differs from the one the model was last validated against gets a
    # wider budget, and the evidence names what changed
    try:
        import fingerprint
        src_changed = fingerprint.changed(REPO)
    except Exception as e:
        src_changed = ['<fingerprint failed: %s>' % type(e).__name__]
    if src_changed:
        ctx.base_scale = 3
        ctx.scale = 3
        ctx.notes.append('source differs from the validated baseline in %d place(s): %s - budgets x3' % (len(src_changed), ', '.join(src_changed[:12])))
        ctx.log('source fingerprints changed: ' + ', '.join(src_changed[:12]))

    # correspondence
    if lean.driver_ok or level != 'proof':
        try:
            mod.units(ctx)
        except MachineryError:
            raise
        except Exception as e:
            # the harness drives real code: an exception here may be a behaviour change
            broken.append('unit raised: %s: %s' % (type(e).__name__, e))
            ctx.log(traceback.format_exc())
    else:
        broken.append('model driver not buildable: correspondence not run')
    for u in ctx.units.values():
        if u.disagreements:
            broken.append('unit %s: %d disagreement(s), first: %s' %
                          (u.name, len(u.disagreements),
                           json.dumps(u.disagreements[0], ensure_ascii=False, default=str)[:400]))
    # exploration of the property's own predicate on the implementation
    seeds = [d['input'] for u in ctx.units.values() for d in u.disagreements]
    try:
        mod.explore(ctx, seeds)
    except MachineryError:
        raise
    except Exception as e:
        broken.append('explore raised: %s: %s' % (type(e).__name__, e))
        ctx.log(traceback.format_exc())
    if broken and not ctx.violations:
        ctx.log('obligation(s) broken, starting the failing-input search: ' + '; '.join(broken)[:600])
        ctx.scale = 8 * getattr(ctx, 'base_scale', 1)
        try:
            mod.explore(ctx, seeds)
        except MachineryError:
            raise
        except Exception as e:
            ctx.log(traceback.format_exc())
        ctx.scale = getattr(ctx, 'base_scale', 1)

    # known findings
    known = load_known(prop_id)
    new_violations = []
    for v in ctx.violations:
        hit = None
        for f in known:
            try:
                if mod.matches_known(v, f):
                    hit = f
                    break
            except Exception:
                pass
        if hit is None:
            new_violations.append(v)
    lines = []
    for f in known:
        try:
            still = mod.finding_still_fails(f)
        except Exception as e:
            still = True
            ctx.log('finding %s: replay raised %r (counted as still failing)' % (f.get('id'), e))
        if still:
            lines.append('KNOWN-FINDING: property=%s %s' % (prop_id, f['what']))
        else:
            ctx.notes.append('known finding %s no longer reproduces' % f.get('id'))

    n_theorems = len(lean.theorems)
    thm_ok = sum(1 for t, ax in lean.theorems.items()
                 if ax is not None and set(ax) <= ALLOWED_AXIOMS)
    n_units = len(ctx.units)
    units_ok = sum(1 for u in ctx.units.values() if not u.disagreements)
    other_bad = [b for b in broken if not b.startswith(('unit ', 'audit:'))]
    obligations = n_theorems + n_units + 1      # +1: build/extract/hygiene of the development
    discharged = thm_ok + units_ok + (0 if other_bad else 1)

    exit_code = 0
    for v in new_violations[:5]:
        path = write_replay(prop_id, {'kind': 'failing-input', 'what': v['what'],
                                      'witness': v['witness'], 'class': v.get('class')})
        lines.append('VIOLATION property=%s replay=%s' % (prop_id, path))
        exit_code = 1
    if not new_violations and broken:
        path = write_replay(prop_id, {'kind': 'obligation-broken', 'broken': broken,
                                      'first_disagreements': [
                                          {'unit': u.name, **u.disagreements[0]}
                                          for u in ctx.units.values() if u.disagreements][:5]})
        lines.append('VIOLATION property=%s replay=%s no-failing-input-found' % (prop_id, path))
        exit_code = 1

    wall = time.time() - ctx.t0
    cases = sum(u.cases for u in ctx.units.values())
    ev = {
        'property_id': prop_id,
        'tier': tier,
        'seed': seed,
        'level': level,
        'coverage': {
            'obligations': obligations,
            'discharged': discharged,
            'checker_cmd': 'cd lean && lake build Mistletoe driver && lake env lean '
                           '.lake/audit/%s.lean   # #print axioms of every theorem %s_* in '
                           'Mistletoe/Props/%s.lean' % (prop_id, prop_id, prop_id)
                           + (' && lake env leanchecker Mistletoe.Props.%s' % prop_id
                              if ctx.thorough else ''),
            'trusted_base': [
                "Lean 4.33.0 kernel" + (" + leanchecker re-check" if ctx.thorough else ""),
                "axioms per theorem: " + json.dumps({t.split('.')[-1]: ax for t, ax in lean.theorems.items()}),
                "translator harness/extract.py (introspection of the imported /repo tree into lean/Mistletoe/Gen)",
                "correspondence harness (harness/props/%s.py, native driver lean/Main.lean): agreement shown on generated inputs only" % prop_id.lower(),
            ] + list(getattr(mod, 'TRUSTED', [])),
            'theorems': lean.statements,
            'theorems_checked': thm_ok,
            'units': {u.name: {'cases': u.cases, 'distinct': len(u.distinct),
                               'disagreements': len(u.disagreements), 'kinds': u.kinds}
                      for u in ctx.units.values()},
            'traces_validated_against_impl': cases,
            'evaluations': cases + ctx.explored,
            'distinct_nontrivial': sum(len(u.distinct) for u in ctx.units.values())
                                   + len(ctx.explored_distinct),
            'rule': getattr(mod, 'RULE', ''),
            'exploration': {'cases': ctx.explored, 'distinct_nontrivial': len(ctx.explored_distinct),
                            'kinds': ctx.explore_kinds},
            'samples': ([{'theorem': s} for s in list(lean.statements.values())[:3]]
                        + [s for u in ctx.units.values() for s in u.samples][:4]
                        + ctx.samples),
            'generated_constants_changed': lean.gen_changed,
            'source_changed_since_validation': src_changed,
            'partial': list(getattr(mod, 'PARTIAL', [])) + ctx.partial,
            'broken': broken,
            'known_findings_listed': [f.get('id') for f in known],
            'notes': ctx.notes,
        },
        'assumptions': list(getattr(mod, 'ASSUMPTIONS', [])),
        'wall_s': round(wall, 2),
        'violations': len(new_violations) if new_violations else (1 if broken else 0),
    }
    if level != 'proof':
        cov = ev['coverage']
        for k in ('obligations', 'discharged', 'checker_cmd', 'theorems', 'theorems_checked'):
            cov.pop(k, None)
        cov['exhaustive'] = bool(getattr(mod, 'EXHAUSTIVE', False))
    EVIDENCE.mkdir(exist_ok=True)
    (EVIDENCE / (prop_id + '.json')).write_text(json.dumps(ev, indent=1, ensure_ascii=False, default=str))
    for l in lines:
        print(l, flush=True)
    ctx.log('obligations %d/%d, units %s, explored %d, violations %d (new %d), exit %d, %.1fs' %
            (discharged, obligations, {u.name: u.cases for u in ctx.units.values()}, ctx.explored,
             len(ctx.violations), len(new_violations), exit_code, wall))
    return exit_code
