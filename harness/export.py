"""
Exporter: walks a real mistletoe token tree through `children` and serialises it into the JSON form
of the Lean AST (lean/Mistletoe/Model/Ast.lean, decoded by lean/Driver/Ast.lean).

The Lean type enforces the child kinds the documentation states (C12); the exporter therefore
*refuses* - raising ShapeError with the offending path - any object graph that does not fit:
a container holding the wrong kind of child, a span token holding a block token, a code or HTML
block whose children are not exactly one RawText, a child whose parent link does not name the
token that lists it.  Those refusals are C12 violations found on the real code, not model facts.
"""
from mistletoe import block_token, span_token


class ShapeError(Exception):
    def __init__(self, path, msg):
        super().__init__('%s: %s' % ('/'.join(path) or '<root>', msg))
        self.path = path
        self.msg = msg


DEST = {'uri': 'uri', 'angle_uri': 'angleUri', 'full': 'full', 'collapsed': 'collapsed',
        'shortcut': 'shortcut', None: 'none'}


def _kids(tok, path, check_parent):
    ch = tok.children
    if ch is None:
        raise ShapeError(path, '%s has children None' % type(tok).__name__)
    ch = list(ch)
    if check_parent:
        for i, c in enumerate(ch):
            if c.parent is not tok:
                raise ShapeError(path + ['%s[%d]' % (type(c).__name__, i)],
                                 'parent link does not name the token that lists it')
    return ch


def _one_raw(tok, path, check_parent):
    ch = _kids(tok, path, check_parent)
    if len(ch) != 1 or type(ch[0]) is not span_token.RawText:
        raise ShapeError(path, '%s must hold exactly one RawText, has %r' %
                         (type(tok).__name__, [type(c).__name__ for c in ch]))
    if not isinstance(ch[0].content, str):
        raise ShapeError(path, 'RawText content is not a str')
    return ch[0].content


def _s(v, path, what):
    if not isinstance(v, str):
        raise ShapeError(path, '%s is %r, not a str' % (what, type(v).__name__))
    return v


def export_inline(tok, path=(), check_parent=True):
    path = list(path) + [type(tok).__name__]
    name = type(tok).__name__
    if isinstance(tok, block_token.BlockToken):
        raise ShapeError(path, 'block token inside inline content')
    if not isinstance(tok, span_token.SpanToken):
        raise ShapeError(path, 'not a span token')

    def inl():
        return [export_inline(c, path + [str(i)], check_parent) for i, c in enumerate(_kids(tok, path, check_parent))]
    if name == 'RawText':
        if tok.children is not None:
            raise ShapeError(path, 'RawText with children')
        return {'t': 'RawText', 'content': _s(tok.content, path, 'content')}
    if name == 'Strong':
        return {'t': 'Strong', 'delimiter': _s(tok.delimiter, path, 'delimiter'), 'kids': inl()}
    if name == 'Emphasis':
        return {'t': 'Emphasis', 'delimiter': _s(tok.delimiter, path, 'delimiter'), 'kids': inl()}
    if name == 'InlineCode':
        return {'t': 'InlineCode', 'delimiter': tok.delimiter, 'padding': tok.padding,
                'content': _one_raw(tok, path, check_parent)}
    if name == 'Strikethrough':
        return {'t': 'Strikethrough', 'kids': inl()}
    if name in ('Image', 'Link'):
        d = {'t': name, 'title': _s(tok.title, path, 'title'), 'destType': DEST[tok.dest_type],
             'label': tok.label, 'titleDelim': tok.title_delimiter, 'kids': inl()}
        d['src' if name == 'Image' else 'target'] = _s(tok.src if name == 'Image' else tok.target, path, 'dest')
        return d
    if name == 'AutoLink':
        c = _one_raw(tok, path, check_parent)
        if c != tok.target:
            raise ShapeError(path, 'AutoLink child differs from target')
        return {'t': 'AutoLink', 'target': tok.target, 'mailto': bool(tok.mailto)}
    if name == 'EscapeSequence':
        return {'t': 'EscapeSequence', 'content': _one_raw(tok, path, check_parent)}
    if name == 'LineBreak':
        if tok.children is not None:
            raise ShapeError(path, 'LineBreak with children')
        return {'t': 'LineBreak', 'content': _s(tok.content, path, 'content'), 'soft': bool(tok.soft)}
    if name == 'HtmlSpan':
        return {'t': 'HtmlSpan', 'content': _s(tok.content, path, 'content')}
    if name == 'Math':
        return {'t': 'Math', 'content': _s(tok.content, path, 'content')}
    if name == 'GithubWiki':
        return {'t': 'GithubWiki', 'target': _s(tok.target, path, 'target'), 'kids': inl()}
    if name == 'XWikiBlockMacroStart':
        return {'t': 'XWikiMacroStart', 'content': _s(tok.content, path, 'content')}
    if name == 'XWikiBlockMacroEnd':
        return {'t': 'XWikiMacroEnd', 'content': _s(tok.content, path, 'content')}
    if name == 'LinkReferenceDefinition':
        return {'t': 'LinkRefDef', 'label': tok.label, 'dest': tok.dest, 'title': tok.title,
                'destType': DEST[tok.dest_type], 'titleDelim': tok.title_delimiter}
    raise ShapeError(path, 'unknown span token class %s' % name)


def _align(a, path):
    if a not in (None, 0, 1):
        raise ShapeError(path, 'align option %r' % (a,))
    return a


def export_block(tok, path=(), check_parent=True, expect=None):
    name = type(tok).__name__
    path = list(path) + [name]
    if not isinstance(tok, block_token.BlockToken):
        raise ShapeError(path, 'span token (or foreign object) among block children')
    if expect is not None and name not in expect:
        raise ShapeError(path, 'container may only hold %s' % '/'.join(expect))
    ln = getattr(tok, 'line_number', None)
    if not isinstance(ln, int) or isinstance(ln, bool):
        raise ShapeError(path, 'line_number is %r' % (ln,))

    def inl():
        return [export_inline(c, path + [str(i)], check_parent) for i, c in enumerate(_kids(tok, path, check_parent))]

    def blk(expect=None):
        return [export_block(c, path + [str(i)], check_parent, expect) for i, c in enumerate(_kids(tok, path, check_parent))]
    if name == 'Paragraph':
        return {'t': 'Paragraph', 'kids': inl(), 'ln': ln}
    if name == 'Heading':
        return {'t': 'Heading', 'level': tok.level, 'closing': tok.closing_sequence, 'kids': inl(), 'ln': ln}
    if name == 'SetextHeading':
        return {'t': 'SetextHeading', 'level': tok.level, 'underline': tok.underline, 'kids': inl(), 'ln': ln}
    if name == 'Quote':
        return {'t': 'Quote', 'kids': blk(), 'ln': ln}
    if name == 'BlockCode':
        if tok.language != '':
            raise ShapeError(path, 'BlockCode.language is %r' % tok.language)
        return {'t': 'BlockCode', 'content': _one_raw(tok, path, check_parent), 'ln': ln}
    if name == 'CodeFence':
        return {'t': 'CodeFence', 'language': _s(tok.language, path, 'language'), 'indentation': tok.indentation,
                'delimiter': tok.delimiter, 'infoString': tok.info_string,
                'content': _one_raw(tok, path, check_parent), 'ln': ln}
    if name == 'List':
        if tok.start is not None and (not isinstance(tok.start, int) or isinstance(tok.start, bool)):
            raise ShapeError(path, 'List.start is %r' % (tok.start,))
        return {'t': 'List', 'loose': bool(tok.loose), 'start': tok.start, 'items': blk(['ListItem']), 'ln': ln}
    if name == 'ListItem':
        return {'t': 'ListItem', 'leader': tok.leader, 'indentation': tok.indentation, 'prepend': tok.prepend,
                'loose': bool(tok.loose), 'kids': blk(), 'ln': ln}
    if name == 'Table':
        header = []
        if 'header' in vars(tok):
            header = [export_block(tok.header, path + ['header'], False, ['TableRow'])]
        return {'t': 'Table', 'columnAlign': [_align(a, path) for a in tok.column_align], 'header': header,
                'rows': blk(['TableRow']), 'ln': ln}
    if name == 'TableRow':
        return {'t': 'TableRow', 'rowAlign': [_align(a, path) for a in tok.row_align],
                'cells': blk(['TableCell']), 'ln': ln}
    if name == 'TableCell':
        return {'t': 'TableCell', 'align': _align(tok.align, path), 'kids': inl(), 'ln': ln}
    if name == 'ThematicBreak':
        if tok.children is not None:
            raise ShapeError(path, 'ThematicBreak with children')
        return {'t': 'ThematicBreak', 'line': tok.line, 'ln': ln}
    if name == 'HtmlBlock':
        return {'t': 'HtmlBlock', 'content': _one_raw(tok, path, check_parent), 'ln': ln}
    if name == 'BlankLine':
        return {'t': 'BlankLine', 'ln': ln}
    if name == 'LinkReferenceDefinitionBlock':
        return {'t': 'LinkRefDefBlock', 'defs': inl(), 'ln': ln}
    raise ShapeError(path, 'unknown block token class %s' % name)


def export_doc(doc, check_parent=True):
    if type(doc).__name__ != 'Document':
        raise ShapeError([], 'root is %s' % type(doc).__name__)
    kids = [export_block(c, ['Document', str(i)], check_parent) for i, c in enumerate(_kids(doc, ['Document'], check_parent))]
    fn = [[k, v[0], v[1]] for k, v in doc.footnotes.items()]
    return {'kids': kids, 'footnotes': fn}
