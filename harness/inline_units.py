"""
`inline` correspondence unit: the real `span_token.tokenize_inner(text)` under a renderer's span
token list (token tree with every attribute) against the Lean model `Inline.tokenizeInner` (driver op
"inline.tokenize"), with no link definitions.  This is the function the C06 / C14 inline theorems are
about (find_core_tokens, process_emphasis, the span scanners, the span tokenizer, the constructors).
"""
import export
import impl
from common import driver_batch


def real_inline(rname, kwargs, text):
    from mistletoe import span_token, token
    R = impl.renderer_class(rname)

    class _Root:
        footnotes = {}
    try:
        with impl.time_limit(20):
            with R(**kwargs):
                stypes = [t.__name__ for t in span_token._token_types[:-1]]
                token._root_node = _Root()
                try:
                    kids = span_token.tokenize_inner(text)
                    res = {'kids': [export.export_inline(k, ['inline'], check_parent=False) for k in kids]}
                except export.ShapeError:
                    raise
                except Exception as e:
                    res = {'raises': type(e).__name__}
        return res, stypes
    finally:
        impl.reset_library()


def run(ctx, texts, unit='inline', renderers=(('HtmlRenderer', {}),)):
    reqs, exp, meta = [], [], []
    for i, t in enumerate(texts):
        rname, kw = renderers[i % len(renderers)]
        res, stypes = real_inline(rname, kw, t)
        reqs.append({'op': 'inline.tokenize', 'span': stypes, 'text': t, 'footnotes': []})
        exp.append(res)
        meta.append({'text': t, 'renderer': rname})
    model = driver_batch(reqs)
    for case, e, m in zip(meta, exp, model):
        if isinstance(m, dict) and 'raises' in m and 'raises' in e:
            m, e = {'raises': True}, {'raises': True}
        ctx.compare(unit, case, m, e, kind=case['renderer'])
