"""
`md.render` correspondence unit: the real `MarkdownRenderer(**kw).render(Document(text))` (inside
`with MarkdownRenderer(**kw) as r:`; the process-global parser state is reset after every case) against
the Lean model `Document.parse` + `Markdown.renderRes` (lean/Mistletoe/Model/Markdown.lean, driver op
"md.render"), byte for byte.  Every disagreement is a difference between the model and the code on a
concrete text under concrete constructor arguments.
"""
import impl
from common import driver_batch

# constructor arguments of MarkdownRenderer the unit cycles through
OPTS_LIST = [
    {},
    {'normalize_whitespace': True},
    {'max_line_length': 40},
    {'max_line_length': 40, 'normalize_whitespace': True},
]


def model_opts(kw):
    return {'maxLineLength': kw.get('max_line_length'), 'normalizeWhitespace': bool(kw.get('normalize_whitespace', False))}


def real_md(kw, text_or_lines):
    """(result, block type names, span type names) of the real renderer on one input."""
    from mistletoe import Document, block_token, span_token
    from mistletoe.markdown_renderer import MarkdownRenderer
    try:
        with impl.time_limit(20):
            with MarkdownRenderer(**kw) as r:
                btypes = [t.__name__ for t in block_token._token_types]
                stypes = [t.__name__ for t in span_token._token_types[:-1]]
                try:
                    res = {'md': r.render(Document(text_or_lines))}
                except impl.Timeout:
                    raise
                except Exception as e:
                    res = {'raises': type(e).__name__}
        return res, btypes, stypes
    finally:
        impl.reset_library()


def run(ctx, texts, unit='md.render', opts_list=None, as_lines=False, every_opt=False):
    """Compare model and code on `texts`.  Text i is rendered under opts_list[i % len(opts_list)], or
    under every element of opts_list when `every_opt` is set."""
    reqs, exp, meta = [], [], []
    ol = opts_list or OPTS_LIST
    for i, t in enumerate(texts):
        for kw in (ol if every_opt else [ol[i % len(ol)]]):
            arg = t.splitlines(keepends=True) if as_lines else t
            res, btypes, stypes = real_md(kw, arg)
            req = {'op': 'md.render', 'types': btypes, 'span': stypes, 'fuel': 1000000, 'opts': model_opts(kw)}
            if as_lines:
                req['lines'] = arg
            else:
                req['text'] = t
            reqs.append(req)
            exp.append(res)
            meta.append({'text': t, 'kwargs': kw})
    model = driver_batch(reqs)
    ok = True
    for case, e, m in zip(meta, exp, model):
        if isinstance(m, dict) and 'raises' in m:
            m = {'raises': True}        # the model's error kinds are coarser than Python's exception classes
        if 'raises' in e:
            e = {'raises': True}
        kind = 'L=%s,nw=%s' % (case['kwargs'].get('max_line_length'), bool(case['kwargs'].get('normalize_whitespace')))
        ok = ctx.compare(unit, case, m, e, kind=kind) and ok
    return ok
