"""
`md.render` correspondence unit: the real `MarkdownRenderer(**kw).render(Document(text))` (inside
`with MarkdownRenderer(**kw) as r:`; the process-global parser state is reset after every case) against
the Lean model `Document.parse` + `Markdown.renderRes` (lean/Mistletoe/Model/Markdown.lean, driver op
"md.render"), byte for byte.  Every disagreement is a difference between the model and the code on a
concrete text under concrete constructor arguments.
"""
import impl
from common import driver_batch

# constructor arguments of MarkdownRenderer the unit cycles through
OPTS_LIST = [
    {},
    {'normalize_whitespace': True},
    {'max_line_length': 40},
    {'max_line_length': 40, 'normalize_whitespace': True},
]


def model_opts(kw):
    return {'maxLineLength': kw.get('max_line_length'), 'normalizeWhitespace': bool(kw.get('normalize_whitespace', False))}


def real_md(kw, text_or_lines):
    """(result, block type names, span type names) of the real renderer on one input."""
    from mistletoe import Document, block_token, span_token
    from mistletoe.markdown_renderer import MarkdownRenderer
    try:
        with impl.time_limit(20):
            with MarkdownRenderer(**kw) as r:
                btypes = [t.__name__ for t in block_token._token_types]
                stypes = [t.__name__ for t in span_token._token_types[:-1]]
                try:
                    res = {'md': r.render(Document(text_or_lines))}
                except impl.Timeout:
                    raise
                except Exception as e:
                    res = {'raises': type(e).__name__}
        return res, btypes, stypes
    finally:
        impl.reset_library()


def run(ctx, texts, unit='md.render', opts_list=None, as_lines=False, every_opt=False):
    """Compare model and code on `texts`.  Text i is rendered under opts_list[i % len(opts_list)], or
    under every element of opts_list when `every_opt` is set."""
    reqs, exp, meta = [], [], []
    ol = opts_list or OPTS_LIST
    for i, t in enumerate(texts):
        for kw in (ol if every_opt else [ol[i % len(ol)]]):
            arg = t.splitlines(keepends=True) if as_lines else t
            res, btypes, stypes = real_md(kw, arg)
            req = {'op': 'md.render', 'types': btypes, 'span': stypes, 'fuel': 1000000, 'opts': model_opts(kw)}
            if as_lines:
                req['lines'] = arg
            else:
                req['text'] = t
            reqs.append(req)
            exp.append(res)
            meta.append({'text': t, 'kwargs': kw})
    model = driver_batch(reqs)
    ok = True
    for case, e, m in zip(meta, exp, model):
        if isinstance(m, dict) and 'raises' in m:
            m = {'raises': True}        # the model's error kinds are coarser than Python's exception classes
        if 'raises' in e:
            e = {'raises': True}
        kind = 'L=%s,nw=%s' % (case['kwargs'].get('max_line_length'), bool(case['kwargs'].get('normalize_whitespace')))
        ok = ctx.compare(unit, case, m, e, kind=kind) and ok
    return ok


# ---------------------------------------------------------------------------------------------
# the renderer as a function on trees: parsed trees with perturbed attributes (outside the parser's range)
# ---------------------------------------------------------------------------------------------

def _walk(tok):
    yield tok
    if 'header' in vars(tok):
        yield from _walk(tok.header)
    for c in (getattr(tok, 'children', None) or []):
        yield from _walk(c)


def perturb(rng, doc):
    """Change attributes the renderer reads, in place (the tree stays well-kinded for the exporter)."""
    from mistletoe import block_token, span_token
    for tok in list(_walk(doc)):
        if rng.random() > 0.5:
            continue
        name = type(tok).__name__
        if name in ('Link', 'Image'):
            tok.dest_type = rng.choice(['uri', 'angle_uri', 'full', 'collapsed', 'shortcut', None])
            tok.label = rng.choice([None, 'lab el', 'x', ''])
            tok.title = rng.choice(['', 'ti  tle', 't'])
            tok.title_delimiter = rng.choice([None, '"', "'", '('])
        elif name == 'LinkReferenceDefinition':
            tok.dest_type = rng.choice(['uri', 'angle_uri'])
            tok.title = rng.choice(['', 'ti  tle', 't'])
            tok.title_delimiter = rng.choice([None, '"', "'", '('])
        elif name == 'ListItem':
            tok.leader = rng.choice(['-', '*', '1.', '12)', ''])
            tok.prepend = rng.randint(0, 6)
            tok.indentation = rng.randint(0, 4)
            if rng.random() < 0.2:
                tok.children = []
        elif name == 'Table':
            tok.column_align = [rng.choice([None, 0, 1]) for _ in range(rng.randint(0, 5))]
            if rng.random() < 0.15:
                del tok.header
        elif name == 'CodeFence':
            tok.indentation = rng.randint(0, 4)
            tok.delimiter = rng.choice(['```', '~~~~', '`'])
            tok.info_string = rng.choice(['', ' py', 'a b'])
            if rng.random() < 0.3:
                tok.children[0].content = rng.choice(['', 'x', 'x\n\ny', '\n', ' \n'])
        elif name == 'BlockCode':
            if rng.random() < 0.5:
                tok.children[0].content = rng.choice(['', 'x', 'x\n\ny', '\n', ' \n', 'a\n  \nb\n'])
        elif name == 'Heading':
            tok.level = rng.randint(0, 7)
            tok.closing_sequence = rng.choice(['', '#', '###'])
            if rng.random() < 0.4 and tok.children:
                lb = span_token.LineBreak.__new__(span_token.LineBreak)
                lb.content, lb.soft = rng.choice([('', True), ('\\', False), ('  ', False)])
                tok.children = list(tok.children) + [lb] + [span_token.RawText('tail')]
        elif name == 'SetextHeading':
            tok.underline = rng.choice(['=', '---', ''])
        elif name == 'Quote':
            if rng.random() < 0.3:
                tok.children = []
        elif name == 'ThematicBreak':
            tok.line = rng.choice(['***', ' - - -', ''])
        elif name == 'HtmlBlock':
            tok.children[0].content = rng.choice(['<div>', '<a>\n\n</a>', ''])
        elif name == 'InlineCode':
            tok.delimiter = rng.choice(['`', '``'])
            tok.padding = rng.choice(['', ' '])
        elif name in ('Strong', 'Emphasis'):
            tok.delimiter = rng.choice(['*', '_'])
        elif name == 'RawText' and rng.random() < 0.05 and type(tok.parent).__name__ in ('Paragraph', 'Emphasis', 'Strong', 'Link'):
            from mistletoe.latex_token import Math
            m = Math.__new__(Math)
            m.content = '$x$'
            ch = list(tok.parent.children)
            ch[[id(c) for c in ch].index(id(tok))] = m
            tok.parent.children = ch


def run_trees(ctx, texts, rng, unit='md.render.tree', opts_list=None):
    """Parse each text with the real parser, perturb the tree, render the tree with the real renderer and
    with the model (which receives the exported tree)."""
    import export
    from mistletoe import Document
    from mistletoe.markdown_renderer import MarkdownRenderer
    reqs, exp, meta = [], [], []
    ol = opts_list or OPTS_LIST
    for i, t in enumerate(texts):
        kw = ol[i % len(ol)]
        try:
            with impl.time_limit(20):
                with MarkdownRenderer(**kw) as r:
                    doc = Document(t)
                    perturb(rng, doc)
                    try:
                        tree = export.export_doc(doc, check_parent=False)
                    except export.ShapeError:
                        continue
                    try:
                        res = {'md': r.render(doc)}
                    except impl.Timeout:
                        raise
                    except Exception as e:
                        res = {'raises': True}
        finally:
            impl.reset_library()
        reqs.append({'op': 'md.render', 'doc': tree, 'opts': model_opts(kw)})
        exp.append(res)
        meta.append({'tree': tree, 'kwargs': kw})
    model = driver_batch(reqs)
    ok = True
    for case, e, m in zip(meta, exp, model):
        if isinstance(m, dict) and 'raises' in m:
            m = {'raises': True}
        kind = ('raises' if 'raises' in e else 'ok')
        ok = ctx.compare(unit, case, m, e, kind=kind) and ok
    return ok
