"""Helpers that drive the real library (always inside a renderer context, always restoring it)."""
import signal
from contextlib import contextmanager


class Timeout(Exception):
    pass


TIMEOUTS = 0          # how many calls have run over their budget in this process


@contextmanager
def time_limit(seconds):
    """Per-case wall-clock budget for calls into the implementation (pure Python, so SIGALRM works).
    Once several calls have run over the full budget (a change that makes the parser hang has been
    seen and will be reported), later calls get a 1 s budget so that the run still ends in minutes."""
    if TIMEOUTS >= 4:
        seconds = min(seconds, 1)

    def handler(signum, frame):
        global TIMEOUTS
        TIMEOUTS += 1
        raise Timeout('implementation call exceeded %ss' % seconds)
    old = signal.signal(signal.SIGALRM, handler)
    signal.setitimer(signal.ITIMER_REAL, seconds)
    try:
        yield
    finally:
        signal.setitimer(signal.ITIMER_REAL, 0)
        signal.signal(signal.SIGALRM, old)


def renderer_class(name):
    import mistletoe
    from mistletoe.markdown_renderer import MarkdownRenderer
    from mistletoe.latex_renderer import LaTeXRenderer
    from mistletoe.ast_renderer import AstRenderer
    from mistletoe.contrib.jira_renderer import JiraRenderer
    from mistletoe.contrib.xwiki20_renderer import XWiki20Renderer
    from mistletoe.contrib.toc_renderer import TocRenderer
    from mistletoe.contrib.github_wiki import GithubWikiRenderer
    from mistletoe.contrib.mathjax import MathJaxRenderer
    from mistletoe.contrib.pygments_renderer import PygmentsRenderer
    return {'HtmlRenderer': mistletoe.HtmlRenderer, 'MarkdownRenderer': MarkdownRenderer,
            'LaTeXRenderer': LaTeXRenderer, 'AstRenderer': AstRenderer, 'JiraRenderer': JiraRenderer,
            'XWiki20Renderer': XWiki20Renderer, 'TocRenderer': TocRenderer,
            'GithubWikiRenderer': GithubWikiRenderer, 'MathJaxRenderer': MathJaxRenderer,
            'PygmentsRenderer': PygmentsRenderer}[name]


def private_lists(module):
    """the module-level private lists of a library module (core_tokens keeps the code-span matches handed from the core scanner
    to InlineCode.find in one): found by introspection, not by name, so that a rename of a private global is not an alarm"""
    return [v for n, v in sorted(vars(module).items()) if n.startswith('_') and not n.startswith('__') and isinstance(v, list)]


def reset_library():
    """Bring the process-global parser state back to what a fresh interpreter has (used between
    cases so that one case's exception cannot disturb the next; C11 is about that state itself)."""
    import html
    from mistletoe import block_token, span_token, core_tokens, token, span_tokenizer
    block_token.reset_tokens()
    span_token.reset_tokens()
    for lst in private_lists(core_tokens):
        del lst[:]
    block_token.Paragraph.parse_setext = True
    token._root_node = None
    html._charref = span_tokenizer._stdlib_charref


def parse_render(rname, kwargs, text, timeout=20):
    """Document(text) and render under `with R(**kwargs)`; returns (doc, out)."""
    from mistletoe import Document
    R = renderer_class(rname)
    try:
        with time_limit(timeout):
            with R(**kwargs) as r:
                doc = Document(text)
                return doc, r.render(doc)
    finally:
        reset_library()


def parse_only(rname, kwargs, text, timeout=20):
    from mistletoe import Document
    R = renderer_class(rname)
    try:
        with time_limit(timeout):
            with R(**kwargs):
                return Document(text)
    finally:
        reset_library()


def render_tree(rname, kwargs, doc, timeout=20):
    """Render an existing (possibly edited) token tree with a fresh renderer instance."""
    R = renderer_class(rname)
    try:
        with time_limit(timeout):
            with R(**kwargs) as r:
                return r.render(doc)
    finally:
        reset_library()


HTML_OPTION_SETS = [
    dict(),
    dict(html_escape_double_quotes=True),
    dict(html_escape_single_quotes=True),
    dict(html_escape_double_quotes=True, html_escape_single_quotes=True),
    dict(process_html_tokens=False),
    dict(process_html_tokens=False, html_escape_double_quotes=True),
    dict(process_html_tokens=False, html_escape_single_quotes=True),
    dict(process_html_tokens=False, html_escape_double_quotes=True, html_escape_single_quotes=True),
]


def lean_html_opts(kwargs, flavor='html'):
    return {'dq': bool(kwargs.get('html_escape_double_quotes', False)),
            'sq': bool(kwargs.get('html_escape_single_quotes', False)),
            'processHtml': bool(kwargs.get('process_html_tokens', True)),
            'flavor': flavor}
