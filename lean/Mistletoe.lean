import Mistletoe.Model.Basic
import Mistletoe.Model.Span
import Mistletoe.Proofs.Span
import Mistletoe.Props.C16
