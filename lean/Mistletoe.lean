import Mistletoe.Model.Basic
import Mistletoe.Model.Chars
import Mistletoe.Model.Span
import Mistletoe.Model.Lines
import Mistletoe.Proofs.Span
import Mistletoe.Proofs.Lines
import Mistletoe.Props.C15
import Mistletoe.Props.C16
