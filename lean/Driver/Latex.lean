import Driver.Codec
import Driver.Ast
import Mistletoe.Model.Latex
open Lean Mistletoe Mistletoe.Latex

namespace Driver.Latex

/-- op "latex.render": {"doc": Doc} → {"out": String} | {"raises": true} -/
def renderOp (j : Json) : Except String Json := do
  let d ← Driver.Ast.docOf (← j.getObjVal? "doc")
  if !supportedBlocks d.kids || refusesBlocks d.kids then
    pure (Json.mkObj [("raises", Json.bool true)])
  else
    pure (Json.mkObj [("out", Driver.str (render d))])

end Driver.Latex
