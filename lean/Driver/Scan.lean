import Driver.Codec
import Mistletoe.Model.Scan
open Lean Mistletoe Mistletoe.Scan

namespace Driver.Scan

def optS : Option Str → Json
  | none => Json.null
  | some s => Driver.str s

/-- op "scan": {"fn": name, "s": String} -/
def scanOp (j : Json) : Except String Json := do
  let fn ← j.getObjValAs? String "fn"
  let s ← Driver.getStr j "s"
  match fn with
  | "heading" => pure (match heading s with
      | none => Json.null
      | some m => Driver.arr [Driver.nat m.level, optS m.g2, optS m.g3])
  | "setext" => pure (Json.bool (setext s))
  | "codeFence" => pure (match codeFence s with
      | none => Json.null
      | some m => Driver.arr [Driver.nat m.prepend, Driver.str m.leader, Driver.str m.info, Driver.str m.lang])
  | "listStart" => pure (Json.bool (listStart s))
  | "listItem" => pure (match listItem s with
      | none => Json.null
      | some m => Driver.arr [Driver.str m.g1, Driver.str m.g2, Driver.str m.g3, Driver.str m.rest])
  | "continuation" => pure (match continuation s with
      | none => Json.null
      | some (a, b) => Driver.arr [Driver.str a, Driver.str b])
  | "thematicBreak" => pure (Json.bool (thematicBreak s))
  | "delimiterRow" => pure (Json.bool (delimiterRow s))
  | "findAligns" => pure (Driver.arr ((findAligns s).map Driver.str))
  | "multiblock" => pure (optS (multiblock s))
  | "predefined" => pure (optS (predefined s))
  | "customTag" => pure (Json.bool (customTag s))
  | "blankLine" => pure (Json.bool (blankLine s))
  | "expandtabs" => pure (Driver.str (Py.expandtabs s))
  | "strip" => pure (Driver.str (Py.strip s))
  | "lstrip" => pure (Driver.str (Py.lstrip s))
  | "rstrip" => pure (Driver.str (Py.rstrip s))
  | "split" => pure (Driver.arr ((Py.splitWs s).map Driver.str))
  | _ => throw s!"scan fn {fn}"

end Driver.Scan
