import Driver.Codec
import Mistletoe.Model.Ast
open Lean Mistletoe

namespace Driver.Ast

def getOptStr (j : Json) (k : String) : Except String (Option Str) :=
  match j.getObjVal? k with
  | .ok Json.null => pure none
  | .ok v => do pure (some (← Driver.asStr v))
  | .error _ => pure none

def getOptNat (j : Json) (k : String) : Except String (Option Nat) :=
  match j.getObjVal? k with
  | .ok Json.null => pure none
  | .ok v => do pure (some (← Driver.asNat v))
  | .error _ => pure none

def asOptNat (v : Json) : Except String (Option Nat) :=
  match v with
  | Json.null => pure none
  | v => do pure (some (← Driver.asNat v))

def destType (j : Json) : Except String DestType := do
  match (← j.getObjValAs? String "destType") with
  | "uri" => pure .uri | "angleUri" => pure .angleUri | "full" => pure .full
  | "collapsed" => pure .collapsed | "shortcut" => pure .shortcut | "none" => pure .none
  | s => throw s!"destType {s}"

partial def inlineOf (j : Json) : Except String Inline := do
  let t ← j.getObjValAs? String "t"
  let kids : Except String (List Inline) := do (← Driver.getArr j "kids").toList.mapM inlineOf
  match t with
  | "RawText" => pure (.rawText (← Driver.getStr j "content"))
  | "Strong" => pure (.strong (← Driver.getStr j "delimiter") (← kids))
  | "Emphasis" => pure (.emphasis (← Driver.getStr j "delimiter") (← kids))
  | "InlineCode" => pure (.inlineCode (← Driver.getStr j "delimiter") (← Driver.getStr j "padding") (← Driver.getStr j "content"))
  | "Strikethrough" => pure (.strikethrough (← kids))
  | "Image" => pure (.image (← Driver.getStr j "src") (← Driver.getStr j "title") (← destType j)
      (← getOptStr j "label") (← getOptStr j "titleDelim") (← kids))
  | "Link" => pure (.link (← Driver.getStr j "target") (← Driver.getStr j "title") (← destType j)
      (← getOptStr j "label") (← getOptStr j "titleDelim") (← kids))
  | "AutoLink" => pure (.autoLink (← Driver.getStr j "target") (← Driver.getBool j "mailto"))
  | "EscapeSequence" => pure (.escapeSequence (← Driver.getStr j "content"))
  | "LineBreak" => pure (.lineBreak (← Driver.getStr j "content") (← Driver.getBool j "soft"))
  | "HtmlSpan" => pure (.htmlSpan (← Driver.getStr j "content"))
  | "Math" => pure (.math (← Driver.getStr j "content"))
  | "GithubWiki" => pure (.githubWiki (← Driver.getStr j "target") (← kids))
  | "XWikiMacroStart" => pure (.xwikiMacroStart (← Driver.getStr j "content"))
  | "XWikiMacroEnd" => pure (.xwikiMacroEnd (← Driver.getStr j "content"))
  | "LinkRefDef" => pure (.linkRefDef (← Driver.getStr j "label") (← Driver.getStr j "dest")
      (← Driver.getStr j "title") (← destType j) (← getOptStr j "titleDelim"))
  | _ => throw s!"inline kind {t}"

partial def blockOf (j : Json) : Except String Block := do
  let t ← j.getObjValAs? String "t"
  let ln ← Driver.getNat j "ln"
  let inl (k : String) : Except String (List Inline) := do (← Driver.getArr j k).toList.mapM inlineOf
  let blk (k : String) : Except String (List Block) := do (← Driver.getArr j k).toList.mapM blockOf
  let aligns (k : String) : Except String (List (Option Nat)) := do (← Driver.getArr j k).toList.mapM asOptNat
  match t with
  | "Paragraph" => pure (.paragraph (← inl "kids") ln)
  | "Heading" => pure (.heading (← Driver.getNat j "level") (← Driver.getStr j "closing") (← inl "kids") ln)
  | "SetextHeading" => pure (.setextHeading (← Driver.getNat j "level") (← Driver.getStr j "underline") (← inl "kids") ln)
  | "Quote" => pure (.quote (← blk "kids") ln)
  | "BlockCode" => pure (.blockCode (← Driver.getStr j "content") ln)
  | "CodeFence" => pure (.codeFence (← Driver.getStr j "language") (← Driver.getNat j "indentation")
      (← Driver.getStr j "delimiter") (← Driver.getStr j "infoString") (← Driver.getStr j "content") ln)
  | "List" => pure (.list (← Driver.getBool j "loose") (← getOptNat j "start") (← blk "items") ln)
  | "ListItem" => pure (.listItem (← Driver.getStr j "leader") (← Driver.getNat j "indentation")
      (← Driver.getNat j "prepend") (← Driver.getBool j "loose") (← blk "kids") ln)
  | "Table" => pure (.table (← aligns "columnAlign") (← blk "header") (← blk "rows") ln)
  | "TableRow" => pure (.tableRow (← aligns "rowAlign") (← blk "cells") ln)
  | "TableCell" => pure (.tableCell (← getOptNat j "align") (← inl "kids") ln)
  | "ThematicBreak" => pure (.thematicBreak (← Driver.getStr j "line") ln)
  | "HtmlBlock" => pure (.htmlBlock (← Driver.getStr j "content") ln)
  | "BlankLine" => pure (.blankLine ln)
  | "LinkRefDefBlock" => pure (.linkRefDefBlock (← inl "defs") ln)
  | _ => throw s!"block kind {t}"

def docOf (j : Json) : Except String Doc := do
  let kids ← (← Driver.getArr j "kids").toList.mapM blockOf
  let fns ← (← Driver.getArr j "footnotes").toList.mapM (fun f => do
    let a ← Driver.asArr f
    pure ((← Driver.asStr a[0]!), (← Driver.asStr a[1]!), (← Driver.asStr a[2]!)))
  pure { kids := kids, footnotes := fns }

end Driver.Ast
