import Driver.Codec
import Mistletoe.Model.Lines
open Lean Mistletoe Mistletoe.Lines

namespace Driver.Lines

/-- op "lines.normalize": {"form": "str"|"list"|"file", "text": String, "lines": [String]} -/
def normalizeOp (j : Json) : Except String Json := do
  let form ← j.getObjValAs? String "form"
  let inp ← match form with
    | "str" => do pure (Input.str (← Driver.getStr j "text"))
    | "file" => do pure (Input.file (← Driver.getStr j "text"))
    | "list" => do pure (Input.list (← (← Driver.getArr j "lines").toList.mapM Driver.asStr))
    | _ => throw "bad form"
  pure (Driver.arr ((normalize inp).map Driver.str))

end Driver.Lines
