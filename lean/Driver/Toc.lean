import Driver.Codec
import Driver.Ast
import Mistletoe.Model.Toc
open Lean Mistletoe Mistletoe.Toc

namespace Driver.Toc

def isInfix (pat s : Str) : Bool :=
  pat.isEmpty || (List.range (s.length + 1)).any (fun i => pat.isPrefixOf (s.drop i))

/-- op "toc.collect": {"dq","sq","depth","omitTitle","excludeIfContains":[String], "doc"} -/
def collectOp (j : Json) : Except String Json := do
  let q : Html.Quotes := ⟨(j.getObjValAs? Bool "dq").toOption.getD false, (j.getObjValAs? Bool "sq").toOption.getD false⟩
  let subs ← (← Driver.getArr j "excludeIfContains").toList.mapM Driver.asStr
  let cfg : Cfg := { depth := ← Driver.getNat j "depth", omitTitle := ← Driver.getBool j "omitTitle",
                     excluded := fun c => subs.any (fun p => isInfix p c) }
  let d ← Driver.Ast.docOf (← j.getObjVal? "doc")
  let hs := collectL q cfg d.kids
  pure (Json.mkObj [("headings", Driver.arr (hs.map (fun h => Driver.arr [Driver.nat h.1, Driver.str h.2]))),
                    ("lines", Driver.arr ((tocLines hs).map Driver.str))])

end Driver.Toc
