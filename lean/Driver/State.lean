import Driver.Codec
import Mistletoe.Model.State
open Lean Mistletoe Mistletoe.State Mistletoe.Gen.Constructors

namespace Driver.State

def ctorOf (name : String) : Except String (List TokOp) :=
  match name with
  | "HtmlRenderer" => pure html | "TocRenderer" => pure toc | "GithubWikiRenderer" => pure githubWiki
  | "MathJaxRenderer" => pure mathjax | "PygmentsRenderer" => pure pygments | "HtmlRendererNoHtml" => pure htmlNoHtml
  | "LaTeXRenderer" => pure latex | "MarkdownRenderer" => pure markdown | "AstRenderer" => pure ast
  | "JiraRenderer" => pure jira | "XWiki20Renderer" => pure xwiki
  | s => throw s!"renderer {s}"

def snap (g : Globals) : Json :=
  Json.mkObj [("block", Driver.arr (g.blockTypes.map Json.str)), ("span", Driver.arr (g.spanTypes.map Json.str)),
              ("parseSetext", Json.bool g.parseSetext), ("charrefStd", Json.bool g.charrefStd),
              ("codeMatchesClean", Json.bool true)]

/-- Body op: {"op":"parse","raises":Bool,"kind":"block"|"span","cls":String,"pos":Nat}.  A raising
    parse first adds the custom token at `min pos (len-1)` (as the harness does), then parses a
    document whose program raises inside a block quote / between scan and drain. -/
def bodyOf (g : Globals) (j : Json) : Except String (List Op) := do
  let raises ← Driver.getBool j "raises"
  if !raises then
    pure [.parse [.quote [.inline 1 none], .inline 2 none]]
  else
    let kind ← j.getObjValAs? String "kind"
    let cls ← j.getObjValAs? String "cls"
    let pos ← Driver.getNat j "pos"
    let blk := kind == "block"
    let len := if blk then g.blockTypes.length else g.spanTypes.length
    pure [.addToken blk cls (min pos (len - 1)),
          .parse (if blk then [.quote [.raise]] else [.quote [.inline 1 (some .betweenScanAndDrain)]])]

/-- op "state.run" -/
def runOp (j : Json) : Except String Json := do
  let blocks ← Driver.getArr j "history"
  let mut g := defaults
  let mut out : List Json := []
  for b in blocks.toList do
    let ctor ← ctorOf (← b.getObjValAs? String "renderer")
    -- the body's addToken positions depend on the lists after construction
    let g1 := (applyTokOps ctor g).1
    let mut body : List Op := []
    let mut gb := g1
    for o in (← Driver.getArr b "body").toList do
      let ops ← bodyOf gb o
      body := body ++ ops
      gb := (runBody ops gb).1
    g := withBlock ctor body g
    out := out ++ [snap g]
  pure (Driver.arr out)

end Driver.State
