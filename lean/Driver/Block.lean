import Driver.Codec
import Mistletoe.Model.Block
open Lean Mistletoe Mistletoe.Block

namespace Driver.Block

def btokOf (s : String) : Except String BTok :=
  match s with
  | "HtmlBlock" => pure .htmlBlock | "BlockCode" => pure .blockCode | "Heading" => pure .heading
  | "Quote" => pure .quote | "CodeFence" => pure .codeFence | "ThematicBreak" => pure .thematicBreak
  | "List" => pure .list | "Table" => pure .table | "Footnote" => pure .footnote
  | "Paragraph" => pure .paragraph | "BlankLine" => pure .blankLine
  | "LinkReferenceDefinitionBlock" => pure .linkRefDefBlock
  | s => throw s!"block token {s}"

def strs (ls : List Str) : Json := Driver.arr (ls.map Driver.str)

def fnJson (m : FnMatch) : Json :=
  Driver.arr [Driver.str m.label, Driver.str m.dest, Driver.str m.title, Driver.str m.destType,
    (match m.titleDelim with | some c => Driver.str [c] | none => Json.null)]

mutual
partial def entryJson : Entry → Json
  | .blockCode ls ln _ => Driver.arr [Json.str "BlockCode", strs ls, Driver.nat ln]
  | .heading lvl c cl ln _ => Driver.arr [Json.str "Heading", Driver.arr [Driver.nat lvl, Driver.str c, Driver.str cl], Driver.nat ln]
  | .quote inner loose ln _ => Driver.arr [Json.str "Quote", Driver.arr [Driver.arr (inner.map entryJson), Json.bool loose], Driver.nat ln]
  | .codeFence ls p ld info lang ln _ =>
    Driver.arr [Json.str "CodeFence", Driver.arr [strs ls, Driver.arr [Driver.nat p, Driver.str ld, Driver.str info, Driver.str lang]], Driver.nat ln]
  | .thematicBreak l ln _ => Driver.arr [Json.str "ThematicBreak", strs [l], Driver.nat ln]
  | .list items ln _ => Driver.arr [Json.str "List", Driver.arr (items.map itemJson), Driver.nat ln]
  | .table ls sl ln _ => Driver.arr [Json.str "Table", Driver.arr [strs ls, Driver.nat sl], Driver.nat ln]
  | .footnote ms ln _ => Driver.arr [Json.str "Footnote", Driver.arr (ms.map fnJson), Driver.nat ln]
  | .linkRefDefs ms ln _ => Driver.arr [Json.str "LinkReferenceDefinitionBlock", Driver.arr (ms.map fnJson), Driver.nat ln]
  | .paragraph ls ln _ => Driver.arr [Json.str "Paragraph", strs ls, Driver.nat ln]
  | .setext ls ln _ => Driver.arr [Json.str "Setext", strs ls, Driver.nat ln]
  | .htmlBlock ls ln _ => Driver.arr [Json.str "HtmlBlock", strs ls, Driver.nat ln]
  | .blankLine ln _ => Driver.arr [Json.str "BlankLine", Json.null, Driver.nat ln]
partial def itemJson : Item → Json
  | .mk inner loose ind pre ldr ln _ =>
    Driver.arr [Driver.arr [Driver.arr (inner.map entryJson), Json.bool loose], Driver.nat ind, Driver.nat pre, Driver.str ldr, Driver.nat ln]
end

def errName : Err → String
  | .index => "IndexError" | .type => "TypeError" | .stopIteration => "StopIteration" | .unbound => "UnboundLocalError"
  | .key => "KeyError" | .value => "ValueError" | .refusal _ => "refusal" | .fuel => "fuel"

/-- op "block.parse": {"types": [String], "tableInterrupt": Bool, "lines": [String], "fuel": Nat} -/
def parseOp (j : Json) : Except String Json := do
  let types ← (← Driver.getArr j "types").toList.mapM (fun t => do btokOf (← t.getStr?))
  let lines ← (← Driver.getArr j "lines").toList.mapM Driver.asStr
  let cfg : Cfg := { types := types, tableInterrupt := (j.getObjValAs? Bool "tableInterrupt").toOption.getD true }
  let fuel := (j.getObjValAs? Nat "fuel").toOption.getD 1000000
  match blockPhase cfg fuel lines with
  | .err e => pure (Json.mkObj [("raises", Json.str (errName e))])
  | .ok (b, st) =>
    pure (Json.mkObj [("buffer", Driver.arr [Driver.arr (b.entries.map entryJson), Json.bool b.loose]),
                      ("defs", Driver.arr (st.defs.map fnJson))])

end Driver.Block
