import Driver.Codec
import Mistletoe.Gen.Corpus
import Mistletoe.Model.SpecCheck
open Lean Mistletoe

namespace Driver.Corpus

/-- op "corpus.dump": the corpus exactly as the C02 theorem sees it (`Gen.Corpus.all`) -/
def dumpOp (_ : Json) : Except String Json :=
  pure (Driver.arr (Gen.Corpus.all.map (fun (n, md, html) =>
    Json.mkObj [("example", Driver.nat n), ("markdown", Driver.str md), ("html", Driver.str html)])))

/-- op "corpus.run": {"text"} → what `SpecCheck.run` (the function the theorem evaluates) returns -/
def runOp (j : Json) : Except String Json := do
  let text ← Driver.getStr j "text"
  match SpecCheck.run text with
  | some out => pure (Driver.str out)
  | none => pure Json.null

end Driver.Corpus
