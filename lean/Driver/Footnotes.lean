import Driver.Codec
import Mistletoe.Model.Footnotes
open Lean Mistletoe Mistletoe.Footnotes

namespace Driver.Footnotes

/-- op "footnotes.of": {"defs": [[label, dest, title]…]} → [[key, dest, title]…] (insertion order) -/
def ofOp (j : Json) : Except String Json := do
  let defs ← (← Driver.getArr j "defs").toList.mapM (fun d => do
    let a ← Driver.asArr d
    pure ((← Driver.asStr a[0]!), (← Driver.asStr a[1]!), (← Driver.asStr a[2]!)))
  pure (Driver.arr ((footnotesOf defs).map (fun e => Driver.arr [Driver.str e.1, Driver.str e.2.1, Driver.str e.2.2])))

/-- op "label.normalize": {"s": String} -/
def normOp (j : Json) : Except String Json := do
  pure (Driver.str (normalizeLabel (← Driver.getStr j "s")))

end Driver.Footnotes
