import Driver.Codec
import Driver.Block
import Driver.Doc
import Driver.Wrap
import Driver.Ast
import Mistletoe.Model.Document
import Mistletoe.Model.Markdown
open Lean Mistletoe

namespace Driver.Md

def optsOf (j : Json) : Except String Markdown.Opts := do
  pure { maxLineLength := ← Driver.Wrap.optInt j "maxLineLength",
         normalizeWhitespace := (j.getObjValAs? Bool "normalizeWhitespace").toOption.getD false }

def renderTree (opts : Markdown.Opts) (d : Doc) : Json :=
  match Markdown.renderRes opts d with
  | .err e => Json.mkObj [("raises", Json.str (Driver.Block.errName e)), ("phase", "render")]
  | .ok s => Json.mkObj [("md", Driver.str s)]

/-- op "md.render": {"text" | "lines", "types", "span", "fuel"?, "opts": {"maxLineLength": Int|null,
    "normalizeWhitespace": Bool}} → {"md": String} | {"raises": name, "phase": "parse"|"render"}:
    `MarkdownRenderer(**opts).render(Document(text))` under the given token lists.
    With {"doc": Doc, "opts"} instead of a text: `MarkdownRenderer(**opts).render(doc)` on the given tree. -/
def renderOp (j : Json) : Except String Json := do
  if let .ok dj := j.getObjVal? "doc" then
    let opts ← match j.getObjVal? "opts" with
      | .ok o => optsOf o
      | .error _ => pure {}
    return renderTree opts (← Driver.Ast.docOf dj)
  let cfg ← Driver.Doc.cfgOf j
  let fuel := (j.getObjValAs? Nat "fuel").toOption.getD 1000000
  let opts ← match j.getObjVal? "opts" with
    | .ok o => optsOf o
    | .error _ => pure {}
  let r ← match j.getObjVal? "lines" with
    | .ok v => do
      let lines ← (← Driver.asArr v).toList.mapM Driver.asStr
      pure (Document.parseLines cfg fuel (Lines.normalize (.list lines)))
    | .error _ => do
      let text ← Driver.getStr j "text"
      pure (Document.parse cfg fuel text)
  match r with
  | .err e => pure (Json.mkObj [("raises", Json.str (Driver.Block.errName e)), ("phase", "parse")])
  | .ok d => pure (renderTree opts d)

end Driver.Md
