import Driver.Codec
import Driver.Ast
import Mistletoe.Model.Html
open Lean Mistletoe Mistletoe.Html

namespace Driver.Html

def optsOf (j : Json) : Except String Opts := do
  let fl ← match (j.getObjValAs? String "flavor").toOption.getD "html" with
    | "html" => pure Flavor.html | "toc" => pure Flavor.toc | "githubWiki" => pure Flavor.githubWiki
    | "mathjax" => pure Flavor.mathjax | "pygments" => pure Flavor.pygments
    | s => throw s!"flavor {s}"
  pure { dq := (j.getObjValAs? Bool "dq").toOption.getD false,
         sq := (j.getObjValAs? Bool "sq").toOption.getD false,
         processHtml := (j.getObjValAs? Bool "processHtml").toOption.getD true,
         flavor := fl }

/-- op "html.render": {"opts": {...}, "doc": Doc} → {"out": String} | {"raises": true} -/
def renderOp (j : Json) : Except String Json := do
  let o ← optsOf (← j.getObjVal? "opts")
  let d ← Driver.Ast.docOf (← j.getObjVal? "doc")
  if supported o d then
    pure (Json.mkObj [("out", Driver.str (renderFlavored o d))])
  else
    pure (Json.mkObj [("raises", Json.bool true)])

/-- op "escape": {"fn": name, "dq","sq", "s": String} -/
def escapeOp (j : Json) : Except String Json := do
  let fn ← j.getObjValAs? String "fn"
  let s ← Driver.getStr j "s"
  let dq := (j.getObjValAs? Bool "dq").toOption.getD false
  let sq := (j.getObjValAs? Bool "sq").toOption.getD false
  match fn with
  | "escape_html_text" => pure (Driver.str (Escape.escapeHtmlText dq sq s))
  | "html.escape" => pure (Driver.str (Escape.htmlEscape s))
  | "html.escape_url" => pure (Driver.str (Escape.htmlEscapeUrl s))
  | "latex.raw_text" => pure (Driver.str (Escape.latexRawText s))
  | "latex.escape_url" => pure (Driver.str (Escape.latexEscapeUrl s))
  | _ => throw s!"escape fn {fn}"

end Driver.Html
