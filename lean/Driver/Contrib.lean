import Driver.Codec
import Driver.Block
import Driver.Doc
import Driver.Ast
import Mistletoe.Model.Document
import Mistletoe.Model.Jira
import Mistletoe.Model.XWiki
import Mistletoe.Model.Latex
open Lean Mistletoe

namespace Driver.Contrib

def renderTree (render : Doc → Res Str) (d : Doc) : Json :=
  match render d with
  | .err e => Json.mkObj [("raises", Json.str (Driver.Block.errName e)), ("phase", "render")]
  | .ok s => Json.mkObj [("out", Driver.str s)]

/-- {"doc": Doc} → `R().render(doc)` on the given tree;
    {"text" | "lines", "types", "span", "fuel"?} → `R().render(Document(text))` under the given token lists.
    Result: {"out": String} | {"raises": name, "phase": "parse"|"render"}. -/
def renderWith (render : Doc → Res Str) (j : Json) : Except String Json := do
  if let .ok dj := j.getObjVal? "doc" then
    return renderTree render (← Driver.Ast.docOf dj)
  let cfg ← Driver.Doc.cfgOf j
  let fuel := (j.getObjValAs? Nat "fuel").toOption.getD 1000000
  let r ← match j.getObjVal? "lines" with
    | .ok v => do
      let lines ← (← Driver.asArr v).toList.mapM Driver.asStr
      pure (Document.parseLines cfg fuel (Lines.normalize (.list lines)))
    | .error _ => do
      let text ← Driver.getStr j "text"
      pure (Document.parse cfg fuel text)
  match r with
  | .err e => pure (Json.mkObj [("raises", Json.str (Driver.Block.errName e)), ("phase", "parse")])
  | .ok d => pure (renderTree render d)

/-- op "jira.render": `JiraRenderer().render(…)` (Model/Jira.lean) -/
def jiraOp (j : Json) : Except String Json := renderWith Jira.render j

/-- op "xwiki.render": `XWiki20Renderer().render(…)` (Model/XWiki.lean) -/
def xwikiOp (j : Json) : Except String Json := renderWith XWiki.render j

/-- op "latex.text": `LaTeXRenderer().render(…)` from a text or a tree: the total `Latex.render` behind the predicates
    that say where the Python raises (the `\\verb` refusal; a class without render-map entry or a bad align option) -/
def latexOp (j : Json) : Except String Json :=
  renderWith (fun d =>
    if Latex.refusesBlocks d.kids then .err (.refusal 0)
    else if Latex.supportedBlocks d.kids then .ok (Latex.render d) else .err .key) j

end Driver.Contrib
