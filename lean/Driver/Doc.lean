import Driver.Codec
import Driver.Block
import Driver.Html
import Mistletoe.Model.Document
import Mistletoe.Model.Html
open Lean Mistletoe

namespace Driver.Doc
open Mistletoe.Inline

def stokOf (s : String) : Except String STok :=
  match s with
  | "EscapeSequence" => pure .escapeSequence | "HtmlSpan" => pure .htmlSpan | "Strikethrough" => pure .strikethrough
  | "AutoLink" => pure .autoLink | "CoreTokens" => pure .coreTokens | "InlineCode" => pure .inlineCode
  | "LineBreak" => pure .lineBreak | "Math" => pure .math | "GithubWiki" => pure .githubWiki
  | "XWikiBlockMacroStart" => pure .xwikiMacroStart | "XWikiBlockMacroEnd" => pure .xwikiMacroEnd
  | s => throw s!"span token {s}"

def destName : DestType → String
  | .uri => "uri" | .angleUri => "angleUri" | .full => "full" | .collapsed => "collapsed" | .shortcut => "shortcut" | .none => "none"

def optS : Option Str → Json
  | none => Json.null
  | some s => Driver.str s

partial def inlineJson : Inline → Json
  | .rawText c => Json.mkObj [("t", "RawText"), ("content", Driver.str c)]
  | .strong d k => Json.mkObj [("t", "Strong"), ("delimiter", Driver.str d), ("kids", Driver.arr (k.map inlineJson))]
  | .emphasis d k => Json.mkObj [("t", "Emphasis"), ("delimiter", Driver.str d), ("kids", Driver.arr (k.map inlineJson))]
  | .inlineCode d p c => Json.mkObj [("t", "InlineCode"), ("delimiter", Driver.str d), ("padding", Driver.str p), ("content", Driver.str c)]
  | .strikethrough k => Json.mkObj [("t", "Strikethrough"), ("kids", Driver.arr (k.map inlineJson))]
  | .image src title dt label td k => Json.mkObj [("t", "Image"), ("src", Driver.str src), ("title", Driver.str title),
      ("destType", destName dt), ("label", optS label), ("titleDelim", optS td), ("kids", Driver.arr (k.map inlineJson))]
  | .link tg title dt label td k => Json.mkObj [("t", "Link"), ("target", Driver.str tg), ("title", Driver.str title),
      ("destType", destName dt), ("label", optS label), ("titleDelim", optS td), ("kids", Driver.arr (k.map inlineJson))]
  | .autoLink t m => Json.mkObj [("t", "AutoLink"), ("target", Driver.str t), ("mailto", Json.bool m)]
  | .escapeSequence c => Json.mkObj [("t", "EscapeSequence"), ("content", Driver.str c)]
  | .lineBreak c s => Json.mkObj [("t", "LineBreak"), ("content", Driver.str c), ("soft", Json.bool s)]
  | .htmlSpan c => Json.mkObj [("t", "HtmlSpan"), ("content", Driver.str c)]
  | .math c => Json.mkObj [("t", "Math"), ("content", Driver.str c)]
  | .githubWiki t k => Json.mkObj [("t", "GithubWiki"), ("target", Driver.str t), ("kids", Driver.arr (k.map inlineJson))]
  | .xwikiMacroStart c => Json.mkObj [("t", "XWikiMacroStart"), ("content", Driver.str c)]
  | .xwikiMacroEnd c => Json.mkObj [("t", "XWikiMacroEnd"), ("content", Driver.str c)]
  | .linkRefDef l d t dt td => Json.mkObj [("t", "LinkRefDef"), ("label", Driver.str l), ("dest", Driver.str d), ("title", Driver.str t),
      ("destType", destName dt), ("titleDelim", optS td)]

def alignJ : Option Nat → Json
  | none => Json.null
  | some n => Driver.nat n

partial def blockJson : Block → Json
  | .paragraph k ln => Json.mkObj [("t", "Paragraph"), ("kids", Driver.arr (k.map inlineJson)), ("ln", Driver.nat ln)]
  | .heading lv cl k ln => Json.mkObj [("t", "Heading"), ("level", Driver.nat lv), ("closing", Driver.str cl), ("kids", Driver.arr (k.map inlineJson)), ("ln", Driver.nat ln)]
  | .setextHeading lv u k ln => Json.mkObj [("t", "SetextHeading"), ("level", Driver.nat lv), ("underline", Driver.str u), ("kids", Driver.arr (k.map inlineJson)), ("ln", Driver.nat ln)]
  | .quote k ln => Json.mkObj [("t", "Quote"), ("kids", Driver.arr (k.map blockJson)), ("ln", Driver.nat ln)]
  | .blockCode c ln => Json.mkObj [("t", "BlockCode"), ("content", Driver.str c), ("ln", Driver.nat ln)]
  | .codeFence lang ind d info c ln => Json.mkObj [("t", "CodeFence"), ("language", Driver.str lang), ("indentation", Driver.nat ind),
      ("delimiter", Driver.str d), ("infoString", Driver.str info), ("content", Driver.str c), ("ln", Driver.nat ln)]
  | .list loose start items ln => Json.mkObj [("t", "List"), ("loose", Json.bool loose), ("start", alignJ start), ("items", Driver.arr (items.map blockJson)), ("ln", Driver.nat ln)]
  | .listItem ld ind pre loose k ln => Json.mkObj [("t", "ListItem"), ("leader", Driver.str ld), ("indentation", Driver.nat ind), ("prepend", Driver.nat pre),
      ("loose", Json.bool loose), ("kids", Driver.arr (k.map blockJson)), ("ln", Driver.nat ln)]
  | .table ca h rows ln => Json.mkObj [("t", "Table"), ("columnAlign", Driver.arr (ca.map alignJ)), ("header", Driver.arr (h.map blockJson)),
      ("rows", Driver.arr (rows.map blockJson)), ("ln", Driver.nat ln)]
  | .tableRow ra cells ln => Json.mkObj [("t", "TableRow"), ("rowAlign", Driver.arr (ra.map alignJ)), ("cells", Driver.arr (cells.map blockJson)), ("ln", Driver.nat ln)]
  | .tableCell a k ln => Json.mkObj [("t", "TableCell"), ("align", alignJ a), ("kids", Driver.arr (k.map inlineJson)), ("ln", Driver.nat ln)]
  | .thematicBreak l ln => Json.mkObj [("t", "ThematicBreak"), ("line", Driver.str l), ("ln", Driver.nat ln)]
  | .htmlBlock c ln => Json.mkObj [("t", "HtmlBlock"), ("content", Driver.str c), ("ln", Driver.nat ln)]
  | .blankLine ln => Json.mkObj [("t", "BlankLine"), ("ln", Driver.nat ln)]
  | .linkRefDefBlock ds ln => Json.mkObj [("t", "LinkRefDefBlock"), ("defs", Driver.arr (ds.map inlineJson)), ("ln", Driver.nat ln)]

def docJson (d : Doc) : Json :=
  Json.mkObj [("kids", Driver.arr (d.kids.map blockJson)),
              ("footnotes", Driver.arr (d.footnotes.map (fun (k, a, b) => Driver.arr [Driver.str k, Driver.str a, Driver.str b])))]

def cfgOf (j : Json) : Except String Document.Cfg := do
  let types ← (← Driver.getArr j "types").toList.mapM (fun t => do Driver.Block.btokOf (← t.getStr?))
  let span ← (← Driver.getArr j "span").toList.mapM (fun t => do stokOf (← t.getStr?))
  pure { block := { types := types, tableInterrupt := (j.getObjValAs? Bool "tableInterrupt").toOption.getD true }, span := span }

/-- op "doc.parse": {"types", "span", "text" | "lines", "fuel", "html": opts?} →
    {"doc": Doc, "html": String?} | {"raises": name} -/
def parseOp (j : Json) : Except String Json := do
  let cfg ← cfgOf j
  let fuel := (j.getObjValAs? Nat "fuel").toOption.getD 1000000
  let r ← match j.getObjVal? "lines" with
    | .ok v => do
      let lines ← (← Driver.asArr v).toList.mapM Driver.asStr
      pure (Document.parseLines cfg fuel (Lines.normalize (.list lines)))
    | .error _ => do
      let text ← Driver.getStr j "text"
      pure (Document.parse cfg fuel text)
  match r with
  | .err e => pure (Json.mkObj [("raises", Json.str (Driver.Block.errName e))])
  | .ok d =>
    let base := [("doc", docJson d)]
    match j.getObjVal? "html" with
    | .ok o => do
      let opts ← Driver.Html.optsOf o
      if Html.supported opts d then pure (Json.mkObj (base ++ [("html", Driver.str (Html.renderFlavored opts d))]))
      else pure (Json.mkObj (base ++ [("html", Json.null)]))
    | .error _ => pure (Json.mkObj base)

/-- op "inline.tokenize": {"span": [...], "text": String, "footnotes": [[key,dest,title]]} -/
def inlineOp (j : Json) : Except String Json := do
  let span ← (← Driver.getArr j "span").toList.mapM (fun t => do stokOf (← t.getStr?))
  let text ← Driver.getStr j "text"
  let fns ← match j.getObjVal? "footnotes" with
    | .ok v => (← Driver.asArr v).toList.mapM (fun f => do
        let a ← Driver.asArr f
        pure ((← Driver.asStr a[0]!), (← Driver.asStr a[1]!), (← Driver.asStr a[2]!)))
    | .error _ => pure []
  match Inline.tokenizeInner span fns text with
  | .err e => pure (Json.mkObj [("raises", Json.str (Driver.Block.errName e))])
  | .ok ks => pure (Json.mkObj [("kids", Driver.arr (ks.map inlineJson))])

/-- op "unescape": {"md": Bool, "strip": Bool, "s": String} -/
def unescapeOp (j : Json) : Except String Json := do
  let s ← Driver.getStr j "s"
  let md := (j.getObjValAs? Bool "md").toOption.getD true
  let st := (j.getObjValAs? Bool "strip").toOption.getD false
  pure (Driver.str (if st then Unescape.escStrip md s else Unescape.unescape md s))

end Driver.Doc
