import Driver.Codec
import Mistletoe.Model.Traverse
import Mistletoe.Model.AstJson
open Lean Mistletoe

namespace Driver.Tree
open Mistletoe.Traverse Mistletoe.AstJson

partial def rtreeOf (j : Json) : Except String RTree := do
  let a ← Driver.asArr j
  let kids ← (← Driver.asArr a[2]!).toList.mapM rtreeOf
  pure (.node (← Driver.asNat a[0]!) (← Driver.asNat a[1]!) kids)

/-- op "traverse" -/
def traverseOp (j : Json) : Except String Json := do
  let t ← rtreeOf (← j.getObjVal? "tree")
  let klass : Nat → Bool ← match j.getObjVal? "klass" with
    | .ok Json.null => pure (fun _ => true)
    | .ok v => do
      let cs ← (← Driver.asArr v).toList.mapM Driver.asNat
      pure (fun c => cs.contains c)
    | .error _ => pure (fun _ => true)
  let limit : Option Nat ← match j.getObjVal? "depth" with
    | .ok Json.null => pure none
    | .ok v => do pure (some (← Driver.asNat v))
    | .error _ => pure none
  let inc := (j.getObjValAs? Bool "include_source").toOption.getD false
  let rs := traverse t klass limit inc
  pure (Driver.arr (rs.map (fun r => Driver.arr [Driver.nat r.node.id,
    (match r.parent with | none => Json.null | some p => Driver.nat p.id), Driver.nat r.depth])))

partial def jvalOf (j : Json) : JVal :=
  match j with
  | .null => .null
  | .bool b => .bool b
  | .num n => .num n.mantissa     -- integers only (exponent 0)
  | .str s => .str s.toList
  | .arr xs => .arr (xs.toList.map jvalOf)
  | .obj kvs => .obj (kvs.toList.map (fun (k, v) => (k.toList, jvalOf v)))

partial def jsonOf (v : JVal) : Json :=
  match v with
  | .null => .null
  | .bool b => .bool b
  | .num n => Json.num n
  | .str s => Driver.str s
  | .arr xs => Driver.arr (xs.map jsonOf)
  | .obj kvs => Json.mkObj (kvs.map (fun (k, v) => (String.ofList k, jsonOf v)))

def pairsOf (j : Json) : Except String (List (Str × JVal)) := do
  (← Driver.asArr j).toList.mapM (fun kv => do
    let a ← Driver.asArr kv
    pure ((← Driver.asStr a[0]!), jvalOf a[1]!))

partial def gtokOf (j : Json) : Except String GTok := do
  let cls ← Driver.getStr j "cls"
  let vars ← pairsOf (← j.getObjVal? "vars")
  let repr ← pairsOf (← j.getObjVal? "repr")
  let header ← (← Driver.getArr j "header").toList.mapM gtokOf
  let kids ← match j.getObjVal? "kids" with
    | .ok Json.null => pure none
    | .ok v => do pure (some (← (← Driver.asArr v).toList.mapM gtokOf))
    | .error e => throw e
  pure (.mk cls vars repr header kids)

/-- op "ast.get" -/
def getAstOp (j : Json) : Except String Json := do
  let t ← gtokOf (← j.getObjVal? "tok")
  pure (jsonOf (getAst t))

end Driver.Tree
