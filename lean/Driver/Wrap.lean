import Driver.Codec
import Mistletoe.Model.Wrap
open Lean Mistletoe Mistletoe.Wrap

namespace Driver.Wrap

def fragOf (j : Json) : Except String Fragment := do
  pure { text := ← Driver.getStr j "text",
         wordwrap := (j.getObjValAs? Bool "wordwrap").toOption.getD false,
         hardLineBreak := (j.getObjValAs? Bool "hard_line_break").toOption.getD false }

def fragsOf (j : Json) : Except String (List Fragment) := do
  (← Driver.getArr j "fragments").toList.mapM fragOf

def optInt (j : Json) (k : String) : Except String (Option Int) :=
  match j.getObjVal? k with
  | .ok Json.null => pure none
  | .ok v => do pure (some (← Driver.asInt v))
  | .error _ => pure none

/-- op "md.words" -/
def wordsOp (j : Json) : Except String Json := do
  pure (Driver.arr ((makeWords (← fragsOf j)).map Driver.str))

/-- op "md.fill": fragments_to_lines(fragments, max_line_length) -/
def fillOp (j : Json) : Except String Json := do
  pure (Driver.arr ((fragmentsToLines (← fragsOf j) (← optInt j "max_line_length")).map Driver.str))

/-- op "md.prefix": prefix_lines(lines, first, following) -/
def prefixOp (j : Json) : Except String Json := do
  let lines ← (← Driver.getArr j "lines").toList.mapM Driver.asStr
  let first ← Driver.getStr j "first"
  let follow ← match j.getObjVal? "following" with
    | .ok Json.null => pure none
    | .ok v => do pure (some (← Driver.asStr v))
    | .error _ => pure none
  pure (Driver.arr ((prefixLines lines first follow).map Driver.str))

/-- op "md.budget": child budget of a container with prefix width k -/
def budgetOp (j : Json) : Except String Json := do
  let r := childBudget (← optInt j "max_line_length") (← Driver.getNat j "k")
  pure (match r with | none => Json.null | some n => Driver.int n)

end Driver.Wrap
