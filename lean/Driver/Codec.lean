/-
  JSON helpers for the line protocol (driver only; not part of the model or the proofs).
-/
import Lean.Data.Json
import Mistletoe.Model.Basic
open Lean

namespace Driver

def str (s : Mistletoe.Str) : Json := Json.str (String.ofList s)
def getStr (j : Json) (k : String) : Except String Mistletoe.Str := do
  let s ← j.getObjValAs? String k
  pure s.toList
def getNat (j : Json) (k : String) : Except String Nat := j.getObjValAs? Nat k
def getBool (j : Json) (k : String) : Except String Bool := j.getObjValAs? Bool k
def getArr (j : Json) (k : String) : Except String (Array Json) := do
  let v ← j.getObjVal? k
  v.getArr?
def asNat (j : Json) : Except String Nat := j.getNat?
def asInt (j : Json) : Except String Int := j.getInt?
def asBool (j : Json) : Except String Bool := j.getBool?
def asStr (j : Json) : Except String Mistletoe.Str := do
  let s ← j.getStr?
  pure s.toList
def asArr (j : Json) : Except String (Array Json) := j.getArr?
def nat (n : Nat) : Json := Json.num n
def int (n : Int) : Json := Json.num n
def arr (xs : List Json) : Json := Json.arr xs.toArray
def optStr : Option Mistletoe.Str → Json
  | none => Json.null
  | some s => str s

end Driver
