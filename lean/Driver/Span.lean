import Driver.Codec
import Mistletoe.Model.Span
open Lean Mistletoe Mistletoe.Span

namespace Driver.Span

def candOf (j : Json) : Except String Cand := do
  let a ← Driver.asArr j
  if a.size != 8 then throw "cand: need 8 fields"
  pure { start := ← Driver.asNat a[0]!, stop := ← Driver.asNat a[1]!,
         pstart := ← Driver.asNat a[2]!, pend := ← Driver.asNat a[3]!,
         prec := ← Driver.asNat a[4]!, inner := ← Driver.asBool a[5]!,
         cls := ← Driver.asNat a[6]!, ord := ← Driver.asNat a[7]! }

partial def outJson : Out → Json
  | .raw a b => Driver.arr [Json.str "raw", Driver.nat a, Driver.nat b]
  | .tok c kids => Driver.arr [Json.str "tok", Driver.nat c.cls, Driver.nat c.ord,
      Driver.arr (kids.map outJson)]

/-- op "span.tokenize": {"n": Nat, "cands": [[start,stop,pstart,pend,prec,inner,cls,ord]…]} -/
def tokenizeOp (j : Json) : Except String Json := do
  let n ← Driver.getNat j "n"
  let cs ← (← Driver.getArr j "cands").toList.mapM candOf
  pure (Driver.arr ((tokenize cs n).map outJson))

end Driver.Span
