/-
  Line-protocol driver: one JSON request per input line, one JSON response per output line.
  Runs the executable definitions of the model (Mistletoe/Model/*) natively.
-/
import Driver.Codec
import Driver.Span
import Driver.Lines
import Driver.Html
import Driver.Tree
import Driver.Toc
import Driver.Latex
import Driver.Wrap
import Driver.State
import Driver.Footnotes
import Driver.Scan
import Driver.Block
import Driver.Doc
import Driver.Corpus
import Driver.Md
import Driver.Contrib
open Lean

def dispatch (op : String) (j : Json) : Except String Json :=
  match op with
  | "span.tokenize" => Driver.Span.tokenizeOp j
  | "lines.normalize" => Driver.Lines.normalizeOp j
  | "html.render" => Driver.Html.renderOp j
  | "escape" => Driver.Html.escapeOp j
  | "traverse" => Driver.Tree.traverseOp j
  | "ast.get" => Driver.Tree.getAstOp j
  | "toc.collect" => Driver.Toc.collectOp j
  | "latex.render" => Driver.Latex.renderOp j
  | "md.words" => Driver.Wrap.wordsOp j
  | "md.fill" => Driver.Wrap.fillOp j
  | "md.prefix" => Driver.Wrap.prefixOp j
  | "md.budget" => Driver.Wrap.budgetOp j
  | "state.run" => Driver.State.runOp j
  | "footnotes.of" => Driver.Footnotes.ofOp j
  | "label.normalize" => Driver.Footnotes.normOp j
  | "scan" => Driver.Scan.scanOp j
  | "block.parse" => Driver.Block.parseOp j
  | "doc.parse" => Driver.Doc.parseOp j
  | "inline.tokenize" => Driver.Doc.inlineOp j
  | "unescape" => Driver.Doc.unescapeOp j
  | "corpus.dump" => Driver.Corpus.dumpOp j
  | "corpus.run" => Driver.Corpus.runOp j
  | "md.render" => Driver.Md.renderOp j
  | "jira.render" => Driver.Contrib.jiraOp j
  | "xwiki.render" => Driver.Contrib.xwikiOp j
  | "latex.text" => Driver.Contrib.latexOp j
  | "ping" => pure (Json.str "pong")
  | _ => throw s!"unknown op {op}"

def handle (line : String) : String :=
  match Json.parse line with
  | .error e => Json.compress (Json.mkObj [("error", Json.str s!"parse: {e}")])
  | .ok j =>
    match j.getObjValAs? String "op" with
    | .error e => Json.compress (Json.mkObj [("error", Json.str e)])
    | .ok op =>
      match dispatch op j with
      | .ok r => Json.compress (Json.mkObj [("ok", r)])
      | .error e => Json.compress (Json.mkObj [("error", Json.str e)])

partial def loop (h : IO.FS.Stream) (out : IO.FS.Stream) : IO Unit := do
  let line ← h.getLine
  if line.isEmpty then return ()
  out.putStrLn (handle line)
  loop h out

def main : IO Unit := do
  loop (← IO.getStdin) (← IO.getStdout)
