/-
  C03 with fenced code blocks and setext headings (`Proofs/ComposeCode.lean`): non-vacuity, part 2 (setext headings).  A
  sample forest with setext headings at top level and inside list items is well-formed by kernel evaluation; the theorems
  apply to it; evaluating the model on the written text in the kernel gives the same HTML; the real `mistletoe.markdown`
  returns this string for this text.  Every underline of the specification's shape (up to 3 + 6 + 3 characters) passes
  `ulOk`.  Then the recorded finding that keeps setext headings out of quotes.
-/
import Mistletoe.Proofs.ComposeCode
namespace Mistletoe.ComposeC
open Mistletoe Mistletoe.Py Mistletoe.Scan Mistletoe.Compose
open Mistletoe.Block hiding numbered numbered_cons numbered_append
open Mistletoe.Html

def L3 (s : String) : Str := s.toList

/-- setext headings: two text lines over `===`; one line over `---` (NOT a paragraph and a thematic break); inside the
    items of a loose bullet list (underline ` -  `, then a fenced block; underline indented by three spaces); a thematic
    break `---` behind the list; a quote; a tight ordered list whose only item is a heading -/
def sampleD : List T3 := [
  .setext 1 [L3 "Title line one\n", L3 "and two\n"] (L3 "===\n"),
  .para [L3 "text\n"],
  .setext 2 [L3 "Sub & heading\n"] (L3 "---\n"),
  .list false 0 '-' 1 true [
    [.setext 2 [L3 "in item\n"] (L3 " -  \n"), .fence 0 (L3 "```") [] [L3 "x\n"] (L3 "```\n")],
    [.setext 1 [L3 "second\n"] (L3 "   =====\n")]],
  .hr (L3 "---\n"),
  .quote false [.para [L3 "quoted\n"]],
  .list true 3 '.' 2 false [[.setext 2 [L3 "tight\n"] (L3 "--\n")]]]

theorem sampleD_ok : T3.oks sampleD = true := by decide +kernel

example : (writes3 sampleD).flatten =
    L3 "Title line one\nand two\n===\n\ntext\n\nSub & heading\n---\n\n- in item\n   -  \n\n  ```\n  x\n  ```\n\n- second\n     =====\n\n---\n\n> quoted\n\n3.  tight\n    --\n" := by
  decide +kernel

/-- `mistletoe.markdown` returns this string for the text above -/
def htmlD : Str :=
  L3 "<h1>Title line one\nand two</h1>\n<p>text</p>\n<h2>Sub &amp; heading</h2>\n<ul>\n<li>\n<h2>in item</h2>\n<pre><code>x\n</code></pre>\n</li>\n<li>\n<h1>second</h1>\n</li>\n</ul>\n<hr />\n<blockquote>\n<p>quoted</p>\n</blockquote>\n<ol start=\"3\">\n<li>\n<h2>tight</h2>\n</li>\n</ol>\n"

example : htmlOf3 {} sampleD = htmlD ∧ needs3 sampleD = 325 := by
  refine ⟨?_, ?_⟩ <;> decide +kernel

/-- an instance of `C03_code_html_partial`, and the same fact by evaluation -/
example : Config.renderHtml {} 325 (writes3 sampleD).flatten = some htmlD := by
  rw [C03_code_html_partial {} sampleD sampleD_ok (by decide) 325 (by decide +kernel)]
  decide +kernel
example : Config.renderHtml {} 325 (writes3 sampleD).flatten = some htmlD := by decide +kernel

/-- every underline of the specification's shape with at most 3 + 6 + 3 characters passes `ulOk` (192 lines): the facts
    about the scanners that `ulOk` lists hold for them -/
def ulAll : List (Nat × Str) :=
  [(1, '='), (2, '-')].flatMap (fun p => (List.range 4).flatMap (fun n => (List.range 6).flatMap (fun m => (List.range 4).map (fun t =>
    (p.1, sp n ++ List.replicate (m + 1) p.2 ++ sp t ++ ['\n'])))))
example : ulAll.length = 192 ∧ ulAll.all (fun p => ulOk p.1 p.2) = true := by
  refine ⟨?_, ?_⟩ <;> decide +kernel
/-- … and it rejects: four spaces, a mixed run, text behind the run, the wrong level, no run -/
example : [ulOk 1 (L3 "    ===\n"), ulOk 1 (L3 "==-\n"), ulOk 2 (L3 "--- x\n"), ulOk 2 (L3 "===\n"), ulOk 1 (L3 "\n"), ulOk 2 (L3 "- -\n")] =
    List.replicate 6 false := by decide +kernel

/-- **Why no setext heading inside a quote** (recorded finding): `Quote.read` parses its content with
    `Paragraph.parse_setext` off; text and underline come out as one paragraph (the real `mistletoe.markdown` returns the
    same string; the specification gives `<blockquote><h1>a</h1></blockquote>`).  `T3.ok` excludes it. -/
example : Config.renderHtml {} 100 (L3 "> a\n> ===\n") = some (L3 "<blockquote>\n<p>a\n===</p>\n</blockquote>\n") := by
  decide +kernel
example : T3.oks [.quote false [.setext 1 [L3 "a\n"] (L3 "===\n")]] = false ∧
    T3.oks [.quote false [.list false 0 '-' 1 false [[.setext 1 [L3 "a\n"] (L3 "===\n")]]]] = false ∧
    T3.oks [.list false 0 '-' 1 false [[.setext 1 [L3 "a\n"] (L3 "===\n")]]] = true := by
  refine ⟨?_, ?_, ?_⟩ <;> decide +kernel


end Mistletoe.ComposeC
