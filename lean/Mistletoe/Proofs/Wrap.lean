/-
  Lemmas for C04: wrapping a buffer of lines in a block quote (a marker before every line) or in a
  list item (a marker before the first line, that many spaces before every other non-blank line)
  wraps its parse.

  Quote half: a line that begins with '>' starts no block token other than `Quote` (and `Paragraph`)
  and fires no `check_interrupts_paragraph` other than `Quote`'s, so `Quote.read` takes every marked
  line, strips exactly the marker (`convert_leading_tabs` leaves a tab-free line alone) and hands the
  original lines, numbered from the same start line, to the nested `tokenize_block` -- run with
  `Paragraph.parse_setext` switched off.

  List half: a line "<marker><1-4 spaces><content>" (marker at column 0, content beginning with a
  non-whitespace character, the line not a thematic break) starts no token type consulted before
  `List`; `ListItem.parse_marker` finds the content offset W = |marker| + padding; every following line
  is either "\n" or W spaces before a line whose first non-space character is not whitespace, so
  `parse_continuation` gives back exactly the original line and no interrupt is ever consulted; the
  buffer not ending in "\n", nothing is dropped, no next marker is found, and `List.read` returns
  one item around the nested `tokenize_block` of the original lines (same start line, same state).
-/
import Mistletoe.Proofs.Inert
namespace Mistletoe.Block
open Mistletoe Mistletoe.Py Mistletoe.Scan

theorem gt_nonblank (s : Str) : isBlank ('>' :: s) = false := by
  simp [isBlank, show pyIsSpace '>' = false by decide]

theorem gt_heading (s : Str) : heading ('>' :: s) = none := by
  simp [heading, upTo3Spaces, countLeading, span]

theorem gt_codeFence (s : Str) : codeFenceStart ('>' :: s) = none := by
  simp [codeFenceStart, codeFence, upTo3Spaces, countLeading]

theorem gt_thematicBreak (s : Str) : thematicBreak ('>' :: s) = false := by
  simp [thematicBreak, upTo3Spaces, countLeading]

theorem gt_listMarker (s : Str) : listMarker ('>' :: s) = none := by
  simp [listMarker, span, show isDigit '>' = false by decide]

theorem gt_listStart (s : Str) : listStart ('>' :: s) = false := by
  simp [listStart, upTo3Spaces, countLeading, gt_listMarker]

theorem gt_listItem (s : Str) : listItem ('>' :: s) = none := by
  simp [listItem, upTo3Spaces, countLeading, gt_listMarker]

theorem gt_quoteStart (s : Str) : quoteStart ('>' :: s) = true := by
  simp [quoteStart, lstripSp, startsWith]

theorem gt_lstrip (s : Str) : lstrip ('>' :: s) = '>' :: s := by
  simp [lstrip, show pyIsSpace '>' = false by decide]

theorem gt_bracket (s : Str) : startsWith ['['] (lstrip ('>' :: s)) = false := by
  simp [gt_lstrip, startsWith, isPrefix_ne]

theorem gt_delimiterRow (s : Str) : delimiterRow ('>' :: s) = false := by
  simp [delimiterRow, span, ws, show pyIsSpace '>' = false by decide, alignCol]

theorem gt_blockCode (s : Str) : blockCodeStart ('>' :: s) = false := by
  simp [blockCodeStart, replaceTab1, replaceFirst, startsWith, isPrefix_ne]

theorem gt_blankLine (s : Str) : blankLine ('>' :: s) = false := by
  simp [blankLine, ws, show pyIsSpace '>' = false by decide]

theorem gt_html (s : Str) : htmlBlockStart ('>' :: s) = .ok none := by
  unfold htmlBlockStart
  simp only [gt_lstrip]
  have hlen : ¬ (('>' :: s).length - ('>' :: s).length ≥ 4) := by simp
  simp only [hlen, if_false]
  have hm : multiblock ('>' :: s) = none := by unfold multiblock; simp
  have hs : ∀ p : Str, startsWith ('<' :: p) ('>' :: s) = false := by
    intro p; simp [startsWith, isPrefix_ne]
  have hr : htmlRest ('>' :: s) = none := by
    unfold htmlRest
    have h1 : predefined ('>' :: s) = none := by unfold predefined; simp
    have h2 : customTag ('>' :: s) = false := by
      unfold customTag
      have a : openTag ('>' :: s) = none := by unfold openTag; simp
      have b : closingTag ('>' :: s) = none := by unfold closingTag; simp
      simp [a, b]
    simp [h1, h2]
  have e1 : "<!--".toList = '<' :: ['!', '-', '-'] := by decide
  have e2 : "<?".toList = '<' :: ['?'] := by decide
  have e3 : "<!".toList = '<' :: ['!'] := by decide
  simp only [hm, e1, e2, e3, hs, hr, Bool.false_eq_true, if_false]

/-- on a line that begins with '>' no `check_interrupts_paragraph` other than `Quote`'s fires
    (the table's needs a delimiter row on the following line) -/
theorem anyInterrupt_gt (cfg : Cfg) (fw : FW) (l : Line) (t : Str) (hp : fw.peek = some l) (hl : l.s = '>' :: t)
    (ht : readTable fw = none) : ∀ ts, anyInterrupt cfg fw .quote false ts = .ok false
  | [] => rfl
  | x :: ts => by
    have ih := anyInterrupt_gt cfg fw l t hp hl ht ts
    simp only [anyInterrupt]
    split
    · exact ih
    · rename_i hc
      have : interruptsOne cfg fw x = .ok false := by
        unfold interruptsOne
        rw [hp]
        cases x <;> simp [hl, gt_heading, gt_codeFence, gt_thematicBreak, gt_html, ht, listInterrupts,
          parseMarker_none _ (gt_listItem t)] at hc ⊢
      rw [this]; exact ih

theorem replaceFirst_noTab (rep : Str) : ∀ (s : Str), '\t' ∉ s → replaceFirst ['>', '\t'] rep s = s
  | [], _ => rfl
  | c :: rest, h => by
    have hr : '\t' ∉ rest := fun e => h (List.mem_cons_of_mem _ e)
    simp only [replaceFirst, replaceFirst_noTab rep rest hr]
    split
    · rename_i hpre
      exfalso
      cases rest with
      | nil => simp at hpre
      | cons d r2 =>
        simp only [List.isPrefixOf_cons_cons, List.isPrefixOf_nil_left, Bool.and_true, Bool.and_eq_true, beq_iff_eq] at hpre
        exact hr (by rw [← hpre.1.2]; simp)
    · rfl

/-- `Quote.convert_leading_tabs` leaves a tab-free string that begins with '>' as it is -/
theorem convertLeadingTabs_gt (s : Str) (h : '\t' ∉ s) : convertLeadingTabs ('>' :: s) = .ok ('>' :: s) := by
  have h' : '\t' ∉ '>' :: s := by
    simp only [List.mem_cons, not_or]; exact ⟨by decide, h⟩
  unfold convertLeadingTabs
  simp only [replaceFirst_noTab _ _ h']
  simp [convertLeadingTabs.go]

/-! ### Quote.read over a buffer in which every line carries a quote marker -/

/-- `l'` is the tab-free line `l` behind a block-quote marker: "> ", or ">" when `l` does not begin with a space
    (and is not empty: every line of a document ends with '\n') -/
def QuotedAs (l' l : Line) : Prop :=
  l'.origin = l.origin ∧ '\t' ∉ l.s ∧
  (l'.s = '>' :: ' ' :: l.s ∨ (l'.s = '>' :: l.s ∧ ∃ c r, l.s = c :: r ∧ c ≠ ' '))

theorem QuotedAs.gt {l' l : Line} (h : QuotedAs l' l) : ∃ t, l'.s = '>' :: t ∧ '\t' ∉ t := by
  obtain ⟨_, hn, h | ⟨h, _⟩⟩ := h
  · exact ⟨_, h, by simp only [List.mem_cons, not_or]; exact ⟨by decide, hn⟩⟩
  · exact ⟨_, h, hn⟩

/-- line by line -/
def QuotedAll : List Line → List Line → Prop
  | [], [] => True
  | l' :: r', l :: r => QuotedAs l' l ∧ QuotedAll r' r
  | _, _ => False

theorem quotedAll_head_gt : ∀ {rest' rest : List Line}, QuotedAll rest' rest →
    ∀ l', rest'.head? = some l' → delimiterRow l'.s = false
  | [], _, _, l', hl' => by simp at hl'
  | x :: _, [], h, _, _ => by simp [QuotedAll] at h
  | x :: _, y :: _, h, l', hl' => by
    simp only [List.head?_cons, Option.some.injEq] at hl'
    subst hl'
    obtain ⟨t, ht, _⟩ := h.1.gt
    rw [ht]; exact gt_delimiterRow t

/-- the `while` loop of `Quote.read` takes every marked line, stripped of its marker, up to the end of the buffer -/
theorem quoteLoop_quoted (cfg : Cfg) (start : Nat) : ∀ (rest' rest pre' buf : List Line) (fl : QFlags) (fuel : Nat),
    QuotedAll rest' rest → rest'.length < fuel →
    quoteLoop cfg fuel ⟨pre' ++ rest', pre'.length, start⟩ buf fl =
      .ok (rest.reverse ++ buf, ⟨pre' ++ rest', pre'.length + rest'.length, start⟩)
  | _, _, _, _, _, 0, _, hf => by simp at hf
  | [], [], pre', buf, fl, fuel + 1, _, _ => by
    simp [quoteLoop, peek_end]
  | [], _ :: _, _, _, _, _ + 1, h, _ => by simp [QuotedAll] at h
  | _ :: _, [], _, _, _, _ + 1, h, _ => by simp [QuotedAll] at h
  | l' :: rest', l :: rest, pre', buf, fl, fuel + 1, h, hf => by
    obtain ⟨hq, hrest⟩ := h
    obtain ⟨t, ht, hnt⟩ := hq.gt
    have hp := peek_at pre' l' rest' start
    have htab := readTable_none pre' l' rest' start (quotedAll_head_gt hrest)
    have hn : (FW.next ⟨pre' ++ l' :: rest', pre'.length, start⟩) =
        ⟨(pre' ++ [l']) ++ rest', (pre' ++ [l']).length, start⟩ := by
      simp [FW.next]
    have ih := fun buf fl => quoteLoop_quoted cfg start rest' rest (pre' ++ [l']) buf fl fuel hrest
      (by simp only [List.length_cons] at hf; omega)
    simp only [quoteLoop, hp, ht, gt_nonblank, Bool.false_eq_true, if_false,
      anyInterrupt_gt cfg _ l' t hp ht htab, gt_lstrip, convertLeadingTabs_gt t hnt, if_true]
    obtain ⟨ho, hn0, hs | ⟨hs, c, r, hc, hcs⟩⟩ := hq
    · have e : t = ' ' :: l.s := by rw [ht] at hs; simpa using hs
      subst e
      simp only [List.getElem?_cons_succ, List.getElem?_cons_zero, if_true, List.drop_succ_cons, List.drop_zero]
      rw [hn, ih]
      have el : ({ s := l.s, origin := l'.origin } : Line) = l := by cases l; simp_all
      simp [el]; omega
    · have e : t = l.s := by rw [ht] at hs; simpa using hs
      subst e
      simp only [hc, List.getElem?_cons_succ, List.getElem?_cons_zero, hcs, if_false, List.drop_succ_cons, List.drop_zero]
      rw [hn, ih]
      have el : ({ s := c :: r, origin := l'.origin } : Line) = l := by cases l; simp_all
      simp [el]; omega

/-- **Quote.read** on such a buffer: the nested tokenizer gets the unmarked lines, numbered from the
    line of the first one; the cursor ends at the end of the buffer -/
theorem quoteLines_quoted (cfg : Cfg) (start : Nat) (l' l : Line) (rest' rest pre' : List Line)
    (hq : QuotedAs l' l) (hrest : QuotedAll rest' rest) :
    quoteLines cfg ⟨pre' ++ l' :: rest', pre'.length, start⟩ l' =
      .ok (l :: rest, start + pre'.length, ⟨pre' ++ l' :: rest', pre'.length + (rest'.length + 1), start⟩) := by
  obtain ⟨t, ht, hnt⟩ := hq.gt
  have hn : (FW.next ⟨pre' ++ l' :: rest', pre'.length, start⟩) =
      ⟨(pre' ++ [l']) ++ rest', (pre' ++ [l']).length, start⟩ := by
    simp [FW.next]
  have hloop := fun buf fl => quoteLoop_quoted cfg start rest' rest (pre' ++ [l']) buf fl
    (FW.remaining ⟨pre' ++ l' :: rest', pre'.length, start⟩ + 1) hrest (by simp [FW.remaining]; omega)
  unfold quoteLines
  simp only [ht, gt_lstrip, convertLeadingTabs_gt t hnt, splitOnce, if_true]
  rw [hn, hloop]
  have hln : (FW.lineNumber ⟨(pre' ++ [l']) ++ rest', (pre' ++ [l']).length, start⟩) = start + pre'.length := by
    simp [FW.lineNumber]
  simp only [hln]
  obtain ⟨ho, hn0, hs | ⟨hs, c, r, hc, hcs⟩⟩ := hq
  · have e : t = ' ' :: l.s := by rw [ht] at hs; simpa using hs
    subst e
    have el : ({ s := l.s, origin := l'.origin } : Line) = l := by cases l; simp_all
    simp [el]; omega
  · have e : t = l.s := by rw [ht] at hs; simpa using hs
    subst e
    have el : ({ s := c :: r, origin := l'.origin } : Line) = l := by cases l; simp_all
    simp only [hc]
    split
    · rename_i h; simp only [List.cons.injEq] at h; exact absurd h.1 hcs
    · simp [el]; omega

/-- what `Quote.read` returns for a given result of the nested `tokenize_block` -/
def quoteResult (ln og : Nat) (fw' : FW) : Res (Buf × St) → Res (Option (Entry × FW × St))
  | .err e => .err e
  | .ok (b, st') => .ok (some (.quote b.entries b.loose ln og, fw', { st' with setext := true }))

/-- the dispatcher on a line that begins with '>': no type before `Quote` starts (`Paragraph` excluded);
    `Quote` does, and runs the nested tokenizer with the remaining gas -/
theorem tryTypes_gt (cfg : Cfg) (fw : FW) (st : St) (l' : Line) (t : Str) (hl : l'.s = '>' :: t)
    (ht : readTable fw = none) (qls : List Line) (qstart : Nat) (fw' : FW)
    (hq : quoteLines cfg fw l' = .ok (qls, qstart, fw')) (post : List BTok) (g : Nat) :
    ∀ (pre : List BTok), .quote ∉ pre → .paragraph ∉ pre →
      tryTypes cfg (g + 1 + pre.length) fw st l' (pre ++ .quote :: post) =
        quoteResult (fw.start + fw.pos) l'.origin fw' (tokenizeBlock cfg g qls qstart { st with setext := false })
  | [], _, _ => by
    simp only [List.nil_append, List.length_nil, Nat.add_zero, tryTypes, hl, gt_quoteStart, if_true]
    rw [hq]
    simp only [quoteResult]
    split <;> simp_all
  | x :: pre, hnq, hnp => by
    have ih := tryTypes_gt cfg fw st l' t hl ht qls qstart fw' hq post g pre
      (fun h => hnq (List.mem_cons_of_mem _ h)) (fun h => hnp (List.mem_cons_of_mem _ h))
    have e : g + 1 + (x :: pre).length = (g + 1 + pre.length) + 1 := by simp only [List.length_cons]; omega
    rw [e, List.cons_append]
    unfold tryTypes
    cases x <;> simp only
    · rw [hl, gt_html]; exact ih
    · rw [hl, gt_blockCode]; exact ih
    · simp only [readHeading, hl, gt_heading]; exact ih
    · exact absurd (List.mem_cons_self ..) hnq
    · rw [hl, gt_codeFence]; exact ih
    · rw [hl, gt_thematicBreak]; exact ih
    · rw [hl, gt_listStart]; exact ih
    · rw [ht]; split <;> exact ih
    · rw [hl, gt_bracket]; exact ih
    · exact absurd (List.mem_cons_self ..) hnp
    · rw [hl, gt_blankLine]; exact ih
    · rw [hl, gt_bracket]; exact ih

/-- the outer parse for a given result of the inner one: one block quote, reported on the line the
    buffer starts on, holding the inner entries; `Paragraph.parse_setext` is switched back on -/
def wrapQuote (start og : Nat) : Res (Buf × St) → Res (Buf × St)
  | .err e => .err e
  | .ok (b, st') => .ok ({ entries := [.quote b.entries b.loose start og], loose := false }, { st' with setext := true })

/-- **tokenize_block on a buffer in which every line carries a quote marker** is one block quote around
    what `tokenize_block` gives, with `Paragraph.parse_setext` off, on the unmarked lines -- whatever that
    is, a raised exception included.  `pre` are the token types consulted before `Quote`. -/
theorem tokenizeBlock_quoted (cfg : Cfg) (pre post : List BTok) (hty : cfg.types = pre ++ .quote :: post)
    (hnq : .quote ∉ pre) (hnp : .paragraph ∉ pre) (l' l : Line) (rest' rest : List Line)
    (hq : QuotedAs l' l) (hrest : QuotedAll rest' rest) (start : Nat) (st : St) (g : Nat) :
    tokenizeBlock cfg (g + (pre.length + 3)) (l' :: rest') start st =
      wrapQuote start l.origin (tokenizeBlock cfg g (l :: rest) start { st with setext := false }) := by
  obtain ⟨t, ht, _⟩ := hq.gt
  have e : g + (pre.length + 3) = ((g + 1 + pre.length) + 1) + 1 := by omega
  have hp := peek_at [] l' rest' start
  have htab := readTable_none [] l' rest' start (quotedAll_head_gt hrest)
  have hql := quoteLines_quoted cfg start l' l rest' rest [] hq hrest
  have hty' := tryTypes_gt cfg _ st l' t ht htab _ _ _ hql post g pre hnq hnp
  simp only [List.nil_append, List.length_nil, Nat.add_zero, Nat.zero_add] at hp htab hql hty'
  rw [e]
  simp only [tokenizeBlock, tokLoop, hp, hty, hty']
  cases tokenizeBlock cfg g (l :: rest) start { st with setext := false } with
  | err e => simp [quoteResult, wrapQuote]
  | ok r =>
    obtain ⟨b, st'⟩ := r
    simp only [quoteResult, wrapQuote]
    have hend := peek_end (l' :: rest') start
    simp only [List.length_cons] at hend
    simp only [hq.1]
    have e2 : g + 1 + pre.length = (g + pre.length) + 1 := by omega
    rw [e2]
    simp [tokLoop, hend]

/-! ### The two markers -/

/-- the line behind the marker "> " -/
def quoteSp (l : Line) : Line := { s := '>' :: ' ' :: l.s, origin := l.origin }
/-- the line behind the marker ">" -/
def quoteBare (l : Line) : Line := { s := '>' :: l.s, origin := l.origin }

/-- `l` does not begin with a space (and is not empty) -/
def NoLeadSp (s : Str) : Prop := ∃ c r, s = c :: r ∧ c ≠ ' '

theorem quotedAll_map_sp : ∀ (ls : List Line), (∀ l ∈ ls, '\t' ∉ l.s) → QuotedAll (ls.map quoteSp) ls
  | [], _ => trivial
  | l :: ls, h =>
    ⟨⟨rfl, h l (by simp), Or.inl rfl⟩, quotedAll_map_sp ls (fun x hx => h x (List.mem_cons_of_mem _ hx))⟩

theorem quotedAll_map_bare : ∀ (ls : List Line), (∀ l ∈ ls, '\t' ∉ l.s ∧ NoLeadSp l.s) → QuotedAll (ls.map quoteBare) ls
  | [], _ => trivial
  | l :: ls, h =>
    ⟨⟨rfl, (h l (by simp)).1, Or.inr ⟨rfl, (h l (by simp)).2⟩⟩,
      quotedAll_map_bare ls (fun x hx => h x (List.mem_cons_of_mem _ hx))⟩

/-- either marker, chosen line by line (`pick l = true`: "> ") -/
def quoteMix (pick : Line → Bool) (l : Line) : Line := if pick l then quoteSp l else quoteBare l

theorem quotedAll_map_mix (pick : Line → Bool) : ∀ (ls : List Line),
    (∀ l ∈ ls, '\t' ∉ l.s ∧ (pick l = false → NoLeadSp l.s)) → QuotedAll (ls.map (quoteMix pick)) ls
  | [], _ => trivial
  | l :: ls, h => by
    refine ⟨?_, quotedAll_map_mix pick ls (fun x hx => h x (List.mem_cons_of_mem _ hx))⟩
    have hl := h l (by simp)
    unfold quoteMix
    cases hp : pick l with
    | true => exact ⟨rfl, hl.1, Or.inl rfl⟩
    | false => exact ⟨rfl, hl.1, Or.inr ⟨rfl, hl.2 hp⟩⟩

/-! ### List items -/

/-- what the dispatcher needs to know about the first character of a list marker -/
structure LeadChar (c : Char) : Prop where
  nsp : pyIsSpace c = false
  n_sp : c ≠ ' '
  n_tab : c ≠ '\t'
  n_hash : c ≠ '#'
  n_gt : c ≠ '>'
  n_bt : c ≠ '`'
  n_tilde : c ≠ '~'
  n_lt : c ≠ '<'
  n_lb : c ≠ '['

def leadChar (c : Char) : Bool :=
  !pyIsSpace c && c != ' ' && c != '\t' && c != '#' && c != '>' && c != '`' && c != '~' && c != '<' && c != '['

theorem leadChar_of (c : Char) (h : leadChar c = true) : LeadChar c := by
  simp only [leadChar, Bool.and_eq_true, Bool.not_eq_eq_eq_not, Bool.not_true, bne_iff_ne, ne_eq] at h
  obtain ⟨⟨⟨⟨⟨⟨⟨⟨h1, h2⟩, h3⟩, h4⟩, h5⟩, h6⟩, h7⟩, h8⟩, h9⟩ := h
  exact ⟨h1, h2, h3, h4, h5, h6, h7, h8, h9⟩

section Lead
variable {c : Char} (hc : LeadChar c) (r : Str)
include hc

theorem lead_upTo3 : upTo3Spaces (c :: r) = some (0, c :: r) := by
  simpa using upTo3_rep 0 c r hc.n_sp (by omega)

theorem lead_lstrip : lstrip (c :: r) = c :: r := by simp [lstrip, hc.nsp]

theorem lead_nonblank : isBlank (c :: r) = false := by simp [isBlank, hc.nsp]

theorem lead_heading : heading (c :: r) = none := by
  unfold heading; rw [lead_upTo3 hc]; simp [span, hc.n_hash]

theorem lead_codeFence : codeFenceStart (c :: r) = none := by
  unfold codeFenceStart codeFence; rw [lead_upTo3 hc]; simp [hc.n_bt, hc.n_tilde]

theorem lead_quote : quoteStart (c :: r) = false := by
  have := lstripSp_rep 0 c r hc.n_sp
  simp only [List.replicate_zero, List.nil_append] at this
  simp [quoteStart, this, startsWith, isPrefix_ne _ _ _ _ hc.n_gt]

theorem lead_bracket : startsWith ['['] (lstrip (c :: r)) = false := by
  simp [lead_lstrip hc, startsWith, isPrefix_ne _ _ _ _ hc.n_lb]

theorem lead_blockCode : blockCodeStart (c :: r) = false := by
  simp [blockCodeStart, replaceTab1, replaceTab_plain _ _ hc.n_tab, startsWith, isPrefix_ne _ _ _ _ hc.n_sp]

theorem lead_blankLine : blankLine (c :: r) = false := by simp [blankLine, ws, hc.nsp]

theorem lead_html : htmlBlockStart (c :: r) = .ok none := by
  unfold htmlBlockStart
  simp only [lead_lstrip hc]
  have hlen : ¬ ((c :: r).length - (c :: r).length ≥ 4) := by simp
  simp only [hlen, if_false]
  have hm : multiblock (c :: r) = none := by unfold multiblock; simp [hc.n_lt]
  have hs : ∀ p : Str, startsWith ('<' :: p) (c :: r) = false := by
    intro p; simp [startsWith, isPrefix_ne _ _ _ _ hc.n_lt]
  have hr : htmlRest (c :: r) = none := by
    unfold htmlRest
    have h1 : predefined (c :: r) = none := by unfold predefined; simp [hc.n_lt]
    have h2 : customTag (c :: r) = false := by
      unfold customTag
      have a : openTag (c :: r) = none := by unfold openTag; simp [hc.n_lt]
      have b : closingTag (c :: r) = none := by unfold closingTag; simp [hc.n_lt]
      simp [a, b]
    simp [h1, h2]
  have e1 : "<!--".toList = '<' :: ['!', '-', '-'] := by decide
  have e2 : "<?".toList = '<' :: ['?'] := by decide
  have e3 : "<!".toList = '<' :: ['!'] := by decide
  simp only [hm, e1, e2, e3, hs, hr, Bool.false_eq_true, if_false]

end Lead

/-- `m` is a list marker the scanner reads off the front of any line, free of tabs, beginning with a
    character no earlier token type starts on -/
structure ListLeader (m : Str) : Prop where
  marker : ∀ r, listMarker (m ++ r) = some (m, r)
  noTab : '\t' ∉ m
  noNl : '\n' ∉ m
  lead : ∃ c m', m = c :: m' ∧ LeadChar c

theorem expandtabsAux_noTab : ∀ (s : Str) (col : Nat), '\t' ∉ s → expandtabsAux s col = s
  | [], _, _ => rfl
  | c :: rest, col, h => by
    have hc : c ≠ '\t' := fun e => h (by simp [e])
    have hr : '\t' ∉ rest := fun e => h (List.mem_cons_of_mem _ e)
    simp only [expandtabsAux, hc, if_false]
    split <;> rw [expandtabsAux_noTab rest _ hr]

theorem span_sptab_rep (n : Nat) (c : Char) (rest : Str) (h1 : c ≠ ' ') (h2 : c ≠ '\t') :
    span (fun c => c == ' ' || c == '\t') (List.replicate n ' ' ++ c :: rest) = (List.replicate n ' ', c :: rest) := by
  induction n with
  | zero => simp [span, h1, h2]
  | succ k ih => simp [List.replicate_succ, span, ih]

theorem span_neNl (body : Str) (tail : Str) (h : '\n' ∉ body) :
    span (· != '\n') (body ++ '\n' :: tail) = (body, '\n' :: tail) := by
  induction body with
  | nil => simp [span]
  | cons x xs ih =>
    have hx : x ≠ '\n' := fun e => h (by simp [e])
    have := ih (fun e => h (List.mem_cons_of_mem _ e))
    simp [span, hx, this]

/-- the first line of the item: `ListItem.parse_marker` finds indentation 0, the marker, and the content
    offset `|m| + pad` -/
theorem parseMarker_first (m : Str) (hm : ListLeader m) (pad : Nat) (h1 : 1 ≤ pad) (h4 : pad ≤ 4)
    (c0 : Char) (r0 : Str) (hc0 : pyIsSpace c0 = false) :
    parseMarker (m ++ List.replicate pad ' ' ++ c0 :: r0) = some (0, m.length + pad, m, c0 :: r0) := by
  obtain ⟨c, m', rfl, hc⟩ := hm.lead
  have hli : listItem ((c :: m') ++ List.replicate pad ' ' ++ c0 :: r0) =
      some { g1 := [], g2 := c :: m', g3 := List.replicate pad ' ', rest := c0 :: r0 } := by
    unfold listItem
    rw [List.append_assoc, List.cons_append, lead_upTo3 hc, ← List.cons_append]
    simp only [hm.marker]
    obtain ⟨p, rfl⟩ : ∃ p, pad = p + 1 := ⟨pad - 1, by omega⟩
    have hne : atEnd (List.replicate (p + 1) ' ' ++ c0 :: r0) = false := by
      simp [atEnd, List.replicate_succ]
    simp only [hne, Bool.false_eq_true, if_false, span_ws_rep (p + 1) c0 r0 hc0]
    simp [List.replicate_succ]
  unfold parseMarker
  rw [hli]
  have hnt : '\t' ∉ ([] ++ (c :: m') ++ List.replicate pad ' ') := by
    simp only [List.nil_append, List.mem_append, List.mem_replicate, not_or]
    exact ⟨hm.noTab, by rintro ⟨_, e⟩; exact absurd e (by decide)⟩
  simp only [expandtabs, expandtabsAux_noTab _ 0 hnt]
  simp only [List.nil_append, List.length_append, List.length_replicate, List.length_nil, Nat.zero_add]
  have : ¬ ((c :: m').length + pad - (c :: m').length > 4) := by omega
  simp only [this]
  simp

theorem listStart_first (m : Str) (hm : ListLeader m) (pad : Nat) (h1 : 1 ≤ pad) (rest : Str) :
    listStart (m ++ List.replicate pad ' ' ++ rest) = true := by
  obtain ⟨c, m', rfl, hc⟩ := hm.lead
  unfold listStart
  rw [List.append_assoc, List.cons_append, lead_upTo3 hc, ← List.cons_append]
  simp only [hm.marker]
  obtain ⟨p, rfl⟩ : ∃ p, pad = p + 1 := ⟨pad - 1, by omega⟩
  simp [List.replicate_succ, span]

/-- a line of the item's content other than "\n": some spaces, a non-whitespace character, the rest of
    the line, the final newline -/
def ContLine (s : Str) : Prop :=
  ∃ n c body, s = List.replicate n ' ' ++ c :: body ++ ['\n'] ∧ pyIsSpace c = false ∧ '\n' ∉ body

theorem parseContinuation_indented (W : Nat) (s : Str) (h : ContLine s) :
    parseContinuation (List.replicate W ' ' ++ s) W = some s := by
  obtain ⟨n, c, body, rfl, hc, hb⟩ := h
  have hsp : c ≠ ' ' := by intro e; subst e; exact absurd hc (by decide)
  have htab : c ≠ '\t' := by intro e; subst e; exact absurd hc (by decide)
  have hnl : c ≠ '\n' := by intro e; subst e; exact absurd hc (by decide)
  have e : List.replicate W ' ' ++ (List.replicate n ' ' ++ c :: body ++ ['\n']) =
      List.replicate (W + n) ' ' ++ c :: (body ++ ['\n']) := by
    rw [← List.append_assoc, ← List.append_assoc, List.replicate_append_replicate]
    simp
  have hcont : continuation (List.replicate (W + n) ' ' ++ c :: (body ++ ['\n'])) =
      some (List.replicate (W + n) ' ', c :: body ++ ['\n']) := by
    unfold continuation
    simp only [span_sptab_rep (W + n) c _ hsp htab]
    split
    · rename_i h; simp [ws, hc] at h
    · simp [span_neNl body [] hb]
  unfold parseContinuation
  rw [e, hcont]
  have hne : (c :: body ++ ['\n'] == ['\n']) = false := by
    simp only [List.cons_append, beq_eq_false_iff_ne, ne_eq, List.cons.injEq, not_and]
    intro e; exact absurd e hnl
  have hnt : '\t' ∉ List.replicate (W + n) ' ' := by
    simp only [List.mem_replicate, not_and]; intro _ e; exact absurd e (by decide)
  simp only [hne, Bool.false_eq_true, if_false, expandtabs, expandtabsAux_noTab _ 0 hnt, List.length_replicate]
  have : W + n ≥ W := by omega
  simp [this, ← List.replicate_append_replicate]

theorem parseContinuation_nl (W : Nat) : parseContinuation ['\n'] W = some ['\n'] := by
  simp [parseContinuation, continuation, span]

/-- `l'` is the line `l` of the item's content as it appears in the document: "\n" unchanged, any other
    line behind `W` spaces -/
def IndentedAs (W : Nat) (l' l : Line) : Prop :=
  l'.origin = l.origin ∧ ((l.s = ['\n'] ∧ l'.s = ['\n']) ∨ (ContLine l.s ∧ l'.s = List.replicate W ' ' ++ l.s))

def IndentedAll (W : Nat) : List Line → List Line → Prop
  | [], [] => True
  | l' :: r', l :: r => IndentedAs W l' l ∧ IndentedAll W r' r
  | _, _ => False

/-- `newline_count` after reading the lines, starting from `nl` -/
def trailNl : Nat → List Line → Nat
  | nl, [] => nl
  | nl, l :: rest => trailNl (if l.s == ['\n'] then nl + 1 else 0) rest

/-- the `while True` loop of `ListItem.read` takes every line up to the end of the buffer, stripped of
    its indentation, and finds no next marker; trailing "\n" lines are dropped (`dropTrailing`) -/
theorem itemLoop_indented (cfg : Cfg) (W start : Nat) : ∀ (rest' rest pre' buf : List Line) (nl fuel : Nat),
    IndentedAll W rest' rest → rest'.length < fuel →
    itemLoop cfg W fuel ⟨pre' ++ rest', pre'.length, start⟩ buf nl =
      .ok ((dropTrailing ⟨pre' ++ rest', pre'.length + rest'.length, start⟩ (rest.reverse ++ buf) (trailNl nl rest)).2,
           (dropTrailing ⟨pre' ++ rest', pre'.length + rest'.length, start⟩ (rest.reverse ++ buf) (trailNl nl rest)).1, none)
  | _, _, _, _, _, 0, _, hf => by simp at hf
  | [], [], pre', buf, nl, fuel + 1, _, _ => by
    simp [itemLoop, peek_end, trailNl]
  | [], _ :: _, _, _, _, _ + 1, h, _ => by simp [IndentedAll] at h
  | _ :: _, [], _, _, _, _ + 1, h, _ => by simp [IndentedAll] at h
  | l' :: rest', l :: rest, pre', buf, nl, fuel + 1, h, hf => by
    obtain ⟨⟨ho, hl⟩, hrest⟩ := h
    have hp := peek_at pre' l' rest' start
    have hn : (FW.next ⟨pre' ++ l' :: rest', pre'.length, start⟩) =
        ⟨(pre' ++ [l']) ++ rest', (pre' ++ [l']).length, start⟩ := by
      simp [FW.next]
    have ih := fun buf nl => itemLoop_indented cfg W start rest' rest (pre' ++ [l']) buf nl fuel hrest
      (by simp only [List.length_cons] at hf; omega)
    have hcont : parseContinuation l'.s W = some l.s := by
      rcases hl with ⟨h1, h2⟩ | ⟨h1, h2⟩
      · rw [h1, h2]; exact parseContinuation_nl W
      · rw [h2]; exact parseContinuation_indented W l.s h1
    have hne : l.s.isEmpty = false := by
      rcases hl with ⟨h1, _⟩ | ⟨⟨n, c, body, h1, _⟩, _⟩ <;> rw [h1] <;> simp
    have el : ({ s := l.s, origin := l'.origin } : Line) = l := by cases l; simp_all
    simp only [itemLoop, hp, hcont, hne, Bool.false_eq_true, if_false]
    rw [hn, ih, el]
    simp only [trailNl, List.reverse_cons, List.append_assoc, List.singleton_append, List.length_append,
      List.length_cons, List.length_nil]
    have e : pre'.length + (0 + 1) + rest'.length = pre'.length + (rest'.length + 1) := by omega
    rw [e]

theorem dropTrailing_zero (fw : FW) (buf : List Line) : dropTrailing fw buf 0 = (fw, buf) := by
  simp [dropTrailing]

/-- `l0'` is the first line `l0` of the content (which begins with a non-whitespace character) behind
    the marker `m` and `pad` spaces -/
def FirstAs (m : Str) (pad : Nat) (l0' l0 : Line) : Prop :=
  l0'.origin = l0.origin ∧ ∃ c0 r0, l0.s = c0 :: r0 ∧ pyIsSpace c0 = false ∧ l0'.s = m ++ List.replicate pad ' ' ++ l0.s

/-- **ListItem.read** up to the nested tokenizer: it gets the unindented lines, numbered from the line of
    the marker; indentation 0, content offset `|m| + pad`, no next marker, cursor at the end -/
theorem itemLines_indented (cfg : Cfg) (start : Nat) (m : Str) (hm : ListLeader m) (pad : Nat) (h1 : 1 ≤ pad) (h4 : pad ≤ 4)
    (l0' l0 : Line) (rest' rest pre' : List Line) (hf : FirstAs m pad l0' l0)
    (hrest : IndentedAll (m.length + pad) rest' rest) (hnl : trailNl 0 rest = 0) :
    itemLines cfg ⟨pre' ++ l0' :: rest', pre'.length, start⟩ none =
      .ok (.lines (l0 :: rest) (start + pre'.length) 0 (m.length + pad) m (start + pre'.length) l0.origin none
        ⟨pre' ++ l0' :: rest', pre'.length + (rest'.length + 1), start⟩) := by
  obtain ⟨ho, c0, r0, hs0, hc0, hs⟩ := hf
  have hp := peek_at pre' l0' rest' start
  have hn : (FW.next ⟨pre' ++ l0' :: rest', pre'.length, start⟩) =
      ⟨(pre' ++ [l0']) ++ rest', (pre' ++ [l0']).length, start⟩ := by
    simp [FW.next]
  have hpm : parseMarker l0'.s = some (0, m.length + pad, m, l0.s) := by
    rw [hs, hs0]; exact parseMarker_first m hm pad h1 h4 c0 r0 hc0
  have hnb : isBlank l0.s = false := by rw [hs0]; simp [isBlank, hc0]
  have hloop := fun buf => itemLoop_indented cfg (m.length + pad) start rest' rest (pre' ++ [l0']) buf 0
    (FW.remaining ⟨pre' ++ l0' :: rest', pre'.length, start⟩ + 1) hrest (by simp [FW.remaining]; omega)
  have hln : (FW.lineNumber ⟨(pre' ++ [l0']) ++ rest', (pre' ++ [l0']).length, start⟩) = start + pre'.length := by
    simp [FW.lineNumber]
  have el : ({ s := l0.s, origin := l0'.origin } : Line) = l0 := by cases l0; simp_all
  unfold itemLines
  simp only [hp, hpm, hnb, Bool.false_eq_true, if_false]
  rw [hn, hloop, hnl, dropTrailing_zero, hln, el, ho]
  simp; omega

/-- what `List.read` returns for a given result of the nested `tokenize_block`: one item; "only consider
    the last list item loose if there's more than one element" -/
def listResult (W : Nat) (m : Str) (ln og : Nat) (fw' : FW) : Res (Buf × St) → Res (List Item × FW × St)
  | .err e => .err e
  | .ok (b, st') => .ok ([.mk b.entries (decide (b.entries.length > 1) && b.loose) 0 W m ln og], fw', st')

theorem readList_indented (cfg : Cfg) (fw : FW) (st : St) (buf : List Line) (cstart W : Nat) (m : Str) (ln og : Nat) (fw' : FW)
    (h : itemLines cfg fw none = .ok (.lines buf cstart 0 W m ln og none fw')) (g : Nat) :
    readList cfg (g + 1) fw st none none [] = listResult W m ln og fw' (tokenizeBlock cfg g buf cstart st) := by
  simp only [readList, h]
  cases tokenizeBlock cfg g buf cstart st with
  | err e => rfl
  | ok r => obtain ⟨b, st'⟩ := r; rfl

/-- the dispatcher on a line that begins with a marker character: the types before `List` (`Paragraph`
    and `Table` excluded, and the line not being a thematic break) do not start -/
theorem tryTypes_lead (cfg : Cfg) (fw : FW) (st : St) (l' : Line) (c : Char) (r : Str) (hl : l'.s = c :: r) (hc : LeadChar c)
    (htb : thematicBreak l'.s = false) (post : List BTok) (g : Nat) :
    ∀ (pre : List BTok), .list ∉ pre → .paragraph ∉ pre → .table ∉ pre →
      tryTypes cfg (g + 1 + pre.length) fw st l' (pre ++ .list :: post) = tryTypes cfg (g + 1) fw st l' (.list :: post)
  | [], _, _, _ => rfl
  | x :: pre, hnl, hnp, hnt => by
    have ih := tryTypes_lead cfg fw st l' c r hl hc htb post g pre
      (fun h => hnl (List.mem_cons_of_mem _ h)) (fun h => hnp (List.mem_cons_of_mem _ h)) (fun h => hnt (List.mem_cons_of_mem _ h))
    have e : g + 1 + (x :: pre).length = (g + 1 + pre.length) + 1 := by simp only [List.length_cons]; omega
    rw [e, List.cons_append]
    conv => lhs; unfold tryTypes
    cases x <;> simp only
    · rw [hl, lead_html hc]; exact ih
    · rw [hl, lead_blockCode hc]; exact ih
    · simp only [readHeading, hl, lead_heading hc]; exact ih
    · rw [hl, lead_quote hc]; exact ih
    · rw [hl, lead_codeFence hc]; exact ih
    · rw [htb]; exact ih
    · exact absurd (List.mem_cons_self ..) hnl
    · exact absurd (List.mem_cons_self ..) hnt
    · rw [hl, lead_bracket hc]; exact ih
    · exact absurd (List.mem_cons_self ..) hnp
    · rw [hl, lead_blankLine hc]; exact ih
    · rw [hl, lead_bracket hc]; exact ih

/-- the outer parse for a given result of the inner one: one list, reported on the line the buffer starts on,
    of one item holding the inner entries -/
def wrapItem (W : Nat) (m : Str) (start og : Nat) : Res (Buf × St) → Res (Buf × St)
  | .err e => .err e
  | .ok (b, st') => .ok ({ entries := [.list [.mk b.entries (decide (b.entries.length > 1) && b.loose) 0 W m start og] start og],
                           loose := false }, st')

/-- **tokenize_block on a buffer indented as one list item** is one single-item list around what
    `tokenize_block` gives on the unindented lines, errors included -/
theorem tokenizeBlock_indented (cfg : Cfg) (pre post : List BTok) (hty : cfg.types = pre ++ .list :: post)
    (hnl : .list ∉ pre) (hnp : .paragraph ∉ pre) (hnt : .table ∉ pre)
    (m : Str) (hm : ListLeader m) (pad : Nat) (h1 : 1 ≤ pad) (h4 : pad ≤ 4)
    (l0' l0 : Line) (rest' rest : List Line) (hf : FirstAs m pad l0' l0) (htb : thematicBreak l0'.s = false)
    (hrest : IndentedAll (m.length + pad) rest' rest) (hlast : trailNl 0 rest = 0) (start : Nat) (st : St) (g : Nat) :
    tokenizeBlock cfg (g + (pre.length + 4)) (l0' :: rest') start st =
      wrapItem (m.length + pad) m start l0.origin (tokenizeBlock cfg g (l0 :: rest) start st) := by
  obtain ⟨c, m', hmc, hc⟩ := hm.lead
  have hl : l0'.s = c :: (m' ++ List.replicate pad ' ' ++ l0.s) := by
    obtain ⟨_, _, _, _, _, hs⟩ := hf
    rw [hs, hmc]; simp
  have e : g + (pre.length + 4) = ((g + 1 + 1 + pre.length) + 1) + 1 := by omega
  have hp := peek_at [] l0' rest' start
  have hil := itemLines_indented cfg start m hm pad h1 h4 l0' l0 rest' rest [] hf hrest hlast
  have hrl := readList_indented cfg _ st _ _ _ _ _ _ _ hil g
  have hty' := tryTypes_lead cfg ⟨l0' :: rest', 0, start⟩ st l0' c _ hl hc htb post (g + 1) pre hnl hnp hnt
  have hls : listStart l0'.s = true := by
    obtain ⟨_, _, _, _, _, hs⟩ := hf
    rw [hs]; exact listStart_first m hm pad h1 _
  simp only [List.nil_append, List.length_nil, Nat.add_zero, Nat.zero_add] at hp hil hrl
  rw [e]
  simp only [tokenizeBlock, tokLoop, hp, hty, hty']
  simp only [tryTypes, hls, if_true, hrl]
  cases tokenizeBlock cfg g (l0 :: rest) start st with
  | err e => simp [listResult, wrapItem]
  | ok r =>
    obtain ⟨b, st'⟩ := r
    simp only [listResult, wrapItem]
    have hend := peek_end (l0' :: rest') start
    simp only [List.length_cons] at hend
    simp only [hf.1]
    have e2 : g + 1 + 1 + pre.length = (g + 1 + pre.length) + 1 := by omega
    rw [e2]
    simp [tokLoop, hend]

/-! ### Markers, and documents as they are indented -/

theorem listLeader_bullet (c : Char) (h : c = '-' ∨ c = '+' ∨ c = '*') : ListLeader [c] := by
  rcases h with rfl | rfl | rfl
  all_goals exact ⟨fun r => by simp [listMarker], by decide, by decide, _, _, rfl, leadChar_of _ (by decide)⟩

theorem span_run (p : Char → Bool) (e : Char) (r : Str) (he : p e = false) : ∀ (d : Str), (∀ x ∈ d, p x = true) →
    span p (d ++ e :: r) = (d, e :: r)
  | [], _ => by simp [span, he]
  | x :: d, h => by
    simp [span, h x (by simp), span_run p e r he d (fun y hy => h y (List.mem_cons_of_mem _ hy))]

def asciiDigits : List Char := ['0', '1', '2', '3', '4', '5', '6', '7', '8', '9']

theorem asciiDigit_facts : ∀ x ∈ asciiDigits,
    isDigit x = true ∧ leadChar x = true ∧ x ≠ '+' ∧ x ≠ '-' ∧ x ≠ '*' ∧ x ≠ '\t' ∧ x ≠ '\n' := by decide

/-- one to nine ASCII digits and '.' or ')' -/
theorem listLeader_ordered (d : Str) (e : Char) (h1 : 1 ≤ d.length) (h9 : d.length ≤ 9) (hd : ∀ x ∈ d, x ∈ asciiDigits)
    (he : e = '.' ∨ e = ')') : ListLeader (d ++ [e]) := by
  have hen : isDigit e = false ∧ e ≠ '\t' ∧ e ≠ '\n' := by rcases he with rfl | rfl <;> decide
  cases d with
  | nil => simp at h1
  | cons x d' =>
    have hx := asciiDigit_facts x (hd x (by simp))
    refine ⟨?_, ?_, ?_, x, d' ++ [e], rfl, leadChar_of _ hx.2.1⟩
    · intro r
      have hsp := span_run isDigit e r hen.1 (x :: d') (fun y hy => (asciiDigit_facts y (hd y hy)).1)
      have e1 : (x :: d') ++ [e] ++ r = (x :: d') ++ e :: r := by simp
      rw [e1]
      unfold listMarker
      simp only [List.cons_append] at hsp ⊢
      simp only [hsp]
      have hb : (x == '+' || x == '-' || x == '*') = false := by simp [hx.2.2.1, hx.2.2.2.1, hx.2.2.2.2.1]
      have hlen : ((x :: d').length < 1 || (x :: d').length > 9) = false := by
        simp only [Bool.or_eq_false_iff, decide_eq_false_iff_not]; omega
      have hee : (e == '.' || e == ')') = true := by rcases he with rfl | rfl <;> decide
      simp [hb, hee]
      simp only [List.length_cons] at h9; omega
    · simp only [List.mem_append, List.mem_singleton, not_or]
      exact ⟨fun hm => (asciiDigit_facts _ (hd _ hm)).2.2.2.2.2.1 rfl, fun e' => hen.2.1 e'.symm⟩
    · simp only [List.mem_append, List.mem_singleton, not_or]
      exact ⟨fun hm => (asciiDigit_facts _ (hd _ hm)).2.2.2.2.2.2 rfl, fun e' => hen.2.2 e'.symm⟩

/-- checkable form of `ContLine` -/
def contLineB (s : Str) : Bool :=
  match s.drop (countLeading ' ' s) with
  | c :: rest => !pyIsSpace c && rest.getLast? == some '\n' && !rest.dropLast.contains '\n'
  | [] => false

theorem contLine_of (s : Str) (h : contLineB s = true) : ContLine s := by
  unfold contLineB at h
  split at h
  · rename_i c rest hd
    simp only [Bool.and_eq_true, Bool.not_eq_eq_eq_not, Bool.not_true, beq_iff_eq] at h
    obtain ⟨⟨hc, hl⟩, hn⟩ := h
    have hne : rest ≠ [] := by intro e; subst e; simp at hl
    have hlast : rest.getLast hne = '\n' := by
      rw [List.getLast?_eq_some_getLast hne] at hl
      exact Option.some.inj hl
    have hrest : rest = rest.dropLast ++ ['\n'] := by
      have := List.dropLast_concat_getLast hne
      rw [hlast] at this; exact this.symm
    refine ⟨countLeading ' ' s, c, rest.dropLast, ?_, hc, ?_⟩
    · have := countLeading_split s
      rw [hd, hrest] at this
      simpa using this
    · intro hm; simp [hm] at hn
  · cases h

/-- a line of the content as it appears in the document -/
def indentLine (W : Nat) (l : Line) : Line :=
  if l.s = ['\n'] then l else { s := List.replicate W ' ' ++ l.s, origin := l.origin }

theorem indentedAll_map (W : Nat) : ∀ (ls : List Line), (∀ l ∈ ls, l.s = ['\n'] ∨ ContLine l.s) →
    IndentedAll W (ls.map (indentLine W)) ls
  | [], _ => trivial
  | l :: ls, h => by
    refine ⟨?_, indentedAll_map W ls (fun x hx => h x (List.mem_cons_of_mem _ hx))⟩
    unfold indentLine
    by_cases hl : l.s = ['\n']
    · simp only [hl, if_true]; exact ⟨rfl, Or.inl ⟨hl, hl⟩⟩
    · simp only [hl, if_false]
      rcases h l (by simp) with h' | h'
      · exact absurd h' hl
      · exact ⟨rfl, Or.inr ⟨h', rfl⟩⟩

/-- the first line behind the marker -/
def markLine (m : Str) (pad : Nat) (l : Line) : Line := { s := m ++ List.replicate pad ' ' ++ l.s, origin := l.origin }

theorem firstAs_mark (m : Str) (pad : Nat) (l : Line) (c0 : Char) (r0 : Str) (hs : l.s = c0 :: r0) (hc0 : pyIsSpace c0 = false) :
    FirstAs m pad (markLine m pad l) l := ⟨rfl, c0, r0, hs, hc0, rfl⟩

/-- the buffer does not end with a "\n" line -/
theorem trailNl_zero : ∀ (rest : List Line) (nl : Nat), (∀ l, rest.getLast? = some l → l.s ≠ ['\n']) → (rest = [] → nl = 0) →
    trailNl nl rest = 0
  | [], nl, _, h0 => h0 rfl
  | [l], nl, h, _ => by
    have := h l rfl
    simp [trailNl, this]
  | l :: l2 :: rest, nl, h, _ => by
    simp only [trailNl]
    exact trailNl_zero (l2 :: rest) _ (fun x hx => h x (by simpa using hx)) (by simp)

end Mistletoe.Block
