/-
  Locality of the block parser, lists included (C05, prefix half at full strength).

  `Proofs/Locality.lean` proves that the blocks of `A` do not depend on what follows a blank line
  after `A` under the restriction that no top-level block of `A` is a list (`tokenizeBlock_prefix`).
  This file removes the restriction (`tokenizeBlock_prefix_lists`): a list that is not the last
  block of `A` is read identically on `A ++ "\n" :: rest`.

  * `ListItem.read` (`itemLines`: `skipBlanks`, `itemLoop`) looks at the end of its buffer only when
    it returns without a next marker and leaves no line that is not whitespace-only at or after
    the cursor (`itemLoop_ext`, `itemLines_ext`); the nested `tokenize_block` runs on the lines it
    collected, a buffer of its own.
  * `List.read` (`readList`) therefore either runs identically on the extended buffer or returns a
    cursor behind which only whitespace-only lines remain (`extList_all`).  This uses the repaired
    `List.read`, which tests the next marker BEFORE reading its item (`otherMarkerType`): the former
    one read the item behind a marker of another type and discarded it, and that read could run to
    the end of `A` — on the longer buffer it ran on into `rest` and kept the link reference
    definitions it found there (counterexamples for the former behaviour: `C05.former_counterexample_*`).
  * a block of a closed kind (paragraph, setext/ATX heading, thematic break, quote, table) starts on
    a line that is not whitespace-only (`tryTypes_closed_nonblank`), so a list followed by blocks the
    last of which is closed has such a line behind it (`tokLoop_closed_nbl`).
-/
import Mistletoe.Proofs.Locality
import Mistletoe.Proofs.BlockTotal
import Mistletoe.Props.C05
namespace Mistletoe.Block
open Mistletoe Mistletoe.Py Mistletoe.Scan

/-! ### Lines that are not whitespace-only -/

/-- a line that is not whitespace-only remains at or after the cursor -/
abbrev FW.NBl (a : FW) : Prop := a.NB

theorem nbl_lt (a : FW) (h : a.NBl) : a.pos < a.lines.length := by
  obtain ⟨q, l, hq, hl, _⟩ := h
  have := (List.getElem?_eq_some_iff.mp hl).1
  omega

theorem nbl_nb (a : FW) (h : a.NBl) : a.NB := h

theorem nbl_of_same_pos {a b : FW} (hl : b.lines = a.lines) (hp : b.pos ≤ a.pos) (h : a.NBl) : b.NBl := by
  obtain ⟨q, l, hq, hl', hb⟩ := h
  exact ⟨q, l, Nat.le_trans hp hq, by rw [hl]; exact hl', hb⟩

/-- `continuation` returns the line terminator or a text of at least two characters -/
theorem ll_continuation_shape (s : Str) (g1 g2 : Str) (h : continuation s = some (g1, g2)) :
    (g2 = ['\n'] ∧ ∃ tail, s = g1 ++ '\n' :: tail ∧ ∀ x ∈ g1, (x == ' ' || x == '\t') = true) ∨ 2 ≤ g2.length := by
  unfold continuation at h
  have hcat := ll_span_cat (fun c => c == ' ' || c == '\t') s
  have hall := span_all (fun c => c == ' ' || c == '\t') s
  revert h hcat hall
  generalize span (fun c => c == ' ' || c == '\t') s = sr
  obtain ⟨sp, r⟩ := sr
  intro h hcat hall
  simp only at h hcat hall
  split at h
  · rename_i tl
    cases h
    exact Or.inl ⟨rfl, tl, hcat.symm, hall⟩
  · split at h
    · cases h
    · split at h
      · cases h
        right; simp
      · cases h
  · cases h

theorem parseContinuation_nl_blank (s : Str) (p : Nat) (hs : NlEnd s) (h : parseContinuation s p = some ['\n']) :
    isBlank s = true := by
  unfold parseContinuation at h
  cases hc : continuation s with
  | none => simp [hc] at h
  | some g =>
    obtain ⟨g1, g2⟩ := g
    simp only [hc] at h
    rcases ll_continuation_shape s g1 g2 hc with ⟨_, tail, hs', hall⟩ | hlen
    · obtain ⟨body, hb, hnb⟩ := hs
      have htail : tail = [] := by
        cases htl : tail with
        | nil => rfl
        | cons t ts =>
          exfalso
          have h1 : s.dropLast = body := by rw [hb]; simp
          have h2 : s.dropLast = g1 ++ '\n' :: (t :: ts).dropLast := by
            rw [hs', htl, List.dropLast_append_of_ne_nil (by simp)]
            rw [List.dropLast_cons_of_ne_nil (by simp)]
          apply hnb
          rw [← h1, h2]
          simp
      subst htail
      rw [hs']
      unfold isBlank
      rw [List.all_eq_true]
      intro x hx
      simp only [List.mem_append, List.mem_singleton] at hx
      rcases hx with hx | hx
      · have := hall x hx
        simp only [Bool.or_eq_true, beq_iff_eq] at this
        rcases this with rfl | rfl <;> decide
      · subst hx; decide
    · exfalso
      split at h
      · rename_i hg; simp only [beq_iff_eq] at hg; subst hg; simp at hlen
      · split at h
        · simp only [Option.some.injEq] at h
          have := congrArg List.length h
          simp only [List.length_append, List.length_cons, List.length_nil] at this
          omega
        · cases h

/-! ### `ListItem.read` on the extended buffer -/

theorem dropTrailing_ext (post : List Line) (a : FW) (buf : List Line) (nl : Nat) :
    dropTrailing (a.ext post) buf nl = ((dropTrailing a buf nl).1.ext post, (dropTrailing a buf nl).2) := by
  unfold dropTrailing; split <;> rfl

/-- the item loop never looked at the end of the buffer if it found a next marker, or if a line that
    is not whitespace-only remains at or after the cursor it returned; then it runs identically on the
    extended buffer.  (`nl` counts whitespace-only lines just consumed.) -/
theorem itemLoop_ext (cfg : Cfg) (prepend : Nat) (nl0 : Line) (rest : List Line) (hnl0 : nl0.s = ['\n']) :
    ∀ (f f' : Nat) (a : FW) (buf : List Line) (nl : Nat) (r), f ≤ f' → AllNlEnd a.lines →
    (∀ q l, a.pos - nl ≤ q → q < a.pos → a.lines[q]? = some l → isBlank l.s = true) →
    itemLoop cfg prepend f a buf nl = .ok r → (r.2.2 ≠ none ∨ r.2.1.NBl) →
    itemLoop cfg prepend f' (a.ext (nl0 :: rest)) buf nl = .ok (r.1, r.2.1.ext (nl0 :: rest), r.2.2)
  | 0, _, _, _, _, _, _, _, _, h, _ => by simp [itemLoop] at h
  | _ + 1, 0, _, _, _, _, hle, _, _, _, _ => by omega
  | f + 1, f' + 1, a, buf, nl, r, hle, hnlA, hinv, h, hg => by
    simp only [itemLoop] at h ⊢
    cases hp : a.peek with
    | none =>
      exfalso
      have hge := peek_none_ge a hp
      simp only [hp] at h
      cases h
      rcases hg with hg | hg
      · exact hg rfl
      · obtain ⟨q, l, hq, hl, hb⟩ := hg
        have hlt := (List.getElem?_eq_some_iff.mp hl).1
        have hsame := (dropTrailing_same a buf nl).1
        simp only at hq hl hlt
        rw [hsame] at hl hlt
        unfold dropTrailing at hq
        split at hq
        · simp only [FW.backstep] at hq
          have := hinv q l (by omega) (by omega) hl
          rw [this] at hb; cases hb
        · simp only at hq; omega
    | some l =>
      have hlp : a.lines[a.pos]? = some l := hp
      have hlm : l ∈ a.lines := List.mem_of_getElem? hlp
      simp only [hp] at h
      simp only [ext_peek_some _ a l hp, anyInterrupt_ext cfg nl0 rest hnl0 a l hp, dropTrailing_ext]
      cases hc : parseContinuation l.s prepend with
      | some cont =>
        simp only [hc] at h ⊢
        split
        · rename_i he; simp [he] at h
        · rename_i he
          simp only [he] at h
          rw [ext_next]
          refine itemLoop_ext cfg prepend nl0 rest hnl0 f f' a.next _ _ r (by omega) hnlA ?_ h hg
          intro q l' hq1 hq2 hl'
          have hnp : a.next.pos = a.pos + 1 := rfl
          split at hq1
          · rename_i hcn
            simp only [beq_iff_eq] at hcn
            by_cases hqe : q = a.pos
            · subst hqe
              have : l' = l := Option.some.inj (hl'.symm.trans hlp)
              subst this
              exact parseContinuation_nl_blank _ prepend (hnlA _ hlm) (hcn ▸ hc)
            · exact hinv q l' (by omega) (by omega) hl'
          · omega
      | none =>
        simp only [hc] at h ⊢
        cases hi : anyInterrupt cfg a .list (parseMarker l.s).isSome cfg.types with
        | err e => simp [hi] at h
        | ok bi =>
          simp only [hi] at h ⊢
          cases bi with
          | true => simp only at h ⊢; cases h; rfl
          | false =>
            simp only at h ⊢
            cases hm : parseMarker l.s with
            | some m => simp only [hm] at h ⊢; cases h; rfl
            | none =>
              simp only [hm] at h ⊢
              split
              · rename_i hn; simp only [hn, if_true] at h; cases h; rfl
              · rename_i hn
                simp only [hn] at h
                rw [ext_next]
                refine itemLoop_ext cfg prepend nl0 rest hnl0 f f' a.next _ _ r (by omega) hnlA ?_ h hg
                intro q l' hq1 hq2 hl'
                have hnp : a.next.pos = a.pos + 1 := rfl
                split at hq1
                · rename_i hcn
                  simp only [beq_iff_eq] at hcn
                  by_cases hqe : q = a.pos
                  · subst hqe
                    have : l' = l := Option.some.inj (hl'.symm.trans hlp)
                    subst this
                    rw [hcn]; decide
                  · exact hinv q l' (by omega) (by omega) hl'
                · omega

theorem itemLoop_posLe (cfg : Cfg) (prepend : Nat) : ∀ (f : Nat) (a : FW) (buf : List Line) (nl : Nat) (r) (p0 : Nat),
    p0 ≤ a.pos → (0 < nl → p0 < a.pos) → itemLoop cfg prepend f a buf nl = .ok r → p0 ≤ r.2.1.pos
  | 0, _, _, _, _, _, _, _, h => by simp [itemLoop] at h
  | f + 1, a, buf, nl, r, p0, h1, h2, h => by
    have hdt : p0 ≤ (dropTrailing a buf nl).1.pos := by
      unfold dropTrailing; split
      · rename_i hn; have := h2 hn; simp only [FW.backstep]; omega
      · exact h1
    have hnp : a.next.pos = a.pos + 1 := rfl
    simp only [itemLoop] at h
    split at h
    · cases h; exact hdt
    · split at h
      · split at h
        · cases h
        · exact itemLoop_posLe cfg prepend f _ _ _ r p0 (by omega) (by intro; omega) h
      · split at h
        · cases h
        · cases h; exact hdt
        · split at h
          · cases h; exact h1
          · split at h
            · cases h; exact hdt
            · exact itemLoop_posLe cfg prepend f _ _ _ r p0 (by omega) (by intro; omega) h

theorem skipBlanks_ext (post : List Line) : ∀ (f f' : Nat) (a : FW) (n : Nat), f ≤ f' → a.remaining < f →
    (skipBlanks f a n).1.pos < a.lines.length →
    skipBlanks f' (a.ext post) n = ((skipBlanks f a n).1.ext post, (skipBlanks f a n).2)
  | 0, _, _, _, _, h, _ => by omega
  | _ + 1, 0, _, _, h, _, _ => by omega
  | f + 1, f' + 1, a, n, hle, hrem, hr => by
    simp only [skipBlanks] at hr ⊢
    cases hp : a.peek with
    | none =>
      have := peek_none_ge a hp
      simp only [hp] at hr
      omega
    | some l =>
      have hr' := next_remaining a l hp
      simp only [hp] at hr
      simp only [ext_peek_some _ a l hp]
      split
      · rename_i hb
        simp only [hb, if_true] at hr
        rw [ext_next]
        exact skipBlanks_ext post f f' a.next _ (by omega) (by omega) hr
      · rfl

def ItemLines.ext (post : List Line) : ItemLines → ItemLines
  | .empty i p ld ln og nx fw => .empty i p ld ln og nx (fw.ext post)
  | .lines buf cs i p ld ln og nx fw => .lines buf cs i p ld ln og nx (fw.ext post)

theorem itemLines_ext_cursor (post : List Line) (il : ItemLines) : (il.ext post).cursor = il.cursor.ext post := by
  cases il <;> rfl

theorem ext_remaining_le (post : List Line) (a : FW) : a.remaining ≤ (a.ext post).remaining := by
  simp only [FW.ext, FW.remaining, List.length_append]; omega

/-- `ListItem.read` up to the nested tokenizer, on the extended buffer -/
theorem itemLines_ext (cfg : Cfg) (nl0 : Line) (rest : List Line) (hnl0 : nl0.s = ['\n']) (a : FW) (prev) (il : ItemLines)
    (hnlA : AllNlEnd a.lines) (h : itemLines cfg a prev = .ok il) (hg : il.next ≠ none ∨ il.cursor.NBl) :
    itemLines cfg (a.ext (nl0 :: rest)) prev = .ok (il.ext (nl0 :: rest)) := by
  have hsk := skipBlanks_inv (a.remaining + 1) a.next 1
  have hle := ext_remaining_le (nl0 :: rest) a
  unfold itemLines at h ⊢
  cases hp : a.peek with
  | none => simp [hp] at h
  | some l0 =>
    have hr' := next_remaining a l0 hp
    simp only [hp] at h
    have hln : (a.ext (nl0 :: rest)).next.lineNumber = a.next.lineNumber := rfl
    simp only [ext_peek_some _ a l0 hp, hln]
    split at h
    · cases h
    · rename_i ind pre0 ldr content hmk
      split at h
      · rename_i hbc
        simp only [hbc, if_true]
        -- the cursor after the blank-skipping loop is inside the buffer
        have hlt : (skipBlanks (a.remaining + 1) a.next 1).1.pos < a.lines.length := by
          split at h
          · cases h
            simp only [ItemLines.next, ItemLines.cursor] at hg
            rcases hg with hg | hg
            · cases hpk : (skipBlanks (a.remaining + 1) a.next 1).1.peek with
              | none => simp [hpk] at hg
              | some l => have := peek_some_lt _ l hpk; rw [hsk.1.1] at this; exact this
            · have := nbl_lt _ hg; rw [hsk.1.1] at this; exact this
          · split at h
            · cases h
            · rename_i buf fw3 next heq
              cases h
              simp only [ItemLines.next, ItemLines.cursor] at hg
              have hpos := itemLoop_posLe cfg _ _ _ _ _ _ _ (Nat.le_refl _) (by intro h0; cases h0) heq
              have hs3 := (itemLoop_same cfg _ _ _ _ _ _ heq).1
              simp only at hpos hs3
              have : fw3.pos < fw3.lines.length := by
                rcases hg with hg | hg
                · cases hn : next with
                  | none => exact absurd hn hg
                  | some m =>
                    obtain ⟨l, hl, _⟩ := itemLoop_next_marker cfg _ _ _ _ _ _ heq m hn
                    exact peek_some_lt _ l hl
                · exact nbl_lt _ hg
              rw [hs3, hsk.1.1] at this
              show _ < a.lines.length
              have e : a.next.lines = a.lines := rfl
              rw [e] at this
              omega
        have e : a.next.lines = a.lines := rfl
        have hske : skipBlanks ((a.ext (nl0 :: rest)).remaining + 1) (a.ext (nl0 :: rest)).next 1 =
            ((skipBlanks (a.remaining + 1) a.next 1).1.ext (nl0 :: rest), (skipBlanks (a.remaining + 1) a.next 1).2) :=
          skipBlanks_ext (nl0 :: rest) (a.remaining + 1) ((a.ext (nl0 :: rest)).remaining + 1) a.next 1 (by omega) (by omega)
            (by rw [e]; exact hlt)
        rw [hske]
        simp only
        split at h
        · rename_i hb1
          simp only [hb1, if_true]
          cases h
          have hpk : ((skipBlanks (a.remaining + 1) a.next 1).1.ext (nl0 :: rest)).peek = (skipBlanks (a.remaining + 1) a.next 1).1.peek := by
            cases hpk : (skipBlanks (a.remaining + 1) a.next 1).1.peek with
            | none =>
              have := peek_none_ge _ hpk
              rw [hsk.1.1] at this
              have e2 : a.next.lines.length = a.lines.length := rfl
              omega
            | some l => exact ext_peek_some _ _ l hpk
          simp only [hpk, ItemLines.ext]
        · rename_i hb1
          rw [if_neg hb1]
          split at h
          · cases h
          · rename_i buf fw3 next heq
            cases h
            simp only [ItemLines.next, ItemLines.cursor] at hg
            rw [itemLoop_ext cfg _ nl0 rest hnl0 (a.remaining + 1) _ _ [] 0 _ (by omega)
              (by rw [hsk.1.1]; exact hnlA) (by intro q l _ _ _; omega) heq hg]
            simp only [ItemLines.ext]
      · rename_i hbc
        rw [if_neg hbc]
        split at h
        · cases h
        · rename_i buf fw3 next heq
          cases h
          simp only [ItemLines.next, ItemLines.cursor] at hg
          have hile := itemLoop_ext cfg _ nl0 rest hnl0 (a.remaining + 1) ((a.ext (nl0 :: rest)).remaining + 1) a.next _ 0 _ (by omega)
            hnlA (by intro q l _ _ _; omega) heq hg
          rw [← ext_next] at hile
          rw [hile]
          simp only [ItemLines.ext]


theorem itemLines_cursor_fw (il : ItemLines) : il.cursor = il.fw := by cases il <;> rfl

/-! ### `List.read` on the extended buffer -/

/-- `List.read` runs identically on the extended buffer, unless its last item looked at the end of
    the buffer: then no line that is not whitespace-only remains at or after the cursor it returned -/
def ExtList (cfg : Cfg) (nl0 : Line) (rest : List Line) (g : Nat) : Prop :=
  ∀ (a : FW) (st : St) (ld) (nm) (acc : List Item) (items) (fw' : FW) (st' : St), AllNlEnd a.lines →
    readList cfg g a st ld nm acc = .ok (items, fw', st') →
    readList cfg g (a.ext (nl0 :: rest)) st ld nm acc = .ok (items, fw'.ext (nl0 :: rest), st') ∨ ¬ fw'.NBl

theorem extList_step (cfg : Cfg) (nl0 : Line) (rest : List Line) (hnl0 : nl0.s = ['\n']) (g : Nat)
    (hL : ExtList cfg nl0 rest g) : ExtList cfg nl0 rest (g + 1) := by
  intro a st ld nm acc items fw' st' hnlA h
  simp only [readList] at h ⊢
  by_cases hom : otherMarkerType ld nm = true
  · -- a marker of another type: nothing is read
    simp only [hom, ↓reduceIte] at h ⊢
    cases h; exact Or.inl rfl
  simp only [hom, Bool.false_eq_true, ↓reduceIte] at h ⊢
  cases hil : itemLines cfg a nm with
  | err e => simp [hil] at h
  | ok il =>
    have hsame := itemLines_same cfg a nm il hil
    have hnlC : AllNlEnd il.cursor.lines := by rw [hsame.1]; exact hnlA
    simp only [hil] at h
    by_cases hg : il.next ≠ none ∨ il.cursor.NBl
    · rw [itemLines_ext cfg nl0 rest hnl0 a nm il hnlA hil hg]
      cases il with
      | empty ind p ldr ln og next fwc =>
        simp only [ItemLines.ext] at h ⊢
        simp only [ItemLines.cursor] at hnlC
        cases ld with
        | some d =>
          simp only at h ⊢
          cases next with
          | none => simp only at h ⊢; cases h; exact Or.inl rfl
          | some m => simp only at h ⊢; exact hL fwc _ _ _ _ _ _ _ hnlC h
        | none =>
          simp only at h ⊢
          cases next with
          | none => simp only at h ⊢; cases h; exact Or.inl rfl
          | some m => simp only at h ⊢; exact hL fwc _ _ _ _ _ _ _ hnlC h
      | lines buf cs ind p ldr ln og next fwc =>
        simp only [ItemLines.ext] at h ⊢
        simp only [ItemLines.cursor] at hnlC
        cases hb : tokenizeBlock cfg g buf cs st with
        | err e => simp [hb] at h
        | ok bb =>
          obtain ⟨bb, stb⟩ := bb
          simp only [hb] at h ⊢
          cases ld with
          | some d =>
            simp only at h ⊢
            cases next with
            | none => simp only at h ⊢; cases h; exact Or.inl rfl
            | some m => simp only at h ⊢; exact hL fwc _ _ _ _ _ _ _ hnlC h
          | none =>
            simp only at h ⊢
            cases next with
            | none => simp only at h ⊢; cases h; exact Or.inl rfl
            | some m => simp only at h ⊢; exact hL fwc _ _ _ _ _ _ _ hnlC h
    · right
      have hnn : il.next = none := by
        cases hn : il.next with
        | none => rfl
        | some m => exact absurd (Or.inl (by rw [hn]; simp)) hg
      have hnb : ¬ il.cursor.NBl := fun x => hg (Or.inr x)
      cases il with
      | empty ind p ldr ln og next fwc =>
        simp only [ItemLines.next] at hnn
        subst hnn
        simp only [ItemLines.cursor] at hnb
        cases ld with
        | some d => simp only at h; cases h; exact hnb
        | none => simp only at h; cases h; exact hnb
      | lines buf cs ind p ldr ln og next fwc =>
        simp only [ItemLines.next] at hnn
        subst hnn
        simp only [ItemLines.cursor] at hnb
        cases hb : tokenizeBlock cfg g buf cs st with
        | err e => simp [hb] at h
        | ok bb =>
          obtain ⟨bb, stb⟩ := bb
          simp only [hb] at h
          cases ld with
          | some d => simp only at h; cases h; exact hnb
          | none => simp only at h; cases h; exact hnb

theorem extList_all (cfg : Cfg) (nl0 : Line) (rest : List Line) (hnl0 : nl0.s = ['\n']) : ∀ g, ExtList cfg nl0 rest g
  | 0 => by intro a st ld nm acc items fw' st' _ h; simp [readList] at h
  | g + 1 => extList_step cfg nl0 rest hnl0 g (extList_all cfg nl0 rest hnl0 g)

/-! (The section "a block of a closed kind starts on a line that is not whitespace-only" —
    `heading_nonblank` … `tryTypes_closed_nonblank`, `tokLoop_closed_nbl` — now lives in `Proofs/Locality.lean`,
    which needs it since `BlockCode.read` hands back every whitespace-only trailing line.) -/

/-! ### The dispatcher on the extended buffer, when it returns a list -/

def ExtTryL (cfg : Cfg) (nl : Line) (rest : List Line) (gas : Nat) : Prop :=
  ∀ (a : FW) (st : St) (l : Line) (ts : List BTok) (items) (ln og : Nat) (fw' : FW) (st' : St), AllNlEnd a.lines → a.peek = some l →
    tryTypes cfg gas a st l ts = .ok (some (.list items ln og, fw', st')) →
    tryTypes cfg gas (a.ext (nl :: rest)) st l ts = .ok (some (.list items ln og, fw'.ext (nl :: rest), st')) ∨ ¬ fw'.NBl

theorem extTryL_step (cfg : Cfg) (nl : Line) (rest : List Line) (hnl : nl.s = ['\n']) (gas : Nat)
    (hY : ExtTryL cfg nl rest gas) : ExtTryL cfg nl rest (gas + 1) := by
  intro a st l ts items ln og fw' st' hl hp h
  cases ts with
  | nil => simp [tryTypes] at h
  | cons t ts =>
    have ih := fun (h : tryTypes cfg gas a st l ts = .ok (some (.list items ln og, fw', st'))) => hY a st l ts items ln og fw' st' hl hp h
    have hlt := peek_some_lt a l hp
    have hinb : a.InB := Nat.le_of_lt hlt
    simp only [tryTypes, ext_start, ext_pos] at h ⊢
    cases t <;> simp only at h ⊢
    · -- htmlBlock
      cases hh : htmlBlockStart l.s with
      | err e => simp [hh] at h
      | ok o =>
        simp only [hh] at h ⊢
        cases o with
        | none => exact ih h
        | some p => simp only at h; cases h
    · -- blockCode
      split
      · rename_i hb; simp only [hb, if_true] at h; cases h
      · rename_i hb; simp only [hb] at h; exact ih h
    · -- heading
      rw [readHeading_ext]
      cases hh : readHeading a l.s with
      | none => simp only [hh] at h ⊢; exact ih h
      | some x => simp only [hh] at h; cases h
    · -- quote
      split
      · rename_i hb
        simp only [hb, if_true] at h
        split at h
        · cases h
        · split at h
          · cases h
          · cases h
      · rename_i hb; simp only [hb] at h; exact ih h
    · -- codeFence
      cases hh : codeFenceStart l.s with
      | none => simp only [hh] at h ⊢; exact ih h
      | some m => simp only [hh] at h; cases h
    · -- thematicBreak
      split
      · rename_i hb; simp only [hb, if_true] at h; cases h
      · rename_i hb; simp only [hb] at h; exact ih h
    · -- list
      split
      · rename_i hb
        simp only [hb, if_true] at h
        cases hr : readList cfg gas a st none none [] with
        | err e => simp [hr] at h
        | ok x =>
          obtain ⟨its, fwl, stl⟩ := x
          simp only [hr] at h
          cases h
          rcases extList_all cfg nl rest hnl gas a st none none [] items fw' st' hl hr with hx | hx
          · left; simp only [hx]
          · exact Or.inr hx
      · rename_i hb; simp only [hb] at h; exact ih h
    · -- table
      split
      · rename_i hb
        simp only [hb, if_true] at h
        have key := readTable_ext nl rest hnl a l hp
        rw [key.1]
        cases hh : readTable a with
        | none => simp only [hh] at h ⊢; exact ih h
        | some x => simp only [hh] at h; cases h
      · rename_i hb; simp only [hb] at h; exact ih h
    · -- footnote
      split
      · rename_i hb
        simp only [hb, if_true] at h
        rw [readFootnote_ext nl rest hnl a hinb]
        cases hf : readFootnote a with
        | err e => simp [hf] at h
        | ok x =>
          obtain ⟨ms, fwf⟩ := x
          simp only [hf, rmap_ok] at h ⊢
          split
          · rename_i hm
            simp only [hm, if_true] at h
            have hsame := readFootnote_same a ms fwf hf
            have hpf := footnote_restores a ms fwf l hf hm hl hp (startsWith_lstrip_nb _ hb)
            exact hY fwf _ l ts items ln og fw' st' (by rw [hsame.1]; exact hl) hpf h
          · rename_i hm
            simp only [hm, Bool.false_eq_true, if_false] at h
            cases h
      · rename_i hb; simp only [hb] at h; exact ih h
    · -- paragraph
      split
      · rename_i hb
        simp only [hb, if_true] at h
        split at h <;> cases h
      · rename_i hb; simp only [hb] at h; exact ih h
    · -- blankLine
      split
      · rename_i hb; simp only [hb, if_true] at h; cases h
      · rename_i hb; simp only [hb] at h; exact ih h
    · -- linkRefDefBlock
      split
      · rename_i hb
        simp only [hb, if_true] at h
        rw [readFootnote_ext nl rest hnl a hinb]
        cases hf : readFootnote a with
        | err e => simp [hf] at h
        | ok x =>
          obtain ⟨ms, fwf⟩ := x
          simp only [hf, rmap_ok] at h ⊢
          split
          · rename_i hm
            simp only [hm, if_true] at h
            have hsame := readFootnote_same a ms fwf hf
            have hpf := footnote_restores a ms fwf l hf hm hl hp (startsWith_lstrip_nb _ hb)
            exact hY fwf _ l ts items ln og fw' st' (by rw [hsame.1]; exact hl) hpf h
          · rename_i hm
            simp only [hm, Bool.false_eq_true, if_false] at h
            cases h
      · rename_i hb; simp only [hb] at h; exact ih h

theorem extTryL_all (cfg : Cfg) (nl : Line) (rest : List Line) (hnl : nl.s = ['\n']) : ∀ gas, ExtTryL cfg nl rest gas
  | 0 => by intro a st l ts items ln og fw' st' _ _ h; simp [tryTypes] at h
  | gas + 1 => extTryL_step cfg nl rest hnl gas (extTryL_all cfg nl rest hnl gas)

/-! ### (P) the dispatch loop on the extended buffer, lists included -/

theorem noList_false_list (e : Entry) (h : noList e = false) : ∃ items ln og, e = .list items ln og := by
  cases e <;> first | exact ⟨_, _, _, rfl⟩ | (simp [noList] at h)

theorem closedE_list (items : List Item) (ln og : Nat) : closedE (.list items ln og) = false := rfl

theorem tokLoop_ext_lists (cfg : Cfg) (nl : Line) (rest : List Line) (hnl : nl.s = ['\n']) (hbl : .blankLine ∉ cfg.types)
    (extra : Nat) (hex : cfg.types.length < extra) :
    ∀ (gas : Nat) (a : FW) (st : St) (acc : List Entry) (loose : Bool) (buf : Buf) (st' : St) (new : List Entry),
      a.InB → AllNlEnd a.lines → tokLoop cfg gas a st acc loose = .ok (buf, st') →
      buf.entries = acc.reverse ++ new → (∀ e, new.getLast? = some e → closedE e = true) →
      ∃ g', extra ≤ g' ∧
        tokLoop cfg (gas + extra) (a.ext (nl :: rest)) st acc loose =
          tokLoop cfg g' { lines := a.lines ++ nl :: rest, pos := a.lines.length + 1, start := a.start } st'
            buf.entries.reverse true
  | 0, _, _, _, _, _, _, _, _, _, h, _, _ => by simp [tokLoop] at h
  | gas + 1, a, st, acc, loose, buf, st', new, hb, hl, h, hn, hlast => by
    have e : gas + 1 + extra = (gas + extra) + 1 := by omega
    rw [e]
    simp only [tokLoop] at h ⊢
    cases hp : a.peek with
    | none =>
      simp only [hp, Res.ok.injEq, Prod.mk.injEq] at h
      obtain ⟨h1, h2⟩ := h
      subst h2
      rw [← h1]
      simp only [ext_peek_none nl rest a hp hb,
        tryTypes_nl_none cfg _ st nl hnl cfg.types (gas + extra) hbl (by omega), List.reverse_reverse]
      refine ⟨gas + extra, by omega, ?_⟩
      have hpos : a.pos = a.lines.length := by
        have := peek_none_ge a hp
        unfold FW.InB at hb; omega
      simp only [FW.next, FW.ext, hpos]
    | some l =>
      simp only [hp] at h
      simp only [ext_peek_some _ a l hp]
      cases ht : tryTypes cfg gas a st l cfg.types with
      | err e => simp [ht] at h
      | ok o =>
        have hm := tryTypes_mono cfg a st l cfg.types o gas (gas + extra) (by omega) ht
        simp only [ht] at h
        cases o with
        | none =>
          have key := extTry2_all cfg nl rest hnl (gas + extra) a st l cfg.types none hl hp hm trivial
          simp only [key.1, Option.map_none]
          simp only at h
          exact tokLoop_ext_lists cfg nl rest hnl hbl extra hex gas a.next st acc true buf st' new (next_inb a l hp) hl h hn hlast
        | some x =>
          obtain ⟨en, fw', st1⟩ := x
          simp only at h
          -- the entries produced after `en`
          have hacc := tokLoop_acc cfg gas fw' st1 (en :: acc) loose
          rw [h] at hacc
          cases hr : tokLoop cfg gas fw' st1 [] false with
          | err e => rw [hr] at hacc; cases hacc
          | ok r1 =>
            rw [hr] at hacc
            simp only [rmap_ok, withAcc, Res.ok.injEq, Prod.mk.injEq] at hacc
            have hent : buf.entries = (en :: acc).reverse ++ r1.1.entries := by rw [hacc.1]
            have hnew : new = en :: r1.1.entries := by
              have : acc.reverse ++ new = acc.reverse ++ (en :: r1.1.entries) := by
                rw [← hn, hent]; simp
              exact List.append_cancel_left this
            have hsame := (same_all cfg gas).1 a st l cfg.types _ ht
            have hl' : AllNlEnd fw'.lines := by rw [hsame.1]; exact hl
            have hlast' : ∀ e, r1.1.entries.getLast? = some e → closedE e = true := by
              intro e he
              apply hlast
              rw [hnew]
              cases hre : r1.1.entries with
              | nil => rw [hre] at he; cases he
              | cons y ys => rw [hre] at he; rw [List.getLast?_cons_cons]; exact he
            -- the step on the extended buffer
            have hstep : tryTypes cfg (gas + extra) (a.ext (nl :: rest)) st l cfg.types =
                .ok (some (en, fw'.ext (nl :: rest), st1)) ∧ fw'.InB := by
              cases hnl' : noList en with
              | true =>
                have hok : okR (some (en, fw', st1)) := by
                  refine ⟨hnl', ?_⟩
                  cases hre : r1.1.entries with
                  | nil => left; apply hlast; rw [hnew, hre]; rfl
                  | cons y ys =>
                    right
                    exact tokLoop_closed_nbl cfg gas fw' st1 (en :: acc) loose buf st' r1.1.entries hl' h hent (by rw [hre]; simp) hlast'
                have key := extTry2_all cfg nl rest hnl (gas + extra) a st l cfg.types (some (en, fw', st1)) hl hp hm hok
                exact ⟨by simp only [key.1, Option.map_some, extT], (key.2 _ rfl).1⟩
              | false =>
                obtain ⟨items, ln, og, rfl⟩ := noList_false_list en hnl'
                -- a list is not closed, so blocks follow it, the last of them closed
                have hne : r1.1.entries ≠ [] := by
                  intro hre
                  have := hlast (.list items ln og) (by rw [hnew, hre]; rfl)
                  rw [closedE_list] at this; cases this
                have hnbl := tokLoop_closed_nbl cfg gas fw' st1 (.list items ln og :: acc) loose buf st' r1.1.entries hl' h hent hne hlast'
                rcases extTryL_all cfg nl rest hnl (gas + extra) a st l cfg.types items ln og fw' st1 hl hp hm with hx | hx
                · exact ⟨hx, Nat.le_of_lt (nbl_lt _ hnbl)⟩
                · exact absurd hnbl hx
            simp only [hstep.1]
            obtain ⟨g', hg, heq⟩ := tokLoop_ext_lists cfg nl rest hnl hbl extra hex gas fw' st1 (en :: acc) loose buf st' r1.1.entries
              hstep.2 hl' h hent hlast'
            refine ⟨g', hg, ?_⟩
            rw [heq]
            have h1 : fw'.lines = a.lines := hsame.1
            have h2 : fw'.start = a.start := hsame.2
            rw [h1, h2]

/-- **(P) Prefix independence.**  If `tokenize_block(A)` returns and the last top-level block it
    produced is a paragraph, setext or ATX heading, thematic break, block quote or table, then on
    `A ++ "\n" :: rest` (any `rest`) the tokenizer produces the same blocks, leaves the same state,
    and continues, with `loose := true`, at the line after the "\n".  Lists may occur among the
    earlier blocks of `A` (and anywhere inside its blocks). -/
theorem tokenizeBlock_prefix_lists (cfg : Cfg) (hbl : .blankLine ∉ cfg.types) (A : List Line) (nl : Line) (hnl : nl.s = ['\n'])
    (rest : List Line) (start : Nat) (st : St) (gas : Nat) (bA : Buf) (stA : St)
    (hA : tokenizeBlock cfg gas A start st = .ok (bA, stA)) (hlast : lastClosed bA.entries)
    (hnlA : AllNlEnd A) (extra : Nat) (hex : cfg.types.length < extra) :
    ∃ g', extra ≤ g' ∧
      tokenizeBlock cfg (gas + extra) (A ++ nl :: rest) start st =
        tokLoop cfg g' { lines := A ++ nl :: rest, pos := A.length + 1, start := start } stA bA.entries.reverse true := by
  cases gas with
  | zero => simp [tokenizeBlock] at hA
  | succ g =>
    have e : g + 1 + extra = (g + extra) + 1 := by omega
    rw [e]
    simp only [tokenizeBlock] at hA ⊢
    exact tokLoop_ext_lists cfg nl rest hnl hbl extra hex g { lines := A, pos := 0, start := start } st [] false bA stA
      bA.entries (Nat.zero_le _) hnlA hA (by simp) hlast

/-- **Concatenation across a blank line.**  `A`, a "\n" line and `B` tokenized as one buffer give
    `A`'s blocks followed by `B`'s blocks, the latter with line numbers (and ghost origins) raised by
    `A.length + 1`; `B` is read in the state `A` leaves behind. -/
theorem tokenizeBlock_concat_lists (cfg : Cfg) (hbl : .blankLine ∉ cfg.types) (A B0 : List Line) (nl : Line) (hnl : nl.s = ['\n'])
    (start : Nat) (st : St) (gA gB : Nat) (bA bB : Buf) (stA stB : St)
    (hA : tokenizeBlock cfg gA A start st = .ok (bA, stA)) (hlast : lastClosed bA.entries)
    (hB : tokenizeBlock cfg gB B0 start stA = .ok (bB, stB)) (hnlA : AllNlEnd A) (hnlB : AllNlEnd B0) :
    tokenizeBlock cfg (gA + (gB + cfg.types.length + 1)) (A ++ nl :: B0.map (Line.sh (A.length + 1))) start st =
      .ok ({ entries := bA.entries ++ shiftEntries (A.length + 1) bB.entries, loose := true }, stB) := by
  obtain ⟨g', hg, heq⟩ := tokenizeBlock_prefix_lists cfg hbl A nl hnl (B0.map (Line.sh (A.length + 1))) start st gA bA stA hA hlast hnlA
    (gB + cfg.types.length + 1) (by omega)
  rw [heq]
  have h1 : A ++ nl :: B0.map (Line.sh (A.length + 1)) = (A ++ [nl]) ++ B0.map (Line.sh (A ++ [nl]).length) := by simp
  have h2 : A.length + 1 = (A ++ [nl]).length := by simp
  rw [h1, h2, tokLoop_suffix_shift cfg g' (A ++ [nl]) B0 start stA _ true hnlB,
    tokenizeBlock_mono cfg B0 start stA (bB, stB) gB (g' + 1) (by omega) hB]
  simp [withAcc, shB]

end Mistletoe.Block

/-! ### C05 at full strength -/

namespace Mistletoe.Props.C05
open Mistletoe Mistletoe.Py Mistletoe.Scan Mistletoe.Block

/-- **Prefix independence.**  Let `tokenize_block(A)` return the buffer `bA` and the state `stA`, the
    last of `bA`'s top-level entries being a paragraph, setext/ATX heading, thematic break, block quote
    or table (`lastClosed`), A's lines ending with their only newline, and `BlankLine` not among the
    token types.  Then for ANY lines `rest`, the tokenizer on `A ++ "\n" :: rest` is, after some steps,
    the dispatch loop standing on the line after the "\n" with exactly A's entries accumulated, A's
    final state, and `loose = true` (with at least `extra` gas left, for any `extra` exceeding the
    number of token types).  No restriction on lists: they may be among A's earlier blocks. -/
theorem C05_prefix (cfg : Cfg) (hbl : .blankLine ∉ cfg.types) (A : List Line) (nl : Line) (hnl : nl.s = ['\n'])
    (rest : List Line) (start : Nat) (st : St) (gas : Nat) (bA : Buf) (stA : St)
    (hA : tokenizeBlock cfg gas A start st = .ok (bA, stA)) (hlast : lastClosed bA.entries)
    (hnlA : AllNlEnd A) (extra : Nat) (hex : cfg.types.length < extra) :
    ∃ g', extra ≤ g' ∧
      tokenizeBlock cfg (gas + extra) (A ++ nl :: rest) start st =
        tokLoop cfg g' { lines := A ++ nl :: rest, pos := A.length + 1, start := start } stA bA.entries.reverse true :=
  tokenizeBlock_prefix_lists cfg hbl A nl hnl rest start st gas bA stA hA hlast hnlA extra hex

/-- **Blocks separated by a blank line are independent, B read in A's final state.**
    If the block phase on `A` returns `bA`/`stA` with the last entry a paragraph, setext/ATX heading,
    thematic break, block quote or table, and the block phase on `B`, started in the state `stA`, returns
    `bB`/`stB`, then the block phase on `A ++ ["\n"] ++ B` returns `bA`'s entries followed by `bB`'s
    entries with every line number raised by `A.length + 1`, `loose = true`, state `stB`. -/
theorem C05_blank_line_independent_state_full (cfg : Cfg) (hbl : .blankLine ∉ cfg.types) (A B : List Str) (gA gB : Nat)
    (bA bB : Buf) (stA stB : St)
    (hA : blockPhase cfg gA A = .ok (bA, stA)) (hlast : lastClosed bA.entries)
    (hB : tokenizeBlock cfg gB (numbered 0 B) 1 stA = .ok (bB, stB))
    (hnlA : ∀ s ∈ A, NlEnd s) (hnlB : ∀ s ∈ B, NlEnd s) :
    blockPhase cfg (gA + (gB + cfg.types.length + 1)) (A ++ [['\n']] ++ B) =
      .ok ({ entries := bA.entries ++ shiftEntries (A.length + 1) bB.entries, loose := true }, stB) := by
  rw [blockPhase_eq] at hA ⊢
  have hl : numbered 0 (A ++ [['\n']] ++ B) =
      numbered 0 A ++ { s := ['\n'], origin := A.length + 1 } :: (numbered 0 B).map (Line.sh ((numbered 0 A).length + 1)) := by
    rw [List.append_assoc, numbered_append, List.singleton_append, numbered_cons, numbered_length]
    have := numbered_sh B 0 (A.length + 1)
    simp only [Nat.zero_add] at this ⊢
    rw [this]
  rw [hl]
  have := tokenizeBlock_concat_lists cfg hbl (numbered 0 A) (numbered 0 B) { s := ['\n'], origin := A.length + 1 } rfl 1 {}
    gA gB bA bB stA stB hA hlast hB (numbered_nlEnd 0 A hnlA) (numbered_nlEnd 0 B hnlB)
  rw [numbered_length] at this ⊢
  exact this

/-- **C05. Blocks separated by a blank line are independent.**  If `A` ends in a closed block
    (paragraph, setext/ATX heading, thematic break, block quote or table) and defines no link
    reference (`stA.defs = []`), then the block phase on `A ++ ["\n"] ++ B` returns `A`'s entries
    followed by `B`'s entries with every line number (at every depth) raised by `A.length + 1`, and
    the state `B` alone leaves.  (`B` may define link references; they end up in `stB`.) -/
theorem C05_blank_line_independent_full (cfg : Cfg) (hbl : .blankLine ∉ cfg.types) (A B : List Str) (gA gB : Nat)
    (bA bB : Buf) (stA stB : St)
    (hA : blockPhase cfg gA A = .ok (bA, stA)) (hlast : lastClosed bA.entries)
    (hdef : stA.defs = [])
    (hB : blockPhase cfg gB B = .ok (bB, stB))
    (hnlA : ∀ s ∈ A, NlEnd s) (hnlB : ∀ s ∈ B, NlEnd s) :
    blockPhase cfg (gA + (gB + cfg.types.length + 1)) (A ++ [['\n']] ++ B) =
      .ok ({ entries := bA.entries ++ shiftEntries (A.length + 1) bB.entries, loose := true }, stB) := by
  have hsx : stA.setext = true := (sx_all cfg gA).1 _ _ _ _ rfl hA
  have hst : stA = {} := by
    cases stA
    simp only at hsx hdef
    subst hsx; subst hdef; rfl
  subst hst
  exact C05_blank_line_independent_state_full cfg hbl A B gA gB bA bB _ stB hA hlast hB hnlA hnlB

/-! ### Non-vacuity -/

/-- A = a tight two-item list, then (after a blank line) a paragraph -/
def listA : List Str := [L "- a\n", L "- b\n", L "\n", L "para\n"]
/-- A = a list with a nested list, a list of another marker type, an ordered list, then a quote -/
def listA2 : List Str := [L "- a\n", L "  - n\n", L "* b\n", L "1. c\n", L "\n", L "> q\n"]
def listB : List Str := [L "- x\n"]

example : digestR (blockPhase cfg0 40 listA) = some ([(5, 1, 1), (13, 1, 1), (9, 1, 1), (13, 2, 2), (9, 2, 2), (9, 4, 4)], true, 0) := by
  decide +kernel
example : digestR (blockPhase cfg0 40 listB) = some ([(5, 1, 1), (13, 1, 1), (9, 1, 1)], false, 0) := by decide +kernel
example : digestR (blockPhase cfg0 91 (listA ++ [['\n']] ++ listB)) =
    some ([(5, 1, 1), (13, 1, 1), (9, 1, 1), (13, 2, 2), (9, 2, 2), (9, 4, 4), (5, 6, 6), (13, 6, 6), (9, 6, 6)], true, 0) := by
  decide +kernel

def okClosedL : Res (Buf × St) → Bool
  | .ok (b, st) => (match b.entries.getLast? with | some e => closedE e | none => true) && st.defs.isEmpty &&
      b.entries.any (fun e => !noList e)
  | .err _ => false

theorem okClosedL_spec (b : Buf) (st : St) (h : okClosedL (.ok (b, st)) = true) :
    lastClosed b.entries ∧ st.defs = [] ∧ ∃ e ∈ b.entries, noList e = false := by
  simp only [okClosedL, Bool.and_eq_true, List.isEmpty_iff, List.any_eq_true, Bool.not_eq_true'] at h
  refine ⟨?_, h.1.2, h.2⟩
  intro e he
  have := h.1.1
  rw [he] at this
  exact this

/-- instance of `C05_blank_line_independent_full` with a list among A's blocks (which the `_partial`
    theorem of `Props/C05.lean` excludes): its hypotheses hold for `A`, `listB` (kernel-evaluated) -/
theorem C05_full_instance (A : List Str) (hcA : okClosedL (blockPhase cfg0 40 A) = true)
    (hnA : ∀ s ∈ A, NlEnd s) :
    ∃ bA bB stB, blockPhase cfg0 40 A = .ok (bA, {}) ∧ (∃ e ∈ bA.entries, noList e = false) ∧
      blockPhase cfg0 40 listB = .ok (bB, stB) ∧
      blockPhase cfg0 91 (A ++ [['\n']] ++ listB) =
        .ok ({ entries := bA.entries ++ shiftEntries (A.length + 1) bB.entries, loose := true }, stB) := by
  have hlB : (digestR (blockPhase cfg0 40 listB)).map (·.1.length) = some 3 := by decide +kernel
  have hnB : ∀ s ∈ listB, NlEnd s := by
    intro s hs; apply nlEnd_of_check; revert s; decide
  cases hA : blockPhase cfg0 40 A with
  | err e => rw [hA] at hcA; cases hcA
  | ok rA =>
    obtain ⟨bA, stA⟩ := rA
    cases hB : blockPhase cfg0 40 listB with
    | err e => rw [hB] at hlB; cases hlB
    | ok rB =>
      obtain ⟨bB, stB⟩ := rB
      rw [hA] at hcA
      obtain ⟨hlast, hdef, hlist⟩ := okClosedL_spec bA stA hcA
      have hsx : stA.setext = true := (sx_all cfg0 40).1 _ _ _ _ rfl hA
      have hst : stA = {} := by
        cases stA
        simp only at hsx hdef
        subst hsx; subst hdef; rfl
      subst hst
      exact ⟨bA, bB, stB, rfl, hlist, rfl,
        C05_blank_line_independent_full cfg0 (by decide) A listB 40 40 bA bB _ stB hA hlast rfl hB hnA hnB⟩

example := C05_full_instance listA (by decide +kernel) (by intro s hs; apply nlEnd_of_check; revert s; decide)
example := C05_full_instance listA2 (by decide +kernel) (by intro s hs; apply nlEnd_of_check; revert s; decide)

/-- instance of `C05_prefix`: whatever follows the blank line after `listA2` -/
example (rest : List Line) : ∃ bA stA g', 30 ≤ g' ∧ tokenizeBlock cfg0 40 (numbered 0 listA2) 1 {} = .ok (bA, stA) ∧
    tokenizeBlock cfg0 70 (numbered 0 listA2 ++ { s := ['\n'], origin := 7 } :: rest) 1 {} =
      tokLoop cfg0 g' { lines := numbered 0 listA2 ++ { s := ['\n'], origin := 7 } :: rest, pos := 7, start := 1 } stA
        bA.entries.reverse true := by
  have hcA : okClosedL (blockPhase cfg0 40 listA2) = true := by decide +kernel
  cases hA : blockPhase cfg0 40 listA2 with
  | err e => rw [hA] at hcA; cases hcA
  | ok rA =>
    obtain ⟨bA, stA⟩ := rA
    rw [hA] at hcA
    obtain ⟨hlast, _, _⟩ := okClosedL_spec bA stA hcA
    obtain ⟨g', hg, heq⟩ := C05_prefix cfg0 (by decide) (numbered 0 listA2) { s := ['\n'], origin := 7 } rfl rest 1 {} 40
      bA stA hA hlast (numbered_nlEnd 0 listA2 (by intro s hs; apply nlEnd_of_check; revert s; decide)) 30 (by decide)
    exact ⟨bA, stA, g', hg, hA, heq⟩

/-! ### The inputs on which the former `List.read` violated C05

  Before the repair, `List.read` read the item behind a marker of another type and discarded it
  (`lines.set_pos(anchor)`), keeping the link reference definitions `Footnote.read` had registered
  while the item's content was tokenized.  In `formerA1` the discarded item starts at "* * *" (after an
  empty item the next marker is taken without the interrupt test) and runs lazily to the end of A — and,
  in the joined document, on through the blank line into B, where `[foo]: /url` (indented code when B
  stands alone) is a definition three list levels deep.  With the former code the joined document had
  `footnotes == {'foo': ('/url', '')}` and A's paragraph contained a Link, although neither part
  defines a link reference; `formerA2` does the same through `ListItem.pattern`'s `\s+` (a form feed
  after the marker; `List.pattern` wants `[ \t]+`, so the dispatcher reads a paragraph there).
  Now the last component (number of definitions registered) is 0 and the theorem applies. -/

def formerA1 : List Str := [L "- \n", L "\n", L "* * *\n", L "para [foo]\n"]
def formerB1 : List Str := [L "      [foo]: /url\n"]
def formerA2 : List Str := [L "- a\n", L "*\x0cx [foo]\n"]
def formerB2 : List Str := [L "    [foo]: /url\n"]

theorem former_counterexample_1 :
    digestR (blockPhase cfg0 40 formerA1) = some ([(5, 1, 1), (13, 1, 1), (4, 3, 3), (9, 4, 4)], false, 0) ∧
    digestR (blockPhase cfg0 40 formerB1) = some ([(0, 1, 1)], false, 0) ∧
    digestR (blockPhase cfg0 91 (formerA1 ++ [['\n']] ++ formerB1)) =
      some ([(5, 1, 1), (13, 1, 1), (4, 3, 3), (9, 4, 4), (0, 6, 6)], true, 0) := by
  refine ⟨?_, ?_, ?_⟩ <;> decide +kernel

theorem former_counterexample_2 :
    digestR (blockPhase cfg0 40 formerA2) = some ([(5, 1, 1), (13, 1, 1), (9, 1, 1), (9, 2, 2)], false, 0) ∧
    digestR (blockPhase cfg0 40 formerB2) = some ([(0, 1, 1)], false, 0) ∧
    digestR (blockPhase cfg0 91 (formerA2 ++ [['\n']] ++ formerB2)) =
      some ([(5, 1, 1), (13, 1, 1), (9, 1, 1), (9, 2, 2), (0, 4, 4)], true, 0) := by
  refine ⟨?_, ?_, ?_⟩ <;> decide +kernel

end Mistletoe.Props.C05
