import Mistletoe.Proofs.Locality
namespace Mistletoe.Block
open Mistletoe Mistletoe.Py Mistletoe.Scan

/-! ### Lines that are not whitespace-only -/

/-- a line that is not whitespace-only remains at or after the cursor -/
def FW.NBl (a : FW) : Prop := ∃ q l, a.pos ≤ q ∧ a.lines[q]? = some l ∧ isBlank l.s = false

theorem nbl_lt (a : FW) (h : a.NBl) : a.pos < a.lines.length := by
  obtain ⟨q, l, hq, hl, _⟩ := h
  have := (List.getElem?_eq_some_iff.mp hl).1
  omega

theorem nbl_nb (a : FW) (h : a.NBl) : a.NB := by
  obtain ⟨q, l, hq, hl, hb⟩ := h
  refine ⟨q, l, hq, hl, ?_⟩
  intro e; rw [e] at hb; revert hb; decide

theorem nbl_of_same_pos {a b : FW} (hl : b.lines = a.lines) (hp : b.pos ≤ a.pos) (h : a.NBl) : b.NBl := by
  obtain ⟨q, l, hq, hl', hb⟩ := h
  exact ⟨q, l, Nat.le_trans hp hq, by rw [hl]; exact hl', hb⟩

theorem ll_span_cat (p : Char → Bool) : ∀ (s : Str), (span p s).1 ++ (span p s).2 = s
  | [] => rfl
  | c :: rest => by
    simp only [span]
    split
    · simp only [List.cons_append, ll_span_cat p rest]
    · rfl

theorem ll_mem_not_blank (s : Str) (c : Char) (hm : c ∈ s) (hc : pyIsSpace c = false) : isBlank s = false := by
  unfold isBlank
  cases h : s.all pyIsSpace with
  | false => rfl
  | true =>
    rw [List.all_eq_true] at h
    rw [h c hm] at hc; cases hc

/-- `continuation` returns the line terminator or a text of at least two characters -/
theorem ll_continuation_shape (s : Str) (g1 g2 : Str) (h : continuation s = some (g1, g2)) :
    (g2 = ['\n'] ∧ ∃ tail, s = g1 ++ '\n' :: tail ∧ ∀ x ∈ g1, (x == ' ' || x == '\t') = true) ∨ 2 ≤ g2.length := by
  unfold continuation at h
  have hcat := ll_span_cat (fun c => c == ' ' || c == '\t') s
  have hall := span_all (fun c => c == ' ' || c == '\t') s
  revert h hcat hall
  generalize span (fun c => c == ' ' || c == '\t') s = sr
  obtain ⟨sp, r⟩ := sr
  intro h hcat hall
  simp only at h hcat hall
  split at h
  · rename_i tl
    cases h
    exact Or.inl ⟨rfl, tl, hcat.symm, hall⟩
  · split at h
    · cases h
    · split at h
      · cases h
        right; simp
      · cases h
  · cases h

theorem parseContinuation_nl_blank (s : Str) (p : Nat) (hs : NlEnd s) (h : parseContinuation s p = some ['\n']) :
    isBlank s = true := by
  unfold parseContinuation at h
  cases hc : continuation s with
  | none => simp [hc] at h
  | some g =>
    obtain ⟨g1, g2⟩ := g
    simp only [hc] at h
    rcases ll_continuation_shape s g1 g2 hc with ⟨_, tail, hs', hall⟩ | hlen
    · obtain ⟨body, hb, hnb⟩ := hs
      have htail : tail = [] := by
        cases htl : tail with
        | nil => rfl
        | cons t ts =>
          exfalso
          have h1 : s.dropLast = body := by rw [hb]; simp
          have h2 : s.dropLast = g1 ++ '\n' :: (t :: ts).dropLast := by
            rw [hs', htl, List.dropLast_append_of_ne_nil (by simp)]
            rw [List.dropLast_cons_of_ne_nil (by simp)]
          apply hnb
          rw [← h1, h2]
          simp
      subst htail
      rw [hs']
      unfold isBlank
      rw [List.all_eq_true]
      intro x hx
      simp only [List.mem_append, List.mem_singleton] at hx
      rcases hx with hx | hx
      · have := hall x hx
        simp only [Bool.or_eq_true, beq_iff_eq] at this
        rcases this with rfl | rfl <;> decide
      · subst hx; decide
    · exfalso
      split at h
      · rename_i hg; simp only [beq_iff_eq] at hg; subst hg; simp at hlen
      · split at h
        · simp only [Option.some.injEq] at h
          have := congrArg List.length h
          simp only [List.length_append, List.length_cons, List.length_nil] at this
          omega
        · cases h

/-! ### `ListItem.read` on the extended buffer -/

theorem dropTrailing_ext (post : List Line) (a : FW) (buf : List Line) (nl : Nat) :
    dropTrailing (a.ext post) buf nl = ((dropTrailing a buf nl).1.ext post, (dropTrailing a buf nl).2) := by
  unfold dropTrailing; split <;> rfl

/-- the item loop never looked at the end of the buffer if it found a next marker, or if a line that
    is not whitespace-only remains at or after the cursor it returned; then it runs identically on the
    extended buffer.  (`nl` counts whitespace-only lines just consumed.) -/
theorem itemLoop_ext (cfg : Cfg) (prepend : Nat) (nl0 : Line) (rest : List Line) (hnl0 : nl0.s = ['\n']) :
    ∀ (f f' : Nat) (a : FW) (buf : List Line) (nl : Nat) (r), f ≤ f' → AllNlEnd a.lines →
    (∀ q l, a.pos - nl ≤ q → q < a.pos → a.lines[q]? = some l → isBlank l.s = true) →
    itemLoop cfg prepend f a buf nl = .ok r → (r.2.2 ≠ none ∨ r.2.1.NBl) →
    itemLoop cfg prepend f' (a.ext (nl0 :: rest)) buf nl = .ok (r.1, r.2.1.ext (nl0 :: rest), r.2.2)
  | 0, _, _, _, _, _, _, _, _, h, _ => by simp [itemLoop] at h
  | _ + 1, 0, _, _, _, _, hle, _, _, _, _ => by omega
  | f + 1, f' + 1, a, buf, nl, r, hle, hnlA, hinv, h, hg => by
    simp only [itemLoop] at h ⊢
    cases hp : a.peek with
    | none =>
      exfalso
      have hge := peek_none_ge a hp
      simp only [hp] at h
      cases h
      rcases hg with hg | hg
      · exact hg rfl
      · obtain ⟨q, l, hq, hl, hb⟩ := hg
        have hlt := (List.getElem?_eq_some_iff.mp hl).1
        have hsame := (dropTrailing_same a buf nl).1
        simp only at hq hl hlt
        rw [hsame] at hl hlt
        unfold dropTrailing at hq
        split at hq
        · simp only [FW.backstep] at hq
          have := hinv q l (by omega) (by omega) hl
          rw [this] at hb; cases hb
        · simp only at hq; omega
    | some l =>
      have hlp : a.lines[a.pos]? = some l := hp
      have hlm : l ∈ a.lines := List.mem_of_getElem? hlp
      simp only [hp] at h
      simp only [ext_peek_some _ a l hp, anyInterrupt_ext cfg nl0 rest hnl0 a l hp, dropTrailing_ext]
      cases hc : parseContinuation l.s prepend with
      | some cont =>
        simp only [hc] at h ⊢
        split
        · rename_i he; simp [he] at h
        · rename_i he
          simp only [he] at h
          rw [ext_next]
          refine itemLoop_ext cfg prepend nl0 rest hnl0 f f' a.next _ _ r (by omega) hnlA ?_ h hg
          intro q l' hq1 hq2 hl'
          have hnp : a.next.pos = a.pos + 1 := rfl
          split at hq1
          · rename_i hcn
            simp only [beq_iff_eq] at hcn
            by_cases hqe : q = a.pos
            · subst hqe
              have : l' = l := Option.some.inj (hl'.symm.trans hlp)
              subst this
              exact parseContinuation_nl_blank _ prepend (hnlA _ hlm) (hcn ▸ hc)
            · exact hinv q l' (by omega) (by omega) hl'
          · omega
      | none =>
        simp only [hc] at h ⊢
        cases hi : anyInterrupt cfg a .list (parseMarker l.s).isSome cfg.types with
        | err e => simp [hi] at h
        | ok bi =>
          simp only [hi] at h ⊢
          cases bi with
          | true => simp only at h ⊢; cases h; rfl
          | false =>
            simp only at h ⊢
            cases hm : parseMarker l.s with
            | some m => simp only [hm] at h ⊢; cases h; rfl
            | none =>
              simp only [hm] at h ⊢
              split
              · rename_i hn; simp only [hn, if_true] at h; cases h; rfl
              · rename_i hn
                simp only [hn] at h
                rw [ext_next]
                refine itemLoop_ext cfg prepend nl0 rest hnl0 f f' a.next _ _ r (by omega) hnlA ?_ h hg
                intro q l' hq1 hq2 hl'
                have hnp : a.next.pos = a.pos + 1 := rfl
                split at hq1
                · rename_i hcn
                  simp only [beq_iff_eq] at hcn
                  by_cases hqe : q = a.pos
                  · subst hqe
                    have : l' = l := Option.some.inj (hl'.symm.trans hlp)
                    subst this
                    rw [hcn]; decide
                  · exact hinv q l' (by omega) (by omega) hl'
                · omega

/-- a next marker is the marker of the line the cursor stands on -/
theorem itemLoop_next (cfg : Cfg) (prepend : Nat) : ∀ (f : Nat) (a : FW) (buf : List Line) (nl : Nat) (r) (m),
    itemLoop cfg prepend f a buf nl = .ok r → r.2.2 = some m → ∃ l, r.2.1.peek = some l ∧ parseMarker l.s = some m
  | 0, _, _, _, _, _, h, _ => by simp [itemLoop] at h
  | f + 1, a, buf, nl, r, m, h, hm => by
    simp only [itemLoop] at h
    split at h
    · cases h; cases hm
    · rename_i l hp
      split at h
      · split at h
        · cases h
        · exact itemLoop_next cfg prepend f _ _ _ r m h hm
      · split at h
        · cases h
        · cases h; cases hm
        · split at h
          · rename_i m' hm'
            cases h
            simp only [Option.some.injEq] at hm
            subst hm
            exact ⟨l, hp, hm'⟩
          · split at h
            · cases h; cases hm
            · exact itemLoop_next cfg prepend f _ _ _ r m h hm

theorem itemLoop_posLe (cfg : Cfg) (prepend : Nat) : ∀ (f : Nat) (a : FW) (buf : List Line) (nl : Nat) (r) (p0 : Nat),
    p0 ≤ a.pos → (0 < nl → p0 < a.pos) → itemLoop cfg prepend f a buf nl = .ok r → p0 ≤ r.2.1.pos
  | 0, _, _, _, _, _, _, _, h => by simp [itemLoop] at h
  | f + 1, a, buf, nl, r, p0, h1, h2, h => by
    have hdt : p0 ≤ (dropTrailing a buf nl).1.pos := by
      unfold dropTrailing; split
      · rename_i hn; have := h2 hn; simp only [FW.backstep]; omega
      · exact h1
    have hnp : a.next.pos = a.pos + 1 := rfl
    simp only [itemLoop] at h
    split at h
    · cases h; exact hdt
    · split at h
      · split at h
        · cases h
        · exact itemLoop_posLe cfg prepend f _ _ _ r p0 (by omega) (by intro; omega) h
      · split at h
        · cases h
        · cases h; exact hdt
        · split at h
          · cases h; exact h1
          · split at h
            · cases h; exact hdt
            · exact itemLoop_posLe cfg prepend f _ _ _ r p0 (by omega) (by intro; omega) h

theorem skipBlanks_ext (post : List Line) : ∀ (f f' : Nat) (a : FW) (n : Nat), f ≤ f' → a.remaining < f →
    (skipBlanks f a n).1.pos < a.lines.length →
    skipBlanks f' (a.ext post) n = ((skipBlanks f a n).1.ext post, (skipBlanks f a n).2)
  | 0, _, _, _, _, h, _ => by omega
  | _ + 1, 0, _, _, h, _, _ => by omega
  | f + 1, f' + 1, a, n, hle, hrem, hr => by
    simp only [skipBlanks] at hr ⊢
    cases hp : a.peek with
    | none =>
      have := peek_none_ge a hp
      simp only [hp] at hr
      omega
    | some l =>
      have hr' := next_remaining a l hp
      simp only [hp] at hr
      simp only [ext_peek_some _ a l hp]
      split
      · rename_i hb
        simp only [hb, if_true] at hr
        rw [ext_next]
        exact skipBlanks_ext post f f' a.next _ (by omega) (by omega) hr
      · rfl

def ItemLines.ext (post : List Line) : ItemLines → ItemLines
  | .empty i p ld ln og nx fw => .empty i p ld ln og nx (fw.ext post)
  | .lines buf cs i p ld ln og nx fw => .lines buf cs i p ld ln og nx (fw.ext post)

def ItemLines.next : ItemLines → Option (Nat × Nat × Str × Str)
  | .empty _ _ _ _ _ nx _ => nx
  | .lines _ _ _ _ _ _ _ nx _ => nx

theorem itemLines_ext_cursor (post : List Line) (il : ItemLines) : (il.ext post).cursor = il.cursor.ext post := by
  cases il <;> rfl

theorem ext_remaining_le (post : List Line) (a : FW) : a.remaining ≤ (a.ext post).remaining := by
  simp only [FW.ext, FW.remaining, List.length_append]; omega

/-- `ListItem.read` up to the nested tokenizer, on the extended buffer -/
theorem itemLines_ext (cfg : Cfg) (nl0 : Line) (rest : List Line) (hnl0 : nl0.s = ['\n']) (a : FW) (prev) (il : ItemLines)
    (hnlA : AllNlEnd a.lines) (h : itemLines cfg a prev = .ok il) (hg : il.next ≠ none ∨ il.cursor.NBl) :
    itemLines cfg (a.ext (nl0 :: rest)) prev = .ok (il.ext (nl0 :: rest)) := by
  have hsk := skipBlanks_inv (a.remaining + 1) a.next 1
  have hle := ext_remaining_le (nl0 :: rest) a
  unfold itemLines at h ⊢
  cases hp : a.peek with
  | none => simp [hp] at h
  | some l0 =>
    have hr' := next_remaining a l0 hp
    simp only [hp] at h
    have hln : (a.ext (nl0 :: rest)).next.lineNumber = a.next.lineNumber := rfl
    simp only [ext_peek_some _ a l0 hp, hln]
    split at h
    · cases h
    · rename_i ind pre0 ldr content hmk
      split at h
      · rename_i hbc
        simp only [hbc, if_true]
        -- the cursor after the blank-skipping loop is inside the buffer
        have hlt : (skipBlanks (a.remaining + 1) a.next 1).1.pos < a.lines.length := by
          split at h
          · cases h
            simp only [ItemLines.next, ItemLines.cursor] at hg
            rcases hg with hg | hg
            · cases hpk : (skipBlanks (a.remaining + 1) a.next 1).1.peek with
              | none => simp [hpk] at hg
              | some l => have := peek_some_lt _ l hpk; rw [hsk.1.1] at this; exact this
            · have := nbl_lt _ hg; rw [hsk.1.1] at this; exact this
          · split at h
            · cases h
            · rename_i buf fw3 next heq
              cases h
              simp only [ItemLines.next, ItemLines.cursor] at hg
              have hpos := itemLoop_posLe cfg _ _ _ _ _ _ _ (Nat.le_refl _) (by intro h0; cases h0) heq
              have hs3 := (itemLoop_same cfg _ _ _ _ _ _ heq).1
              simp only at hpos hs3
              have : fw3.pos < fw3.lines.length := by
                rcases hg with hg | hg
                · cases hn : next with
                  | none => exact absurd hn hg
                  | some m =>
                    obtain ⟨l, hl, _⟩ := itemLoop_next cfg _ _ _ _ _ _ m heq hn
                    exact peek_some_lt _ l hl
                · exact nbl_lt _ hg
              rw [hs3, hsk.1.1] at this
              show _ < a.lines.length
              have e : a.next.lines = a.lines := rfl
              rw [e] at this
              omega
        have e : a.next.lines = a.lines := rfl
        have hske : skipBlanks ((a.ext (nl0 :: rest)).remaining + 1) (a.ext (nl0 :: rest)).next 1 =
            ((skipBlanks (a.remaining + 1) a.next 1).1.ext (nl0 :: rest), (skipBlanks (a.remaining + 1) a.next 1).2) :=
          skipBlanks_ext (nl0 :: rest) (a.remaining + 1) ((a.ext (nl0 :: rest)).remaining + 1) a.next 1 (by omega) (by omega)
            (by rw [e]; exact hlt)
        rw [hske]
        simp only
        split at h
        · rename_i hb1
          simp only [hb1, if_true]
          cases h
          have hpk : ((skipBlanks (a.remaining + 1) a.next 1).1.ext (nl0 :: rest)).peek = (skipBlanks (a.remaining + 1) a.next 1).1.peek := by
            cases hpk : (skipBlanks (a.remaining + 1) a.next 1).1.peek with
            | none =>
              have := peek_none_ge _ hpk
              rw [hsk.1.1] at this
              have e2 : a.next.lines.length = a.lines.length := rfl
              omega
            | some l => exact ext_peek_some _ _ l hpk
          simp only [hpk, ItemLines.ext]
        · rename_i hb1
          rw [if_neg hb1]
          split at h
          · cases h
          · rename_i buf fw3 next heq
            cases h
            simp only [ItemLines.next, ItemLines.cursor] at hg
            rw [itemLoop_ext cfg _ nl0 rest hnl0 (a.remaining + 1) _ _ [] 0 _ (by omega)
              (by rw [hsk.1.1]; exact hnlA) (by intro q l _ _ _; omega) heq hg]
            simp only [ItemLines.ext]
      · rename_i hbc
        rw [if_neg hbc]
        split at h
        · cases h
        · rename_i buf fw3 next heq
          cases h
          simp only [ItemLines.next, ItemLines.cursor] at hg
          have hile := itemLoop_ext cfg _ nl0 rest hnl0 (a.remaining + 1) ((a.ext (nl0 :: rest)).remaining + 1) a.next _ 0 _ (by omega)
            hnlA (by intro q l _ _ _; omega) heq hg
          rw [← ext_next] at hile
          rw [hile]
          simp only [ItemLines.ext]

theorem itemLines_next (cfg : Cfg) (a : FW) (prev) (il : ItemLines) (h : itemLines cfg a prev = .ok il) (m)
    (hm : il.next = some m) : ∃ l, il.cursor.peek = some l ∧ parseMarker l.s = some m := by
  unfold itemLines at h
  split at h
  · cases h
  · simp only at h
    split at h
    · cases h
    · split at h
      · split at h
        · cases h
          simp only [ItemLines.next, ItemLines.cursor] at hm ⊢
          split at hm
          · rename_i l hl; exact ⟨l, hl, hm⟩
          · cases hm
        · split at h
          · cases h
          · rename_i buf fw3 next heq
            cases h
            exact itemLoop_next cfg _ _ _ _ _ _ m heq hm
      · split at h
        · cases h
        · rename_i buf fw3 next heq
          cases h
          exact itemLoop_next cfg _ _ _ _ _ _ m heq hm

theorem itemLines_pos (cfg : Cfg) (a : FW) (prev) (il : ItemLines) (h : itemLines cfg a prev = .ok il) : a.pos ≤ il.cursor.pos := by
  have hsk := (skipBlanks_inv (a.remaining + 1) a.next 1).2.1
  have hnp : a.next.pos = a.pos + 1 := rfl
  unfold itemLines at h
  split at h
  · cases h
  · simp only at h
    split at h
    · cases h
    · split at h
      · split at h
        · cases h; simp only [ItemLines.cursor]; omega
        · split at h
          · cases h
          · rename_i buf fw3 next heq
            cases h
            exact itemLoop_posLe cfg _ _ _ _ _ _ a.pos (by omega) (by intro h0; cases h0) heq
      · split at h
        · cases h
        · rename_i buf fw3 next heq
          cases h
          exact itemLoop_posLe cfg _ _ _ _ _ _ a.pos (by omega) (by intro h0; cases h0) heq

/-- the marker `List.read` hands to `ListItem.read` is the one `parse_marker` finds on the line -/
theorem itemLines_marker (cfg : Cfg) (a : FW) (prev) (il : ItemLines) (h : itemLines cfg a prev = .ok il)
    (hprev : ∀ m, prev = some m → ∃ l, a.peek = some l ∧ parseMarker l.s = some m) :
    ∃ l m, a.peek = some l ∧ parseMarker l.s = some m ∧ itemLines cfg a (some m) = .ok il := by
  cases prev with
  | some m =>
    obtain ⟨l, hl, hm⟩ := hprev m rfl
    exact ⟨l, m, hl, hm, h⟩
  | none =>
    cases hp : a.peek with
    | none => unfold itemLines at h; simp [hp] at h
    | some l =>
      cases hm : parseMarker l.s with
      | none => unfold itemLines at h; simp [hp, hm] at h
      | some m =>
        refine ⟨l, m, rfl, hm, ?_⟩
        rw [← h]
        unfold itemLines
        simp only [hp, hm]

/-! ### `List.read` on the extended buffer -/

/-- how `List.read` may have looked at the end of the buffer: its last item did (no line that is not
    whitespace-only remains at or after the cursor it returned), or an item it discarded did (the
    cursor is back on that item's marker line) -/
def ListTouch (cfg : Cfg) (fw' : FW) : Prop :=
  ¬ fw'.NBl ∨ ∃ l m il, fw'.peek = some l ∧ parseMarker l.s = some m ∧ itemLines cfg fw' (some m) = .ok il ∧
    il.next = none ∧ ¬ il.cursor.NBl

def ExtList (cfg : Cfg) (nl0 : Line) (rest : List Line) (g : Nat) : Prop :=
  ∀ (a : FW) (st : St) (ld) (nm) (acc : List Item) (items) (fw' : FW) (st' : St), AllNlEnd a.lines →
    (∀ m, nm = some m → ∃ l, a.peek = some l ∧ parseMarker l.s = some m) →
    readList cfg g a st ld nm acc = .ok (items, fw', st') →
    readList cfg g (a.ext (nl0 :: rest)) st ld nm acc = .ok (items, fw'.ext (nl0 :: rest), st') ∨ ListTouch cfg fw'

theorem extList_step (cfg : Cfg) (nl0 : Line) (rest : List Line) (hnl0 : nl0.s = ['\n']) (g : Nat)
    (hL : ExtList cfg nl0 rest g) : ExtList cfg nl0 rest (g + 1) := by
  intro a st ld nm acc items fw' st' hnlA hnm h
  simp only [readList, ext_pos] at h ⊢
  cases hil : itemLines cfg a nm with
  | err e => simp [hil] at h
  | ok il =>
    have hsame := itemLines_same cfg a nm il hil
    have hnlC : AllNlEnd il.cursor.lines := by rw [hsame.1]; exact hnlA
    have hnext := itemLines_next cfg a nm il hil
    simp only [hil] at h
    by_cases hg : il.next ≠ none ∨ il.cursor.NBl
    · rw [itemLines_ext cfg nl0 rest hnl0 a nm il hnlA hil hg]
      cases il with
      | empty ind p ldr ln og next fwc =>
        simp only [ItemLines.ext] at h ⊢
        simp only [ItemLines.cursor] at hnlC
        simp only [ItemLines.next, ItemLines.cursor] at hnext
        cases ld with
        | some d =>
          simp only at h ⊢
          split
          · rename_i hc; simp only [hc, if_true] at h; cases h; exact Or.inl rfl
          · rename_i hc
            simp only [hc] at h
            cases next with
            | none => simp only at h ⊢; cases h; exact Or.inl rfl
            | some m =>
              simp only at h ⊢
              exact hL fwc _ _ _ _ _ _ _ hnlC (by intro m' hm'; cases hm'; exact hnext m rfl) h
        | none =>
          simp only at h ⊢
          cases next with
          | none => simp only at h ⊢; cases h; exact Or.inl rfl
          | some m =>
            simp only at h ⊢
            exact hL fwc _ _ _ _ _ _ _ hnlC (by intro m' hm'; cases hm'; exact hnext m rfl) h
      | lines buf cs ind p ldr ln og next fwc =>
        simp only [ItemLines.ext] at h ⊢
        simp only [ItemLines.cursor] at hnlC
        simp only [ItemLines.next, ItemLines.cursor] at hnext
        cases hb : tokenizeBlock cfg g buf cs st with
        | err e => simp [hb] at h
        | ok bb =>
          obtain ⟨bb, stb⟩ := bb
          simp only [hb] at h ⊢
          cases ld with
          | some d =>
            simp only at h ⊢
            split
            · rename_i hc; simp only [hc, if_true] at h; cases h; exact Or.inl rfl
            · rename_i hc
              simp only [hc] at h
              cases next with
              | none => simp only at h ⊢; cases h; exact Or.inl rfl
              | some m =>
                simp only at h ⊢
                exact hL fwc _ _ _ _ _ _ _ hnlC (by intro m' hm'; cases hm'; exact hnext m rfl) h
          | none =>
            simp only at h ⊢
            cases next with
            | none => simp only at h ⊢; cases h; exact Or.inl rfl
            | some m =>
              simp only at h ⊢
              exact hL fwc _ _ _ _ _ _ _ hnlC (by intro m' hm'; cases hm'; exact hnext m rfl) h
    · right
      have hnn : il.next = none := by
        cases hn : il.next with
        | none => rfl
        | some m => exact absurd (Or.inl (by rw [hn]; simp)) hg
      have hnb : ¬ il.cursor.NBl := fun x => hg (Or.inr x)
      obtain ⟨l0, m0, hp0, hm0, hil0⟩ := itemLines_marker cfg a nm il hil hnm
      have hfa : ({ lines := il.cursor.lines, pos := a.pos, start := il.cursor.start } : FW) = a := by
        rw [hsame.1, hsame.2]
      have hdisc : ListTouch cfg { lines := il.cursor.lines, pos := a.pos, start := il.cursor.start } := by
        rw [hfa]; exact Or.inr ⟨l0, m0, il, hp0, hm0, hil0, hnn, hnb⟩
      cases il with
      | empty ind p ldr ln og next fwc =>
        simp only [ItemLines.next] at hnn
        subst hnn
        simp only [ItemLines.cursor] at hnb hdisc
        cases ld with
        | some d =>
          simp only at h
          split at h
          · cases h; exact hdisc
          · cases h; exact Or.inl hnb
        | none => simp only at h; cases h; exact Or.inl hnb
      | lines buf cs ind p ldr ln og next fwc =>
        simp only [ItemLines.next] at hnn
        subst hnn
        simp only [ItemLines.cursor] at hnb hdisc
        cases hb : tokenizeBlock cfg g buf cs st with
        | err e => simp [hb] at h
        | ok bb =>
          obtain ⟨bb, stb⟩ := bb
          simp only [hb] at h
          cases ld with
          | some d =>
            simp only at h
            split at h
            · cases h; exact hdisc
            · cases h; exact Or.inl hnb
          | none => simp only at h; cases h; exact Or.inl hnb

theorem extList_all (cfg : Cfg) (nl0 : Line) (rest : List Line) (hnl0 : nl0.s = ['\n']) : ∀ g, ExtList cfg nl0 rest g
  | 0 => by intro a st ld nm acc items fw' st' _ _ h; simp [readList] at h
  | g + 1 => extList_step cfg nl0 rest hnl0 g (extList_all cfg nl0 rest hnl0 g)
