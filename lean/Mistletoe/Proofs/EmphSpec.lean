/-
  `process_emphasis` and the delimiter algorithm of CommonMark 0.30 section 6.2.

  Part 1: the opener lower bounds (`bottoms`, the specification's "openers_bottom") are sound: they
  never change which opener `matching_opener` finds, so `process_emphasis` computes the same
  matches and the same remaining delimiters as the loop without any bottoms bookkeeping
  (`emphLoopNB`, `processEmphasisNB`), which always searches down to the stack bottom.
  Property theorems are in Props/C06.lean.
-/
import Mistletoe.Proofs.CoreTotal
namespace Mistletoe.Core
open Mistletoe Mistletoe.Py Mistletoe.Scan Mistletoe.InlineScan
set_option linter.unusedVariables false

/-! ### `closed_by` depends on the closer only through its key -/

/-- `opener.closed_by(closer)` as a function of the opener and the closer's `bottoms` key
    (delimiter character, `closer.open`, `closer.run_length % 3`) -/
def keyAccept (d : Delim) (k : BKey) : Bool :=
  d.type.head? == some k.1 &&
    (if (d.opens && d.closes) || k.2.1 then
       ((d.runLength + k.2.2) % 3 != 0 || (d.runLength % 3 == 0 && k.2.2 % 3 == 0))
     else true)

theorem closedBy_key (d c : Delim) (ch : Char) (hc : c.type.head? = some ch) (hcl : c.closes = true)
    (hd : d.type ≠ []) : closedBy d c = .ok (keyAccept d (ch, c.opens, c.runLength % 3)) := by
  unfold closedBy keyAccept
  cases h1 : d.type with
  | nil => exact absurd h1 hd
  | cons a _ =>
    simp only [List.head?_cons, hc, hcl, Bool.and_true]
    have e1 : (d.runLength + c.runLength % 3) % 3 = (d.runLength + c.runLength) % 3 := by omega
    have e2 : c.runLength % 3 % 3 = c.runLength % 3 := by omega
    rw [e1, e2]
    by_cases hab : a = ch
    · subst hab; simp
      split <;> rfl
    · have : (a != ch) = true := by simpa using hab
      rw [if_pos this]
      have : (some a == some ch) = false := by simpa using hab
      rw [this]; rfl

/-! ### the search of `matching_opener` -/

/-- index `j` holds no opener that `closer` accepts -/
def NonAcc (ds : List Delim) (closer : Delim) (j : Nat) : Prop :=
  ∀ d, ds[j]? = some d → ¬(d.emph = true ∧ d.opens = true) ∨ closedBy d closer = .ok false

theorem go_none (ds : List Delim) (closer : Delim) (lo : Nat) : ∀ (n idx : Nat),
    (∀ j, lo ≤ j → j ≤ idx → NonAcc ds closer j) → matchingOpener.go ds closer lo n idx = .ok none
  | 0, _, _ => by simp [matchingOpener.go]
  | n + 1, idx, h => by
    simp only [matchingOpener.go]
    split
    · rfl
    · rename_i hlo
      cases hd : ds[idx]? with
      | none => rfl
      | some d =>
        simp only
        have hrec : (if idx = 0 then Res.ok none else matchingOpener.go ds closer lo n (idx - 1)) = .ok none := by
          split
          · rfl
          · exact go_none ds closer lo n (idx - 1) (fun j h1 h2 => h j h1 (by omega))
        rcases h idx (by omega) (Nat.le_refl _) d hd with h1 | h1
        · rw [if_neg (by simpa using h1)]; exact hrec
        · split
          · rw [h1]; exact hrec
          · exact hrec

/-- lowering the bound of the search over indexes that hold no acceptable opener changes nothing -/
theorem go_lo (ds : List Delim) (closer : Delim) (lo lo' : Nat) (hle : lo' ≤ lo)
    (h : ∀ j, lo' ≤ j → j < lo → NonAcc ds closer j) : ∀ (n idx : Nat),
    matchingOpener.go ds closer lo n idx = matchingOpener.go ds closer lo' n idx
  | 0, _ => by simp [matchingOpener.go]
  | n + 1, idx => by
    by_cases hlo : idx < lo
    · have h1 : matchingOpener.go ds closer lo (n + 1) idx = .ok none := by
        simp only [matchingOpener.go, hlo, if_true]
      rw [h1]
      exact (go_none ds closer lo' (n + 1) idx (fun j h1 h2 => h j h1 (by omega))).symm
    · have hlo' : ¬ idx < lo' := by omega
      simp only [matchingOpener.go, hlo, hlo', if_false]
      rw [go_lo ds closer lo lo' hle h n (idx - 1)]

theorem go_none_spec (ds : List Delim) (closer : Delim) (lo : Nat) : ∀ (n idx : Nat),
    idx < n → idx < ds.length → matchingOpener.go ds closer lo n idx = .ok none →
    ∀ j, lo ≤ j → j ≤ idx → NonAcc ds closer j
  | 0, _, h, _, _ => by omega
  | n + 1, idx, hn, hl, h => by
    simp only [matchingOpener.go] at h
    split at h
    · intro j h1 h2; omega
    · rename_i hlo
      rw [List.getElem?_eq_getElem hl] at h
      simp only at h
      have hrec : (if idx = 0 then Res.ok none else matchingOpener.go ds closer lo n (idx - 1)) = .ok none →
          ∀ j, lo ≤ j → j < idx → NonAcc ds closer j := by
        intro h' j h1 h2
        split at h'
        · omega
        · exact go_none_spec ds closer lo n (idx - 1) (by omega) (by omega) h' j h1 (by omega)
      have hcur : ¬(ds[idx].emph = true ∧ ds[idx].opens = true) ∨ closedBy ds[idx] closer = .ok false →
          NonAcc ds closer idx := by
        intro h' d hd
        rw [List.getElem?_eq_getElem hl] at hd
        cases hd; exact h'
      intro j h1 h2
      split at h
      · rename_i heo
        split at h
        · cases h
        · cases h
        · rename_i hcb
          by_cases hj : j = idx
          · subst hj; exact hcur (Or.inr hcb)
          · exact hrec h j h1 (by omega)
      · rename_i heo
        by_cases hj : j = idx
        · subst hj; exact hcur (Or.inl (by simpa using heo))
        · exact hrec h j h1 (by omega)

theorem go_some_lb (ds : List Delim) (closer : Delim) (lo : Nat) : ∀ (n idx o : Nat),
    matchingOpener.go ds closer lo n idx = .ok (some o) → lo ≤ o
  | 0, _, _, h => by simp [matchingOpener.go] at h
  | n + 1, idx, o, h => by
    simp only [matchingOpener.go] at h
    split at h
    · cases h
    · rename_i hlo
      have hrec : (if idx = 0 then Res.ok none else matchingOpener.go ds closer lo n (idx - 1)) = .ok (some o) →
          lo ≤ o := by
        intro h'
        split at h'
        · cases h'
        · exact go_some_lb ds closer lo n (idx - 1) o h'
      cases hd : ds[idx]? with
      | none => rw [hd] at h; cases h
      | some d =>
        rw [hd] at h
        simp only at h
        split at h
        · split at h
          · cases h
          · cases h; omega
          · exact hrec h
        · exact hrec h

/-- lower end of the opener search -/
def loOf : Option Nat → Nat
  | none => 0
  | some b => b + 1

theorem matchingOpener_lo (curr : Nat) (ds : List Delim) (bottom bottom' : Option Nat)
    (hle : loOf bottom' ≤ loOf bottom)
    (h : ∀ closer, ds[curr]? = some closer → ∀ j, loOf bottom' ≤ j → j < loOf bottom → NonAcc ds closer j) :
    matchingOpener curr ds bottom = matchingOpener curr ds bottom' := by
  unfold matchingOpener
  split
  · rfl
  · cases hc : ds[curr]? with
    | none => rfl
    | some closer =>
      simp only
      exact go_lo ds closer _ _ hle (h closer hc) curr (curr - 1)

theorem matchingOpener_none_spec (curr : Nat) (ds : List Delim) (bottom : Option Nat) (closer : Delim)
    (hc : ds[curr]? = some closer) (h : matchingOpener curr ds bottom = .ok none) :
    ∀ j, loOf bottom ≤ j → j < curr → NonAcc ds closer j := by
  unfold matchingOpener at h
  have hl := (List.getElem?_eq_some_iff.1 hc).1
  split at h
  · intro j _ h2; omega
  · rw [hc] at h
    simp only at h
    intro j h1 h2
    exact go_none_spec ds closer _ curr (curr - 1) (by omega) (by omega) h j h1 (by omega)

theorem matchingOpener_some_lb (curr : Nat) (ds : List Delim) (bottom : Option Nat) (o : Nat)
    (h : matchingOpener curr ds bottom = .ok (some o)) : loOf bottom ≤ o := by
  unfold matchingOpener at h
  split at h
  · cases h
  · cases hc : ds[curr]? with
    | none => rw [hc] at h; cases h
    | some closer =>
      rw [hc] at h
      simp only at h
      exact go_some_lb ds closer _ curr (curr - 1) o h

end Mistletoe.Core
