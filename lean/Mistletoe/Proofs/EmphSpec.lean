/-
  `process_emphasis` and the delimiter algorithm of CommonMark 0.30 section 6.2.

  Part 1: the opener lower bounds (`bottoms`, the specification's "openers_bottom") are sound: they
  never change which opener `matching_opener` finds, so `process_emphasis` computes the same
  matches and the same remaining delimiters as the loop without any bottoms bookkeeping
  (`emphLoopNB`, `processEmphasisNB`), which always searches down to the stack bottom.
  Property theorems are in Props/C06.lean.
-/
import Mistletoe.Proofs.CoreTotal
namespace Mistletoe.Core
open Mistletoe Mistletoe.Py Mistletoe.Scan Mistletoe.InlineScan
set_option linter.unusedVariables false

/-! ### `closed_by` depends on the closer only through its key -/

/-- `opener.closed_by(closer)` as a function of the opener and the closer's `bottoms` key
    (delimiter character, `closer.open`, `closer.run_length % 3`) -/
def keyAccept (d : Delim) (k : BKey) : Bool :=
  d.type.head? == some k.1 &&
    (if (d.opens && d.closes) || k.2.1 then
       ((d.runLength + k.2.2) % 3 != 0 || (d.runLength % 3 == 0 && k.2.2 % 3 == 0))
     else true)

theorem closedBy_key (d c : Delim) (ch : Char) (hc : c.type.head? = some ch) (hcl : c.closes = true)
    (hd : d.type ≠ []) : closedBy d c = .ok (keyAccept d (ch, c.opens, c.runLength % 3)) := by
  unfold closedBy keyAccept
  cases h1 : d.type with
  | nil => exact absurd h1 hd
  | cons a _ =>
    simp only [List.head?_cons, hc, hcl, Bool.and_true]
    have e1 : (d.runLength + c.runLength % 3) % 3 = (d.runLength + c.runLength) % 3 := by omega
    have e2 : c.runLength % 3 % 3 = c.runLength % 3 := by omega
    rw [e1, e2]
    by_cases hab : a = ch
    · subst hab
      simp only [bne_self_eq_false, Bool.false_eq_true, if_false, beq_self_eq_true, Bool.true_and]
      by_cases hx : ((d.opens && d.closes) || c.opens) = true
      · rw [if_pos hx, if_pos hx]
      · rw [if_neg hx, if_neg hx]
    · have : (a != ch) = true := by simpa using hab
      rw [if_pos this]
      have : (some a == some ch) = false := by simpa using hab
      rw [this]; rfl

/-! ### the search of `matching_opener` -/

/-- index `j` holds no opener that `closer` accepts -/
def NonAcc (ds : List Delim) (closer : Delim) (j : Nat) : Prop :=
  ∀ d, ds[j]? = some d → ¬(d.emph = true ∧ d.opens = true) ∨ closedBy d closer = .ok false

theorem go_none (ds : List Delim) (closer : Delim) (lo : Nat) : ∀ (n idx : Nat),
    (∀ j, lo ≤ j → j ≤ idx → NonAcc ds closer j) → matchingOpener.go ds closer lo n idx = .ok none
  | 0, _, _ => by simp [matchingOpener.go]
  | n + 1, idx, h => by
    simp only [matchingOpener.go]
    split
    · rfl
    · rename_i hlo
      cases hd : ds[idx]? with
      | none => rfl
      | some d =>
        simp only
        have hrec : (if idx = 0 then Res.ok none else matchingOpener.go ds closer lo n (idx - 1)) = .ok none := by
          split
          · rfl
          · exact go_none ds closer lo n (idx - 1) (fun j h1 h2 => h j h1 (by omega))
        rcases h idx (by omega) (Nat.le_refl _) d hd with h1 | h1
        · rw [if_neg (by simpa using h1)]; exact hrec
        · split
          · rw [h1]; exact hrec
          · exact hrec

/-- lowering the bound of the search over indexes that hold no acceptable opener changes nothing -/
theorem go_lo (ds : List Delim) (closer : Delim) (lo lo' : Nat) (hle : lo' ≤ lo)
    (h : ∀ j, lo' ≤ j → j < lo → NonAcc ds closer j) : ∀ (n idx : Nat),
    matchingOpener.go ds closer lo n idx = matchingOpener.go ds closer lo' n idx
  | 0, _ => by simp [matchingOpener.go]
  | n + 1, idx => by
    by_cases hlo : idx < lo
    · have h1 : matchingOpener.go ds closer lo (n + 1) idx = .ok none := by
        simp only [matchingOpener.go, hlo, if_true]
      rw [h1]
      exact (go_none ds closer lo' (n + 1) idx (fun j h1 h2 => h j h1 (by omega))).symm
    · have hlo' : ¬ idx < lo' := by omega
      simp only [matchingOpener.go, hlo, hlo', if_false]
      rw [go_lo ds closer lo lo' hle h n (idx - 1)]

theorem go_none_spec (ds : List Delim) (closer : Delim) (lo : Nat) : ∀ (n idx : Nat),
    idx < n → idx < ds.length → matchingOpener.go ds closer lo n idx = .ok none →
    ∀ j, lo ≤ j → j ≤ idx → NonAcc ds closer j
  | 0, _, h, _, _ => by omega
  | n + 1, idx, hn, hl, h => by
    simp only [matchingOpener.go] at h
    split at h
    · intro j h1 h2; omega
    · rename_i hlo
      rw [List.getElem?_eq_getElem hl] at h
      simp only at h
      have hrec : (if idx = 0 then Res.ok none else matchingOpener.go ds closer lo n (idx - 1)) = .ok none →
          ∀ j, lo ≤ j → j < idx → NonAcc ds closer j := by
        intro h' j h1 h2
        split at h'
        · omega
        · exact go_none_spec ds closer lo n (idx - 1) (by omega) (by omega) h' j h1 (by omega)
      have hcur : ¬(ds[idx].emph = true ∧ ds[idx].opens = true) ∨ closedBy ds[idx] closer = .ok false →
          NonAcc ds closer idx := by
        intro h' d hd
        rw [List.getElem?_eq_getElem hl] at hd
        cases hd; exact h'
      intro j h1 h2
      split at h
      · rename_i heo
        split at h
        · cases h
        · cases h
        · rename_i hcb
          by_cases hj : j = idx
          · subst hj; exact hcur (Or.inr hcb)
          · exact hrec h j h1 (by omega)
      · rename_i heo
        by_cases hj : j = idx
        · subst hj; exact hcur (Or.inl (by simpa using heo))
        · exact hrec h j h1 (by omega)

theorem go_some_lb (ds : List Delim) (closer : Delim) (lo : Nat) : ∀ (n idx o : Nat),
    matchingOpener.go ds closer lo n idx = .ok (some o) → lo ≤ o
  | 0, _, _, h => by simp [matchingOpener.go] at h
  | n + 1, idx, o, h => by
    simp only [matchingOpener.go] at h
    split at h
    · cases h
    · rename_i hlo
      have hrec : (if idx = 0 then Res.ok none else matchingOpener.go ds closer lo n (idx - 1)) = .ok (some o) →
          lo ≤ o := by
        intro h'
        split at h'
        · cases h'
        · exact go_some_lb ds closer lo n (idx - 1) o h'
      cases hd : ds[idx]? with
      | none => rw [hd] at h; cases h
      | some d =>
        rw [hd] at h
        simp only at h
        split at h
        · split at h
          · cases h
          · cases h; omega
          · exact hrec h
        · exact hrec h

/-- lower end of the opener search -/
def loOf : Option Nat → Nat
  | none => 0
  | some b => b + 1

theorem matchingOpener_lo (curr : Nat) (ds : List Delim) (bottom bottom' : Option Nat)
    (hle : loOf bottom' ≤ loOf bottom)
    (h : ∀ closer, ds[curr]? = some closer → ∀ j, loOf bottom' ≤ j → j < loOf bottom → NonAcc ds closer j) :
    matchingOpener curr ds bottom = matchingOpener curr ds bottom' := by
  unfold matchingOpener
  split
  · rfl
  · cases hc : ds[curr]? with
    | none => rfl
    | some closer =>
      simp only
      exact go_lo ds closer _ _ hle (h closer hc) curr (curr - 1)

theorem matchingOpener_none_spec (curr : Nat) (ds : List Delim) (bottom : Option Nat) (closer : Delim)
    (hc : ds[curr]? = some closer) (h : matchingOpener curr ds bottom = .ok none) :
    ∀ j, loOf bottom ≤ j → j < curr → NonAcc ds closer j := by
  unfold matchingOpener at h
  have hl := (List.getElem?_eq_some_iff.1 hc).1
  split at h
  · intro j _ h2; omega
  · rw [hc] at h
    simp only at h
    intro j h1 h2
    exact go_none_spec ds closer _ curr (curr - 1) (by omega) (by omega) h j h1 (by omega)

theorem matchingOpener_some_lb (curr : Nat) (ds : List Delim) (bottom : Option Nat) (o : Nat)
    (h : matchingOpener curr ds bottom = .ok (some o)) : loOf bottom ≤ o := by
  unfold matchingOpener at h
  split at h
  · cases h
  · cases hc : ds[curr]? with
    | none => rw [hc] at h; cases h
    | some closer =>
      rw [hc] at h
      simp only at h
      exact go_some_lb ds closer _ curr (curr - 1) o h

/-! ### the invariant of `bottoms` -/

/-- Invariant of `bottoms` when the closer at position `curr` is about to be processed: every
    recorded bound `b` lies below `curr` and not below the stack bottom, and no delimiter between
    the stack bottom and `b` is an opener that a closer with the entry's key accepts.  (`None` is
    only recorded when the stack bottom is `None`.) -/
def BInv (sb : Option Nat) (ds : List Delim) (bs : List (BKey × Option Nat)) (curr : Nat) : Prop :=
  ∀ e ∈ bs, (e.2 = none → sb = none) ∧
    ∀ b, e.2 = some b → b < curr ∧ (∀ x, sb = some x → x ≤ b) ∧
      ∀ j d, loOf sb ≤ j → j ≤ b → ds[j]? = some d → d.emph = true → d.opens = true → keyAccept d e.1 = false

theorem bottomsGet_cases (bs : List (BKey × Option Nat)) (k : BKey) (sb : Option Nat) :
    bottomsGet bs k sb = sb ∨ ∃ e ∈ bs, e.1 = k ∧ bottomsGet bs k sb = e.2 := by
  unfold bottomsGet
  cases h : bs.find? (fun e => e.1 == k) with
  | none => left; rfl
  | some e =>
    right
    refine ⟨e, List.mem_of_find?_eq_some h, ?_, rfl⟩
    have := List.find?_some h
    simpa using this

theorem bottomsSet_mem (bs : List (BKey × Option Nat)) (k : BKey) (v : Option Nat) (e : BKey × Option Nat)
    (h : e ∈ bottomsSet bs k v) : e = (k, v) ∨ e ∈ bs := by
  unfold bottomsSet at h
  split at h
  · obtain ⟨e0, he0, rfl⟩ := List.mem_map.1 h
    split
    · left; rfl
    · right; exact he0
  · rcases List.mem_append.1 h with h | h
    · right; exact h
    · left; simpa using h

theorem BInv.lo_le {sb : Option Nat} {ds : List Delim} {bs : List (BKey × Option Nat)} {curr : Nat}
    (hB : BInv sb ds bs curr) (k : BKey) : loOf sb ≤ loOf (bottomsGet bs k sb) := by
  rcases bottomsGet_cases bs k sb with h | ⟨e, he, _, h⟩
  · rw [h]; exact Nat.le_refl _
  · rw [h]
    cases hv : e.2 with
    | none => rw [(hB e he).1 hv]; exact Nat.le_refl _
    | some b =>
      cases sb with
      | none => simp [loOf]
      | some x =>
        have := ((hB e he).2 b hv).2.1 x rfl
        simp only [loOf]; omega

/-- **The recorded bottoms are sound**: searching down to the recorded bound finds the same opener
    as searching down to the stack bottom. -/
theorem bottoms_sound (sb : Option Nat) (ds : List Delim) (bs : List (BKey × Option Nat)) (curr : Nat)
    (closer : Delim) (ch : Char) (hB : BInv sb ds bs curr)
    (hall : ∀ d ∈ ds, d.emph = true → d.type ≠ [])
    (hc : ds[curr]? = some closer) (hh : closer.type.head? = some ch) (hcl : closer.closes = true) :
    matchingOpener curr ds (bottomsGet bs (ch, closer.opens, closer.runLength % 3) sb) =
      matchingOpener curr ds sb := by
  apply matchingOpener_lo curr ds _ sb (hB.lo_le _)
  intro closer' hc' j h1 h2 d hd
  rw [hc] at hc'; cases hc'
  rcases bottomsGet_cases bs (ch, closer.opens, closer.runLength % 3) sb with h | ⟨e, he, hk, h⟩
  · rw [h] at h2; omega
  · rw [h] at h2
    cases hv : e.2 with
    | none => rw [hv] at h2; simp [loOf] at h2
    | some b =>
      rw [hv] at h2
      simp only [loOf] at h2
      by_cases heo : d.emph = true ∧ d.opens = true
      · right
        rw [closedBy_key d closer ch hh hcl (hall d (List.mem_of_getElem? hd) heo.1), ← hk]
        rw [((hB e he).2 b hv).2.2 j d h1 (by omega) hd heo.1 heo.2]
      · left; exact heo

/-- one iteration keeps the invariant of `bottoms` (and the closer position stays above the stack
    bottom) -/
theorem BInv.step {sb : Option Nat} {ds ds' : List Delim} {bs bs' : List (BKey × Option Nat)} {curr from' : Nat}
    {closer : Delim} (hB : BInv sb ds bs curr) (hx : ∀ x, sb = some x → x < curr)
    (hall : ∀ d ∈ ds, d.emph = true → d.type ≠ [])
    (hc : ds[curr]? = some closer) (hcl : closer.closes = true)
    (hr : BRel sb ds bs curr closer ds' bs' from') :
    ∀ k, from' ≤ k → BInv sb ds' bs' k ∧ ∀ x, sb = some x → x < k := by
  intro k hk
  rcases hr with ⟨ch, hh, hm, hbs, hfrom, hds⟩ | ⟨ch, o, hh, hm, ho, hbs, htake, hfrom⟩
  · -- no opener found
    refine ⟨?_, fun x hx' => by have := hx x hx'; omega⟩
    have hsame : ∀ j, j < curr → ds'[j]? = ds[j]? := by
      intro j hj
      rcases hds with h | h
      · rw [h, List.getElem?_eraseIdx_of_lt hj]
      · rw [h]
    rw [bottoms_sound sb ds bs curr closer ch hB hall hc hh hcl] at hm
    have hnone := matchingOpener_none_spec curr ds sb closer hc hm
    intro e he
    rw [hbs] at he
    rcases bottomsSet_mem _ _ _ _ he with rfl | he
    · by_cases hcurr : curr > 0
      · simp only [hcurr, if_true]
        refine ⟨fun h => (by cases h), fun b hb => ?_⟩
        simp only [Option.some.injEq] at hb
        subst hb
        refine ⟨by omega, fun x hx' => by have := hx x hx'; omega, fun j d h1 h2 hd he ho => ?_⟩
        rw [hsame j (by omega)] at hd
        rcases hnone j h1 (by omega) d hd with h | h
        · exact absurd ⟨he, ho⟩ h
        · rw [closedBy_key d closer ch hh hcl (hall d (List.mem_of_getElem? hd) he)] at h
          simpa using h
      · simp only [hcurr, if_false]
        refine ⟨fun h => h, fun b hb => ?_⟩
        have := hx b hb
        omega
    · refine ⟨(hB e he).1, fun b hb => ?_⟩
      obtain ⟨h1, h2, h3⟩ := (hB e he).2 b hb
      exact ⟨by omega, h2, fun j d hj1 hj2 hd => h3 j d hj1 hj2 (by rw [← hsame j (by omega)]; exact hd)⟩
  · -- opener found at `o`
    have hlo : loOf sb ≤ o := Nat.le_trans (hB.lo_le _) (matchingOpener_some_lb _ _ _ _ hm)
    have hxo : ∀ x, sb = some x → x < o := by
      intro x hx'; rw [hx'] at hlo; simp only [loOf] at hlo; omega
    refine ⟨?_, fun x hx' => by have := hxo x hx'; omega⟩
    have hsame : ∀ j, j < o → ds'[j]? = ds[j]? := by
      intro j hj
      have h1 : (ds'.take o)[j]? = ds'[j]? := by rw [List.getElem?_take, if_pos hj]
      have h2 : (ds.take o)[j]? = ds[j]? := by rw [List.getElem?_take, if_pos hj]
      rw [← h1, ← h2, htake]
    intro e' he'
    rw [hbs] at he'
    obtain ⟨e, he, rfl⟩ := List.mem_map.1 he'
    unfold remap
    cases hv : e.2 with
    | none =>
      simp only
      exact ⟨fun _ => (hB e he).1 hv, fun b hb => by rw [hv] at hb; cases hb⟩
    | some b =>
      obtain ⟨h1, h2, h3⟩ := (hB e he).2 b hv
      simp only
      by_cases hbo : b ≥ o
      · rw [if_pos hbo]
        by_cases ho0 : o > 0
        · simp only [ho0, if_true]
          refine ⟨fun h => (by cases h), fun b' hb' => ?_⟩
          simp only [Option.some.injEq] at hb'
          subst hb'
          refine ⟨by omega, fun x hx' => by have := hxo x hx'; omega, fun j d hj1 hj2 hd => ?_⟩
          rw [hsame j (by omega)] at hd
          exact h3 j d hj1 (by omega) hd
        · simp only [ho0, if_false]
          refine ⟨fun h => h, fun b' hb' => ?_⟩
          have := hxo b' hb'
          omega
      · rw [if_neg hbo]
        refine ⟨fun h => (by rw [hv] at h; cases h), fun b' hb' => ?_⟩
        rw [hv] at hb'
        simp only [Option.some.injEq] at hb'
        subst hb'
        refine ⟨by omega, h2, fun j d hj1 hj2 hd => ?_⟩
        rw [hsame j (by omega)] at hd
        exact h3 j d hj1 hj2 hd

/-! ### the loop without bottoms -/

/-- body of the `process_emphasis` loop without any `bottoms` bookkeeping: the opener is always
    searched down to the stack bottom -/
def emphStepNB (s : Str) (stackBottom : Option Nat) (ds : List Delim) (ms : List CoreM) (curr : Nat) :
    Res ((List Delim × List CoreM) × Option Nat) :=
  match ds[curr]? with
  | none => .err .index
  | some closer =>
    match closer.type.head? with
    | none => .err .index
    | some _ =>
      match matchingOpener curr ds stackBottom with
      | .err e => .err e
      | .ok (some openPos) =>
        (match ds[openPos]? with
         | none => .err .index
         | some opener =>
           let n := if closer.number ≥ 2 && opener.number ≥ 2 then 2 else 1
           let start := opener.stop - n
           let stop := closer.start + n
           match s[start]? with
           | none => .err .index
           | some dch =>
             let m : CoreM := { start := start, stop := stop, kind := if n = 2 then .strong else .emphasis,
                                ts := start + n, te := stop - n, dest := [], title := [], delimiter := dch }
             let ds1 := ds.take (openPos + 1) ++ ds.drop curr
             let (ds2, curr2) : List Delim × Nat :=
               match delimRemove opener n false with
               | some o' => (ds1.set openPos o', openPos + 1)
               | none => (ds1.eraseIdx openPos, openPos)
             let ds3 := match delimRemove closer n true with
               | some c' => ds2.set curr2 c'
               | none => ds2.eraseIdx curr2
             .ok ((ds3, m :: ms), nextCloser curr2 ds3))
      | .ok none =>
        if !closer.opens then
          let ds1 := ds.eraseIdx curr
          .ok ((ds1, ms), nextCloser curr ds1)
        else
          .ok ((ds, ms), nextCloser (curr + 1) ds)

/-- the `while curr_pos is not None` loop without bottoms -/
def emphLoopNB (s : Str) (stackBottom : Option Nat) : Nat → List Delim → List CoreM → Option Nat →
    Res (List Delim × List CoreM)
  | 0, _, _, _ => .err .fuel
  | _, ds, ms, none => .ok (ds, ms)
  | fuel + 1, ds, ms, some curr =>
    match emphStepNB s stackBottom ds ms curr with
    | .err e => .err e
    | .ok ((ds', ms'), c') => emphLoopNB s stackBottom fuel ds' ms' c'

/-- `process_emphasis` without bottoms -/
def processEmphasisNB (s : Str) (stackBottom : Option Nat) (ds : List Delim) (ms : List CoreM) :
    Res (List Delim × List CoreM) :=
  match emphLoopNB s stackBottom (2 * s.length + 2 * ds.length + 4) ds ms (nextCloser (stackBottom.getD 0) ds) with
  | .err e => .err e
  | .ok (ds', ms') => .ok (match stackBottom with | none => [] | some b => ds'.take b, ms')

/-- an iteration of the real loop, forgetting `bottoms`, is an iteration of the loop without
    bottoms, provided the recorded bound is sound for the current closer -/
theorem emphStep_forget (s : Str) (sb : Option Nat) (st : EState) (curr : Nat)
    (hs : ∀ closer ch, st.ds[curr]? = some closer → closer.type.head? = some ch →
      matchingOpener curr st.ds (bottomsGet st.bottoms (ch, closer.opens, closer.runLength % 3) sb) =
        matchingOpener curr st.ds sb) :
    (match emphStep s sb st curr with
     | .err e => .err e
     | .ok (st', c') => .ok ((st'.ds, st'.ms), c')) = emphStepNB s sb st.ds st.ms curr := by
  unfold emphStep emphStepNB
  cases hc : st.ds[curr]? with
  | none => rfl
  | some closer =>
    simp only
    cases hh : closer.type.head? with
    | none => rfl
    | some ch =>
      simp only
      rw [hs closer ch hc hh]
      cases matchingOpener curr st.ds sb with
      | err e => rfl
      | ok r =>
        cases r with
        | none =>
          simp only
          cases closer.opens <;> rfl
        | some openPos =>
          simp only
          cases st.ds[openPos]? with
          | none => rfl
          | some opener =>
            simp only
            generalize s[opener.stop - (if (closer.number ≥ 2 && opener.number ≥ 2) = true then 2 else 1)]? = x
            cases x <;> rfl

/-- **`process_emphasis` does not depend on its bottoms.**  Loop level: under the chain invariant of
    the delimiters and the invariant of `bottoms`, the real loop returns the delimiters and matches
    of the loop without bottoms (for every amount of fuel). -/
theorem emphLoop_eq_noBottoms (s : Str) (sb : Option Nat) (lo hi : Nat) (hhi : hi ≤ s.length) :
    ∀ (fuel : Nat) (st : EState) (c : Option Nat), Chain lo hi st.ds → CurrOK st.ds c →
      (∀ k, c = some k → BInv sb st.ds st.bottoms k ∧ ∀ x, sb = some x → x < k) →
      (match emphLoop s sb fuel st c with
       | .err e => .err e
       | .ok st' => .ok (st'.ds, st'.ms)) = emphLoopNB s sb fuel st.ds st.ms c
  | 0, _, _, _, _, _ => by simp [emphLoop, emphLoopNB]
  | fuel + 1, st, none, _, _, _ => by simp [emphLoop, emphLoopNB]
  | fuel + 1, st, some curr, hC, hc, hB => by
    obtain ⟨closer, hcl, he, hcc⟩ := hc curr rfl
    obtain ⟨hBI, hx⟩ := hB curr rfl
    have hall : ∀ d ∈ st.ds, DelimOK d ∧ d.stop ≤ s.length := by
      intro d hd
      have := hC.mem d hd
      exact ⟨this.1, by omega⟩
    have hall' : ∀ d ∈ st.ds, d.emph = true → d.type ≠ [] := by
      intro d hd _ h
      have h1 := (hall d hd).1
      have := h1.len; have := h1.pos; rw [h] at *; simp at *; omega
    obtain ⟨ds', ms', bs', from', hstep, hrel, hbrel⟩ := emphStep_spec_b s sb st curr closer hall hcl he hcc
    have hf := emphStep_forget s sb st curr (fun closer' ch hc' hh => by
      rw [hcl] at hc'; cases hc'
      exact bottoms_sound sb st.ds st.bottoms curr closer ch hBI hall' hcl hh hcc)
    rw [hstep] at hf
    simp only at hf
    rw [emphLoop_succ, hstep]
    simp only [emphLoopNB, ← hf]
    have hnext := hBI.step hx hall' hcl hcc hbrel
    exact emphLoop_eq_noBottoms s sb lo hi hhi fuel _ _ (hrel.chain hC) (CurrOK_nextCloser _ _)
      (fun k hk => hnext k (nextCloser_spec _ _ _ hk).1)

/-- **`process_emphasis` computes the same matches and the same remaining delimiters as
    `process_emphasis` without bottoms**, whenever the delimiter list satisfies the chain invariant
    and the delimiter at the stack bottom (the `[` / `![` of a link) is not an emphasis delimiter. -/
theorem processEmphasis_eq_noBottoms (s : Str) (sb : Option Nat) (lo hi : Nat) (hhi : hi ≤ s.length)
    (ds : List Delim) (ms : List CoreM) (hC : Chain lo hi ds)
    (hsb : ∀ x d, sb = some x → ds[x]? = some d → d.emph = false) :
    processEmphasis s sb ds ms = processEmphasisNB s sb ds ms := by
  have h := emphLoop_eq_noBottoms s sb lo hi hhi (2 * s.length + 2 * ds.length + 4)
    { ds := ds, ms := ms, bottoms := [] } (nextCloser (sb.getD 0) ds) hC (CurrOK_nextCloser _ _)
    (fun k hk => ⟨fun e he => (by cases he), fun x hx => (by
      obtain ⟨h1, d, h2, h3, _⟩ := nextCloser_spec _ _ _ hk
      rw [hx] at h1
      simp only [Option.getD_some] at h1
      by_cases hxk : x = k
      · subst hxk
        have := hsb x d hx h2
        rw [this] at h3; cases h3
      · omega)⟩)
  unfold processEmphasis processEmphasisNB
  simp only at h
  rw [← h]
  cases emphLoop s sb (2 * s.length + 2 * ds.length + 4) { ds := ds, ms := ms, bottoms := [] }
    (nextCloser (sb.getD 0) ds) <;> rfl

/-! ### `find_core_tokens` without bottoms -/

/-- `find_link_image` calling `process_emphasis` without bottoms -/
def findLinkImageNB (s : Str) (offset : Nat) (ds : List Delim) (ms : List CoreM) (fn : Footnotes.Table) :
    Res (Nat × List Delim × List CoreM) :=
  match lastBracket ds 0 none with
  | none => .ok (offset, ds, ms)
  | some i =>
    match ds[i]? with
    | none => .err .index
    | some d =>
      if !d.active then .ok (offset, ds.eraseIdx i, ms) else
      match matchLinkImage s offset d fn with
      | none => .ok (offset, ds.eraseIdx i, ms)
      | some m =>
        match processEmphasisNB s (some i) ds ms with
        | .err e => .err e
        | .ok (ds1, ms1) =>
          let ds2 := if d.type == ['['] then ds1.map (fun x => if x.type == ['['] then { x with active := false } else x) else ds1
          .ok (m.stop - 1, ds2, m :: ms1)

/-- `tailExpr` with `find_link_image` without bottoms -/
def tailExprNB {α} (K : Nat → FState → Res α) (s : Str) (fn : Footnotes.Table) (i : Nat) (c : Char) (st2 : FState) : Res α :=
  if !st2.escaped then
    if c = '[' then
      if !st2.inImage then K (i + 1) (pushDelim st2 (mkDelim i (i + 1) s))
      else K (i + 1) { pushDelim st2 (mkDelim (i - 1) (i + 1) s) with inImage := false }
    else if c = '!' then K (i + 1) { st2 with inImage := true }
    else if c = ']' then
      match findLinkImageNB s i st2.ds st2.ms fn with
      | .err e => .err e
      | .ok (i', ds', ms') => K (i' + 1) { st2 with ds := ds', ms := ms', code := codeSearch s i' }
    else if st2.inImage then K (i + 1) { st2 with inImage := false }
    else K (i + 1) st2
  else K (i + 1) { st2 with escaped := false, inImage := false }

def restExprNB {α} (K : Nat → FState → Res α) (s : Str) (fn : Footnotes.Table) (i : Nat) (c : Char) (st : FState) : Res α :=
  if c = '\\' && !st.escaped then K (i + 1) { st with escaped := true }
  else tailExprNB K s fn i c (st2Of i c (st1Of s i c st))

/-- the character loop of `find_core_tokens`, with `find_link_image` without bottoms -/
def coreLoopNB (s : Str) (fn : Footnotes.Table) : Nat → Nat → FState → Res (Nat × FState)
  | 0, _, _ => .err .fuel
  | fuel + 1, i, st =>
    match s[i]? with
    | none => .ok (i, st)
    | some c =>
      if (match st.code with | some cm => i == cm.start | none => false) then
        match st.code with
        | none => .err .type
        | some cm => codeExpr (coreLoopNB s fn fuel) s i st cm
      else restExprNB (coreLoopNB s fn fuel) s fn i c st

/-- `find_core_tokens` with every `process_emphasis` replaced by the loop without bottoms -/
def findCoreTokensNB (s : Str) (fn : Footnotes.Table) : Res (List CoreM × List CodeM) :=
  match coreLoopNB s fn (s.length + 2) 0 { code := codeSearch s 0 } with
  | .err e => .err e
  | .ok (i, st) =>
    let st1 := if st.inRun.isSome then pushDelim st (mkDelim st.start (if !st.escaped then i else i - 1) s) else st
    match processEmphasisNB s none st1.ds st1.ms with
    | .err e => .err e
    | .ok (_, ms) => .ok (ms.reverse, st1.codes.reverse)

theorem lastBracket_type : ∀ (l : List Delim) (i : Nat) (acc : Option Nat) (k : Nat),
    lastBracket l i acc = some k → acc = some k ∨
      ∃ d, i ≤ k ∧ l[k - i]? = some d ∧ (d.type == ['['] || d.type == ['!', '[']) = true
  | [], _, _, _, h => by left; simpa [lastBracket] using h
  | d :: rest, i, acc, k, h => by
    simp only [lastBracket] at h
    rcases lastBracket_type rest (i + 1) _ k h with h1 | ⟨d', h1, h2, h3⟩
    · split at h1
      · rename_i hc
        cases h1
        right; exact ⟨d, Nat.le_refl _, by simp, hc⟩
      · left; exact h1
    · right
      refine ⟨d', by omega, ?_, h3⟩
      have : k - i = (k - (i + 1)) + 1 := by omega
      rw [this, List.getElem?_cons_succ]; exact h2

theorem findLinkImage_eq_noBottoms (s : Str) (offset : Nat) (ds : List Delim) (ms : List CoreM) (fn : Footnotes.Table)
    (hi : Nat) (hG : GInv s hi ds ms) (hhi : hi ≤ s.length) :
    findLinkImage s offset ds ms fn = findLinkImageNB s offset ds ms fn := by
  unfold findLinkImage findLinkImageNB
  cases hl : lastBracket ds 0 none with
  | none => rfl
  | some i =>
    simp only
    cases hd : ds[i]? with
    | none => rfl
    | some d =>
      simp only
      have hpe : processEmphasis s (some i) ds ms = processEmphasisNB s (some i) ds ms := by
        apply processEmphasis_eq_noBottoms s (some i) 0 hi hhi ds ms hG.cinv.dinv.chain
        intro x d' hx hd'
        cases hx
        rw [hd] at hd'; cases hd'
        rcases lastBracket_type ds 0 none i hl with h | ⟨d', _, h2, h3⟩
        · cases h
        · simp only [Nat.sub_zero] at h2
          rw [hd] at h2; cases h2
          cases he : d.emph with
          | false => rfl
          | true =>
            obtain ⟨ch, hty, hrun, _⟩ := hG.cinv.eok d (List.mem_of_getElem? hd) he
            have hpos := (hG.cinv.dinv.chain.mem d (List.mem_of_getElem? hd)).1.pos
            have hhead : d.type.head? = some ch := by
              rw [hty, List.head?_replicate, if_neg (by omega)]
            simp only [Bool.or_eq_true, beq_iff_eq] at h3
            rcases h3 with h3 | h3 <;> rw [h3] at hhead <;> simp at hhead <;>
              rcases hrun with hrun | hrun <;> rw [hrun] at hhead <;> cases hhead
      rw [hpe]
      rfl

/-- the continuation that just returns its arguments -/
def retK (i : Nat) (st : FState) : Res (Nat × FState) := .ok (i, st)

/-- the loop body calls its continuation at most once, as the last thing it does -/
theorem tailExpr_nat {α} (K : Nat → FState → Res α) (s : Str) (fn : Footnotes.Table) (i : Nat) (c : Char) (st2 : FState) :
    tailExpr K s fn i c st2 =
      match tailExpr retK s fn i c st2 with
      | .err e => .err e
      | .ok (i', st') => K i' st' := by
  unfold tailExpr
  cases st2.escaped
  · simp only [Bool.not_false, if_true]
    by_cases h1 : c = '['
    · simp only [h1, if_true]
      cases st2.inImage <;> rfl
    · simp only [h1, if_false]
      by_cases h2 : c = '!'
      · simp only [h2, if_true]; rfl
      · simp only [h2, if_false]
        by_cases h3 : c = ']'
        · simp only [h3, if_true]
          cases findLinkImage s i st2.ds st2.ms fn with
          | err e => rfl
          | ok r => rfl
        · simp only [h3, if_false]
          cases st2.inImage <;> rfl
  · rfl

theorem restExpr_nat {α} (K : Nat → FState → Res α) (s : Str) (fn : Footnotes.Table) (i : Nat) (c : Char) (st : FState) :
    restExpr K s fn i c st =
      match restExpr retK s fn i c st with
      | .err e => .err e
      | .ok (i', st') => K i' st' := by
  unfold restExpr
  split
  · rfl
  · exact tailExpr_nat K s fn i c _

theorem tailExprNB_eq {α} (K : Nat → FState → Res α) (s : Str) (fn : Footnotes.Table) (i : Nat) (c : Char) (st2 : FState)
    (h : Mid s (GInv s) (RunOf s) (Harmless s) TightAt i c st2) (hi : i < s.length) :
    tailExprNB K s fn i c st2 = tailExpr K s fn i c st2 := by
  unfold tailExprNB tailExpr
  by_cases h3 : c = ']'
  · cases hr : st2.inRun with
    | some ch =>
      obtain ⟨hch, hcc, _⟩ := h.run ch hr
      rw [h3] at hcc
      rcases hch with h' | h' <;> rw [h'] at hcc <;> cases hcc
    | none =>
      have hG := h.norun hr
      rw [findLinkImage_eq_noBottoms s i st2.ds st2.ms fn _ hG (by split <;> omega)]
      rfl
  · simp only [h3, if_false]

theorem restExprNB_eq {α} (K : Nat → FState → Res α) (s : Str) (fn : Footnotes.Table) (i : Nat) (c : Char) (st : FState)
    (h : FInv s (GInv s) (RunOf s) (Harmless s) TightAt i st) (hc : s[i]? = some c) :
    restExprNB K s fn i c st = restExpr K s fn i c st := by
  unfold restExprNB restExpr
  split
  · rfl
  · exact tailExprNB_eq K s fn i c _ (mid_of_inv (loopInv_ginv s fn) i c st h hc) (List.getElem?_eq_some_iff.1 hc).1

/-- the character loop is the same with and without bottoms -/
theorem coreLoop_eq_noBottoms (s : Str) (fn : Footnotes.Table) : ∀ (fuel i : Nat) (st : FState),
    FInv s (GInv s) (RunOf s) (Harmless s) TightAt i st → coreLoop s fn fuel i st = coreLoopNB s fn fuel i st
  | 0, _, _, _ => rfl
  | fuel + 1, i, st, h => by
    rw [coreLoop_succ, coreLoopNB]
    cases hc : s[i]? with
    | none => rfl
    | some c =>
      simp only
      have hrest : restExpr (coreLoop s fn fuel) s fn i c st = restExprNB (coreLoopNB s fn fuel) s fn i c st := by
        rw [restExprNB_eq _ s fn i c st h hc]
        obtain ⟨i', st3, he, _, _, hinv⟩ := rest_spec (loopInv_ginv s fn) retK i c st h hc
        rw [restExpr_nat (coreLoop s fn fuel), restExpr_nat (coreLoopNB s fn fuel), he]
        exact coreLoop_eq_noBottoms s fn fuel (i' + 1) st3 hinv
      cases hcm : st.code with
      | none => simpa using hrest
      | some cm =>
        simp only
        by_cases hcs : i = cm.start
        · rw [if_pos (by simp [hcs]), if_pos (by simp [hcs])]
          obtain ⟨st3, he, _, hinv⟩ := code_spec (loopInv_ginv s fn) retK i st cm h hcm hcs
          have e1 : ∀ K : Nat → FState → Res (Nat × FState), codeExpr K s i st cm =
              match codeExpr retK s i st cm with
              | .err e => .err e
              | .ok (i', st') => K i' st' := fun K => rfl
          rw [e1 (coreLoop s fn fuel), e1 (coreLoopNB s fn fuel), he]
          exact coreLoop_eq_noBottoms s fn fuel cm.stop st3 hinv
        · rw [if_neg (by simp [hcs]), if_neg (by simp [hcs])]
          exact hrest

/-- **`find_core_tokens` does not depend on the bottoms of `process_emphasis`**: for every text and
    every table of definitions it returns exactly what it returns when every `process_emphasis`
    call searches openers down to the stack bottom. -/
theorem findCoreTokens_eq_noBottoms (s : Str) (fn : Footnotes.Table) :
    findCoreTokens s fn = findCoreTokensNB s fn := by
  have h0 : GInv s 0 [] [] :=
    ⟨⟨⟨Nat.le_refl _, fun m hm => (by cases hm), List.Pairwise.nil⟩, fun d hd => (by cases hd),
      fun m hm => (by cases hm)⟩, List.Pairwise.nil, fun m hm => (by cases hm)⟩
  have hinit : FInv s (GInv s) (RunOf s) (Harmless s) TightAt 0 { code := codeSearch s 0 } :=
    finv_norun 0 _ (Nat.zero_le _) rfl h0 (fun c x hx => by cases hx)
      (fun cm h => codeSearch_spec s 0 cm h) (fun h => by cases h)
  obtain ⟨st, ds, h1, hds, h2⟩ := findCoreTokens_loop (loopInv_ginv s fn) h0 (fun c x hx => by cases hx)
  have h1' := h1
  rw [coreLoop_eq_noBottoms s fn _ 0 _ hinit] at h1'
  unfold findCoreTokens findCoreTokensNB
  rw [h1, h1']
  simp only
  rw [← hds, processEmphasis_eq_noBottoms s none 0 s.length (Nat.le_refl _) ds _ h2.cinv.dinv.chain
    (fun x d hx => by cases hx)]
  rfl

end Mistletoe.Core
