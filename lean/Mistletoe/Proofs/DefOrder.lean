/-
  C07 — the call order of `append_footnotes` IS document order.

  `Props/C07.lean` proves "first definition wins" over the list `st.defs` of definitions in the order
  the block phase hands them to `append_footnotes`, and that every inline tokenization of the document
  sees the one table `footnotesOf st.defs` (`C07_two_phase`).  Here the missing link: `st.defs` is
  exactly the sequence of matches of the definition entries (`.footnote` / `.linkRefDefs`) of the parse
  buffer read in document pre-order, descending into block quotes and list items (`defsOfEntries`).
  So the table is a function of that pre-order sequence alone: where a definition sits (before or after
  a use, at top level or nested) cannot matter, and the winner for a label is the first definition in
  document order whose normalised label equals it.

  Proof: simultaneous induction over the shared `gas` of `tokenizeBlock`/`tokLoop`/`tryTypes`/`readList`
  (same scheme as `all_ok`, `all_wf`, `all_ld`).
-/
import Mistletoe.Model.Block
import Mistletoe.Model.Document
import Mistletoe.Model.Config
import Mistletoe.Props.C07
namespace Mistletoe.Block
open Mistletoe Mistletoe.Py Mistletoe.Scan

/-! ### definitions of a parse tree in document (pre-)order -/

mutual
/-- the link reference definitions registered by one buffer entry, in document order -/
def defsOfEntry : Entry → List FnMatch
  | .blockCode _ _ _ => []
  | .heading _ _ _ _ _ => []
  | .quote inner _ _ _ => defsOfEntries inner
  | .codeFence _ _ _ _ _ _ _ => []
  | .thematicBreak _ _ _ => []
  | .list items _ _ => defsOfItems items
  | .table _ _ _ _ => []
  | .footnote ms _ _ => ms
  | .linkRefDefs ms _ _ => ms
  | .paragraph _ _ _ => []
  | .setext _ _ _ => []
  | .htmlBlock _ _ _ => []
  | .blankLine _ _ => []
def defsOfEntries : List Entry → List FnMatch
  | [] => []
  | e :: es => defsOfEntry e ++ defsOfEntries es
def defsOfItem : Item → List FnMatch
  | .mk inner _ _ _ _ _ _ => defsOfEntries inner
def defsOfItems : List Item → List FnMatch
  | [] => []
  | i :: is => defsOfItem i ++ defsOfItems is
end

theorem defsOfEntries_append : ∀ (a b : List Entry), defsOfEntries (a ++ b) = defsOfEntries a ++ defsOfEntries b
  | [], b => by simp [defsOfEntries]
  | x :: xs, b => by
    simp only [List.cons_append, defsOfEntries, List.append_assoc]
    rw [defsOfEntries_append xs b]

theorem defsOfItems_append : ∀ (a b : List Item), defsOfItems (a ++ b) = defsOfItems a ++ defsOfItems b
  | [], b => by simp [defsOfItems]
  | x :: xs, b => by
    simp only [List.cons_append, defsOfItems, List.append_assoc]
    rw [defsOfItems_append xs b]

theorem defsOfEntries_snoc (a : List Entry) (e : Entry) :
    defsOfEntries (e :: a).reverse = defsOfEntries a.reverse ++ defsOfEntry e := by
  rw [List.reverse_cons, defsOfEntries_append]
  simp [defsOfEntries]

theorem defsOfItems_snoc (a : List Item) (i : Item) :
    defsOfItems (i :: a).reverse = defsOfItems a.reverse ++ defsOfItem i := by
  rw [List.reverse_cons, defsOfItems_append]
  simp [defsOfItems]

/-! ### the simultaneous induction -/

/-- `tokenize_block`: the state grows by exactly the definitions of the returned buffer, in pre-order -/
def TokD (cfg : Cfg) (gas : Nat) : Prop :=
  ∀ (lines : List Line) (start : Nat) (st : St) (b : Buf) (st' : St),
    tokenizeBlock cfg gas lines start st = .ok (b, st') → st'.defs = st.defs ++ defsOfEntries b.entries

/-- the loop (accumulator reversed): if the state holds `d0` plus the definitions of the entries
    accumulated so far, the final state holds `d0` plus the definitions of the whole buffer -/
def LoopD (cfg : Cfg) (gas : Nat) : Prop :=
  ∀ (fw : FW) (st : St) (acc : List Entry) (loose : Bool) (b : Buf) (st' : St) (d0 : List FnMatch),
    tokLoop cfg gas fw st acc loose = .ok (b, st') → st.defs = d0 ++ defsOfEntries acc.reverse →
    st'.defs = d0 ++ defsOfEntries b.entries

/-- the dispatcher: an entry is returned together with a state grown by exactly that entry's definitions
    (the definition branches that found nothing, `ms = []`, go on with `st.defs ++ [] = st.defs`) -/
def TryD (cfg : Cfg) (gas : Nat) : Prop :=
  ∀ (fw : FW) (st : St) (l : Line) (ts : List BTok) (e : Entry) (fw' : FW) (st' : St),
    tryTypes cfg gas fw st l ts = .ok (some (e, fw', st')) → st'.defs = st.defs ++ defsOfEntry e

/-- `List.read` (items accumulated in reverse) -/
def ListD (cfg : Cfg) (gas : Nat) : Prop :=
  ∀ (fw : FW) (st : St) (ld) (nm) (acc : List Item) (r : List Item × FW × St) (d0 : List FnMatch),
    readList cfg gas fw st ld nm acc = .ok r → st.defs = d0 ++ defsOfItems acc.reverse →
    r.2.2.defs = d0 ++ defsOfItems r.1

theorem list_d_stop (st' : St) (items : List Item) (fwEnd : FW) (rr : List Item × FW × St) (d0 : List FnMatch)
    (hi : st'.defs = d0 ++ defsOfItems items.reverse)
    (he : (Res.ok ((match items with
            | .mk inner loose i p l n g :: rest => Item.mk inner (decide (inner.length > 1) && loose) i p l n g :: rest
            | [] => []).reverse, fwEnd, st') : Res _) = .ok rr) : rr.2.2.defs = d0 ++ defsOfItems rr.1 := by
  cases he
  cases items with
  | nil => simpa using hi
  | cons x xs =>
    cases x
    simp only
    rw [defsOfItems_snoc] at hi ⊢
    simpa [defsOfItem] using hi

theorem list_d (cfg : Cfg) (gas : Nat) (hT : TokD cfg gas) (hL : ListD cfg gas) : ListD cfg (gas + 1) := by
  intro fw st ld nm acc r d0 h hacc
  simp only [readList] at h
  split at h
  · exact list_d_stop st acc _ r d0 hacc h
  split at h
  · cases h
  · rename_i il hil
    have key : ∀ (item : Item) (itemLeader : Str) (next : Option (Nat × Nat × Str × Str)) (fw' : FW) (st' : St),
        (match il with
          | .empty ind pre ldr ln og next fw' => (Res.ok (Item.mk [] true ind pre ldr ln og, ldr, next, fw', st) : Res _)
          | .lines buf cstart ind pre ldr ln og next fw' =>
            match tokenizeBlock cfg gas buf cstart st with
            | .err e => .err e
            | .ok (b, st') => .ok (Item.mk b.entries b.loose ind pre ldr ln og, ldr, next, fw', st'))
          = .ok (item, itemLeader, next, fw', st') → st'.defs = st.defs ++ defsOfItem item := by
      intro item itemLeader next fw' st' he
      cases il with
      | empty ind pre ldr ln og nx fwx =>
        simp only at he; cases he
        simp [defsOfItem, defsOfEntries]
      | lines buf cstart ind pre ldr ln og nx fwx =>
        simp only at he
        split at he
        · cases he
        · rename_i b stb hb
          cases he
          simpa [defsOfItem] using hT _ _ _ _ _ hb
    split at h
    · cases h
    · rename_i item itemLeader next fw' st' hres
      have hk := key item itemLeader next fw' st' hres
      have hacc' : st'.defs = d0 ++ defsOfItems (item :: acc).reverse := by
        rw [hk, hacc, defsOfItems_snoc, List.append_assoc]
      split at h
      · split at h
        · exact list_d_stop st' _ _ r d0 hacc' h
        · exact hL fw' st' _ _ _ r d0 h hacc'
      · split at h
        · exact list_d_stop st' _ _ r d0 hacc' h
        · exact hL fw' st' _ _ _ r d0 h hacc'

theorem try_d (cfg : Cfg) (gas : Nat) (hT : TokD cfg gas) (hL : ListD cfg gas) (hY : TryD cfg gas) :
    TryD cfg (gas + 1) := by
  intro fw st l ts e fw' st' h
  cases ts with
  | nil => simp [tryTypes] at h
  | cons t ts =>
    have ih := fun fw2 st2 (h2 : tryTypes cfg gas fw2 st2 l ts = .ok (some (e, fw', st'))) =>
      hY fw2 st2 l ts e fw' st' h2
    unfold tryTypes at h
    cases t <;> simp only at h
    · -- htmlBlock
      split at h
      · cases h
      · exact ih fw st h
      · cases h; simp [defsOfEntry]
    · -- blockCode
      split at h
      · cases h; simp [defsOfEntry]
      · exact ih fw st h
    · -- heading
      split at h
      · cases h; simp [defsOfEntry]
      · exact ih fw st h
    · -- quote
      split at h
      · split at h
        · cases h
        · split at h
          · cases h
          · rename_i b stb hb
            cases h
            simpa [defsOfEntry] using hT _ _ _ _ _ hb
      · exact ih fw st h
    · -- codeFence
      split at h
      · cases h; simp [defsOfEntry]
      · exact ih fw st h
    · -- thematicBreak
      split at h
      · cases h; simp [defsOfEntry]
      · exact ih fw st h
    · -- list
      split at h
      · split at h
        · cases h
        · rename_i items fwl stl hrl
          cases h
          have := hL fw st none none [] _ st.defs hrl (by simp [defsOfItems])
          simpa [defsOfEntry] using this
      · exact ih fw st h
    · -- table
      split at h
      · split at h
        · cases h; simp [defsOfEntry]
        · exact ih fw st h
      · exact ih fw st h
    · -- footnote
      split at h
      · split at h
        · cases h
        · rename_i ms fwf hrf
          split at h
          · rename_i hemp
            have hms : ms = [] := by simpa using hemp
            have := ih _ _ h
            simpa [hms] using this
          · cases h; simp [defsOfEntry]
      · exact ih fw st h
    · -- paragraph
      split at h
      · split at h
        · cases h
        · cases h; simp [defsOfEntry]
        · cases h; simp [defsOfEntry]
      · exact ih fw st h
    · -- blankLine
      split at h
      · cases h; simp [defsOfEntry]
      · exact ih fw st h
    · -- linkRefDefBlock
      split at h
      · split at h
        · cases h
        · rename_i ms fwf hrf
          split at h
          · rename_i hemp
            have hms : ms = [] := by simpa using hemp
            have := ih _ _ h
            simpa [hms] using this
          · cases h; simp [defsOfEntry]
      · exact ih fw st h

theorem loop_d (cfg : Cfg) (gas : Nat) (hY : TryD cfg gas) (hPl : LoopD cfg gas) : LoopD cfg (gas + 1) := by
  intro fw st acc loose b st' d0 h hacc
  simp only [tokLoop] at h
  split at h
  · cases h; exact hacc
  · rename_i l hp
    split at h
    · cases h
    · rename_i e fw2 st2 ht
      refine hPl fw2 st2 _ loose b st' d0 h ?_
      rw [hY fw st l cfg.types e fw2 st2 ht, hacc, defsOfEntries_snoc, List.append_assoc]
    · exact hPl fw.next st acc true b st' d0 h hacc

theorem tok_d (cfg : Cfg) (gas : Nat) (hPl : LoopD cfg gas) : TokD cfg (gas + 1) := by
  intro lines start st b st' h
  simp only [tokenizeBlock] at h
  exact hPl _ _ _ _ _ _ st.defs h (by simp [defsOfEntries])

theorem all_d (cfg : Cfg) : ∀ (gas : Nat), TokD cfg gas ∧ LoopD cfg gas ∧ TryD cfg gas ∧ ListD cfg gas
  | 0 => by
    refine ⟨?_, ?_, ?_, ?_⟩
    · intro lines start st b st' h; simp [tokenizeBlock] at h
    · intro fw st acc loose b st' d0 h; simp [tokLoop] at h
    · intro fw st l ts e fw' st' h; simp [tryTypes] at h
    · intro fw st ld nm acc r d0 h; simp [readList] at h
  | gas + 1 => by
    obtain ⟨hT, hPl, hY, hL⟩ := all_d cfg gas
    exact ⟨tok_d cfg gas hPl, loop_d cfg gas hY hPl, try_d cfg gas hT hL hY, list_d cfg gas hT hL⟩

/-- **`tokenize_block` registers exactly the definitions of the buffer it returns, in document
    pre-order** (at every nesting depth: the nested calls for quotes and list items included). -/
theorem tokenizeBlock_defs (cfg : Cfg) (gas : Nat) (lines : List Line) (start : Nat) (st : St) (b : Buf) (st' : St)
    (h : tokenizeBlock cfg gas lines start st = .ok (b, st')) :
    st'.defs = st.defs ++ defsOfEntries b.entries :=
  (all_d cfg gas).1 lines start st b st' h

theorem tokLoop_defs (cfg : Cfg) (gas : Nat) (fw : FW) (st : St) (acc : List Entry) (loose : Bool) (b : Buf) (st' : St)
    (d0 : List FnMatch) (h : tokLoop cfg gas fw st acc loose = .ok (b, st'))
    (hacc : st.defs = d0 ++ defsOfEntries acc.reverse) : st'.defs = d0 ++ defsOfEntries b.entries :=
  (all_d cfg gas).2.1 fw st acc loose b st' d0 h hacc

theorem tryTypes_defs (cfg : Cfg) (gas : Nat) (fw : FW) (st : St) (l : Line) (ts : List BTok) (e : Entry) (fw' : FW)
    (st' : St) (h : tryTypes cfg gas fw st l ts = .ok (some (e, fw', st'))) :
    st'.defs = st.defs ++ defsOfEntry e :=
  (all_d cfg gas).2.2.1 fw st l ts e fw' st' h

theorem readList_defs (cfg : Cfg) (gas : Nat) (fw : FW) (st : St) (ld) (nm) (acc : List Item)
    (r : List Item × FW × St) (d0 : List FnMatch) (h : readList cfg gas fw st ld nm acc = .ok r)
    (hacc : st.defs = d0 ++ defsOfItems acc.reverse) : r.2.2.defs = d0 ++ defsOfItems r.1 :=
  (all_d cfg gas).2.2.2 fw st ld nm acc r d0 h hacc

/-- the block phase of a document: the registered definitions are the definitions of the parse buffer
    in document order -/
theorem blockPhase_defs (cfg : Cfg) (gas : Nat) (lines : List Str) (b : Buf) (st : St)
    (h : blockPhase cfg gas lines = .ok (b, st)) : st.defs = defsOfEntries b.entries := by
  have := tokenizeBlock_defs cfg gas _ 1 {} b st h
  simpa using this

end Mistletoe.Block

namespace Mistletoe.Props.C07
open Mistletoe Mistletoe.Py Mistletoe.Footnotes Mistletoe.Block Mistletoe.Document

/-- **The table is built from the definitions of the parse tree in document order.**  If
    `Document(lines)` returns `d`, the definitions the block phase registered (`st.defs`, in
    `append_footnotes` call order) are exactly the matches of the definition entries of the parse
    buffer in pre-order, quotes and list items included; and `d.footnotes` is the first-wins table over
    that sequence. -/
theorem C07_table_is_document_order (cfg : Document.Cfg) (gas : Nat) (lines : List Str) (d : Doc)
    (h : parseLines cfg gas lines = .ok d) :
    ∃ buf st, blockPhase cfg.block gas lines = .ok (buf, st) ∧
      st.defs = defsOfEntries buf.entries ∧
      d.footnotes = Document.footnotesOf (defsOfEntries buf.entries) := by
  obtain ⟨buf, st, hb, hf, _⟩ := C07_two_phase cfg gas lines d h
  have hd := blockPhase_defs cfg.block gas lines buf st hb
  exact ⟨buf, st, hb, hd, by rw [hf, hd]⟩

/-- **Position independence**: the table depends on nothing but the pre-order sequence of definition
    matches.  Two documents (whatever their configurations, gas, other content, and wherever their
    definitions sit: top level, quote, list item, before or after uses) whose parse buffers carry the
    same sequence of definitions have the same `footnotes` table. -/
theorem C07_position_independent (cfg₁ cfg₂ : Document.Cfg) (gas₁ gas₂ : Nat) (lines₁ lines₂ : List Str)
    (d₁ d₂ : Doc) (buf₁ buf₂ : Buf) (st₁ st₂ : St)
    (h₁ : parseLines cfg₁ gas₁ lines₁ = .ok d₁) (h₂ : parseLines cfg₂ gas₂ lines₂ = .ok d₂)
    (hb₁ : blockPhase cfg₁.block gas₁ lines₁ = .ok (buf₁, st₁))
    (hb₂ : blockPhase cfg₂.block gas₂ lines₂ = .ok (buf₂, st₂))
    (hsame : defsOfEntries buf₁.entries = defsOfEntries buf₂.entries) :
    d₁.footnotes = d₂.footnotes := by
  obtain ⟨b₁, s₁, hb₁', _, hf₁⟩ := C07_table_is_document_order cfg₁ gas₁ lines₁ d₁ h₁
  obtain ⟨b₂, s₂, hb₂', _, hf₂⟩ := C07_table_is_document_order cfg₂ gas₂ lines₂ d₂ h₂
  rw [hb₁] at hb₁'; rw [hb₂] at hb₂'
  cases hb₁'; cases hb₂'
  rw [hf₁, hf₂, hsame]

/-- **First in document order wins.**  If `Document(lines)` returns `d`, a reference with label `lbl`
    resolves, in `d.footnotes`, to the (unescaped) destination and title of the FIRST match, in the
    pre-order sequence of the definition entries of the parse buffer, whose label equals `lbl` after
    normalisation (whitespace collapsing and case folding); it resolves to nothing exactly when there is
    no such definition anywhere in the document. -/
theorem C07_first_in_document_order (cfg : Document.Cfg) (gas : Nat) (lines : List Str) (d : Doc)
    (h : parseLines cfg gas lines = .ok d) (lbl : Str) :
    ∃ buf st, blockPhase cfg.block gas lines = .ok (buf, st) ∧
      resolve d.footnotes lbl =
        ((defsOfEntries buf.entries).find? (fun m => normalizeLabel m.label == normalizeLabel lbl)).map
          (fun m => (Unescape.escStrip false (strip m.dest), Unescape.escStrip false m.title)) := by
  obtain ⟨buf, st, hb, _, hf⟩ := C07_table_is_document_order cfg gas lines d h
  refine ⟨buf, st, hb, ?_⟩
  rw [hf]
  unfold Document.footnotesOf
  rw [C07_first_wins, List.find?_map, Option.map_map]
  rfl

/-- **No definition in the document ⇒ the reference does not resolve** (it stays literal text). -/
theorem C07_unresolved_in_document (cfg : Document.Cfg) (gas : Nat) (lines : List Str) (d : Doc)
    (h : parseLines cfg gas lines = .ok d) (lbl : Str) :
    ∃ buf st, blockPhase cfg.block gas lines = .ok (buf, st) ∧
      ((∀ m ∈ defsOfEntries buf.entries, normalizeLabel m.label ≠ normalizeLabel lbl) →
        resolve d.footnotes lbl = none) := by
  obtain ⟨buf, st, hb, hr⟩ := C07_first_in_document_order cfg gas lines d h lbl
  refine ⟨buf, st, hb, fun hno => ?_⟩
  rw [hr]
  have : (defsOfEntries buf.entries).find? (fun m => normalizeLabel m.label == normalizeLabel lbl) = none := by
    rw [List.find?_eq_none]
    intro m hm
    simpa using hno m hm
  simp [this]

/-! ### Non-vacuity: a use BEFORE both definitions; the first definition sits inside a block quote
    inside a list item; a duplicate label (other case) follows at top level; `[bar]` has no definition.

    ```
    [foo] use          line 1
                       line 2
    - > [Foo]: /nested 't1'      line 3
                       line 4
    [FOO]: /top        line 5
                       line 6
    [bar]              line 7
    ```
    Real code: `Document(text).footnotes == {'foo': ('/nested', 't1')}` (HTML renderer and Markdown
    renderer token lists alike), `[foo]` renders as `<a href="/nested" title="t1">foo</a>`, `[bar]` stays. -/

/-- the `HtmlRenderer` token lists, as regenerated from /repo (`Config.html`) -/
def demoCfg : Document.Cfg :=
  match Config.html with
  | some c => c
  | none => { block := { types := [] }, span := [] }

/-- the `MarkdownRenderer` token lists, as regenerated from /repo (`Config.markdown`):
    `LinkReferenceDefinitionBlock` and `BlankLine` in place of `Footnote` -/
def demoCfgMd : Document.Cfg :=
  match Config.markdown with
  | some c => c
  | none => { block := { types := [] }, span := [] }

example : demoCfg.block.types = [.htmlBlock, .blockCode, .heading, .quote, .codeFence, .thematicBreak, .list, .table, .footnote, .paragraph] := by
  decide +kernel
example : demoCfgMd.block.types = [.linkRefDefBlock, .blankLine, .htmlBlock, .blockCode, .heading, .quote, .codeFence, .thematicBreak, .list, .table, .paragraph] := by
  decide +kernel

def demoLines : List Str :=
  ["[foo] use\n", "\n", "- > [Foo]: /nested 't1'\n", "\n", "[FOO]: /top\n", "\n", "[bar]\n"].map String.toList

/-- the shape of the buffer: paragraph, list [item [quote [definition]]], definition, paragraph — the
    nested definition is two containers deep -/
example : (match blockPhase demoCfg.block 60 demoLines with
    | .ok (b, _) => b.entries.map (fun e => match e with
        | .list [.mk [.quote [.footnote ms _ _] _ _ _] _ _ _ _ _ _] _ _ => ms.map (·.dest)
        | .footnote ms _ _ => ms.map (·.dest)
        | _ => [])
    | .err _ => []) = [[], ["/nested".toList], ["/top".toList], []] := by decide +kernel

/-- the pre-order sequence of definitions: the nested one first, the top-level duplicate second; and it
    is the sequence the block phase registered -/
example : (match blockPhase demoCfg.block 60 demoLines with
    | .ok (b, st) => if st.defs = defsOfEntries b.entries then (defsOfEntries b.entries).map (fun m => (m.label, m.dest, m.title)) else []
    | .err _ => []) =
    [("Foo".toList, "/nested".toList, "t1".toList), ("FOO".toList, "/top".toList, [])] := by decide +kernel

/-- the same under the Markdown renderer's token list (`.linkRefDefs` entries) -/
example : (match blockPhase demoCfgMd.block 60 demoLines with
    | .ok (b, st) => if st.defs = defsOfEntries b.entries then (defsOfEntries b.entries).map (fun m => (m.label, m.dest, m.title)) else []
    | .err _ => []) =
    [("Foo".toList, "/nested".toList, "t1".toList), ("FOO".toList, "/top".toList, [])] := by decide +kernel

/-- the document's table has the single key `foo`, bound to the NESTED (earlier in document order)
    definition; the use on line 1 (before both definitions) resolves to it; `[bar]` does not resolve -/
example : (match Document.parseLines demoCfg 60 demoLines with
    | .ok d => (d.footnotes, resolve d.footnotes "foo".toList, resolve d.footnotes "bar".toList)
    | .err _ => ([], none, none)) =
    ([("foo".toList, "/nested".toList, "t1".toList)], some ("/nested".toList, "t1".toList), none) := by decide +kernel

example : (match Document.parseLines demoCfgMd 60 demoLines with
    | .ok d => d.footnotes
    | .err _ => []) = [("foo".toList, "/nested".toList, "t1".toList)] := by decide +kernel

/-- `C07_table_is_document_order` and `C07_first_in_document_order` apply to the demo (the hypothesis
    `parseLines … = .ok d` is satisfiable) -/
example : ∃ d, Document.parseLines demoCfg 60 demoLines = .ok d ∧
    ∃ buf st, blockPhase demoCfg.block 60 demoLines = .ok (buf, st) ∧
      st.defs = defsOfEntries buf.entries ∧
      d.footnotes = Document.footnotesOf (defsOfEntries buf.entries) := by
  cases h : Document.parseLines demoCfg 60 demoLines with
  | err e =>
    have : (match Document.parseLines demoCfg 60 demoLines with | .ok _ => true | .err _ => false) = true := by
      decide +kernel
    rw [h] at this; cases this
  | ok d => exact ⟨d, rfl, C07_table_is_document_order demoCfg 60 demoLines d h⟩

/-- position independence on an instance: the same two definitions, both at top level and BEFORE the
    use, give the same table as the demo -/
def demoLinesFlat : List Str :=
  ["[Foo]: /nested 't1'\n", "[FOO]: /top\n", "\n", "[foo] use\n"].map String.toList

example : (match blockPhase demoCfg.block 60 demoLines, blockPhase demoCfg.block 60 demoLinesFlat with
    | .ok (b₁, _), .ok (b₂, _) => decide (defsOfEntries b₁.entries = defsOfEntries b₂.entries)
    | _, _ => false) = true := by decide +kernel

example : (match Document.parseLines demoCfg 60 demoLines, Document.parseLines demoCfg 60 demoLinesFlat with
    | .ok d₁, .ok d₂ => decide (d₁.footnotes = d₂.footnotes)
    | _, _ => false) = true := by decide +kernel

end Mistletoe.Props.C07
