/-
  Helper lemmas for C12 (traversal): the breadth-first loop yields a permutation of the
  pre-order list of descendants, each with its true parent and depth.
-/
import Mistletoe.Model.Traverse
namespace Mistletoe.Traverse

def res (d : Nat) (pc : RTree × RTree) : Result := { node := pc.2, parent := some pc.1, depth := d }

/-- All nodes below a level, with the level's nodes themselves, pre-order per pair. -/
def descLevel (d : Nat) (level : List (RTree × RTree)) : List Result :=
  level.flatMap (fun pc => res d pc :: descendants (d + 1) pc.2)

theorem descendantsL_eq (d : Nat) (p : RTree) (ks : List RTree) :
    descendantsL d p ks = descLevel d (ks.map (fun c => (p, c))) := by
  induction ks with
  | nil => rfl
  | cons k ks ih =>
    simp only [descendantsL, List.map_cons, descLevel, List.flatMap_cons, res, List.cons_append]
    rw [ih]; rfl

theorem descendants_eq (d : Nat) (p : RTree) : descendants d p = descLevel d (childPairs p) := by
  cases p with
  | node i c kids => simp only [descendants, childPairs, RTree.kids]; exact descendantsL_eq d _ kids

theorem emit_all (d : Nat) (level : List (RTree × RTree)) :
    emit (fun _ => true) d level = level.map (res d) := by
  have : level.filter (fun _ => true) = level := by simp
  simp only [emit, this]
  rfl

theorem perm_flatMap_cons {α β} (f : α → β) (g : α → List β) (l : List α) :
    (l.flatMap (fun x => f x :: g x)).Perm (l.map f ++ l.flatMap g) := by
  induction l with
  | nil => exact List.Perm.refl _
  | cons x xs ih =>
    simp only [List.flatMap_cons, List.map_cons, List.cons_append]
    refine List.Perm.cons _ ?_
    -- g x ++ rest ~ map f xs ++ (g x ++ flatMap g xs)
    have h1 : (g x ++ xs.flatMap (fun x => f x :: g x)).Perm (g x ++ (xs.map f ++ xs.flatMap g)) :=
      List.Perm.append_left _ ih
    refine h1.trans ?_
    rw [← List.append_assoc, ← List.append_assoc]
    exact List.Perm.append_right _ List.perm_append_comm

/-- One level peeled off. -/
theorem descLevel_step (d : Nat) (level : List (RTree × RTree)) :
    (descLevel d level).Perm (emit (fun _ => true) d level ++ descLevel (d + 1) (nextLevel level)) := by
  rw [emit_all]
  have : descLevel (d + 1) (nextLevel level) = level.flatMap (fun pc => descendants (d + 1) pc.2) := by
    simp only [descLevel, nextLevel, List.flatMap_assoc]
    congr 1; funext pc
    rw [descendants_eq]; rfl
  rw [this]
  exact perm_flatMap_cons (res d) (fun pc => descendants (d + 1) pc.2) level

def heightLevel (level : List (RTree × RTree)) : Nat := heightL (level.map (·.2))

theorem height_pos (t : RTree) : 1 ≤ height t := by
  cases t; simp [height]

theorem heightL_append (a b : List RTree) : heightL (a ++ b) = max (heightL a) (heightL b) := by
  induction a with
  | nil => simp [heightL]
  | cons x xs ih => simp only [List.cons_append, heightL, ih]; omega

theorem heightL_kids (t : RTree) : heightL t.kids + 1 = height t := by
  cases t; simp [height, RTree.kids]

theorem heightLevel_next (level : List (RTree × RTree)) :
    heightLevel (nextLevel level) + 1 ≤ max 1 (heightLevel level) := by
  induction level with
  | nil => simp [nextLevel, heightLevel, heightL]
  | cons pc rest ih =>
    simp only [nextLevel, List.flatMap_cons, heightLevel, List.map_append, heightL_append, List.map_cons, heightL] at ih ⊢
    have hk : heightL ((childPairs pc.2).map (·.2)) = heightL pc.2.kids := by
      simp [childPairs, List.map_map, Function.comp_def]
    rw [hk]
    have := heightL_kids pc.2
    omega

theorem heightLevel_zero (level : List (RTree × RTree)) (h : heightLevel level = 0) : level = [] := by
  cases level with
  | nil => rfl
  | cons pc rest =>
    simp only [heightLevel, List.map_cons, heightL] at h
    have := height_pos pc.2
    omega

/-- The loop, unfiltered and without depth limit, enumerates a permutation of `descLevel`. -/
theorem loop_perm (fuel cur : Nat) (level : List (RTree × RTree)) (hf : heightLevel level ≤ fuel) :
    (loop (fun _ => true) none fuel cur level).Perm (descLevel (cur + 1) level) := by
  induction fuel generalizing cur level with
  | zero =>
    have : level = [] := heightLevel_zero level (by omega)
    subst this; exact List.Perm.refl _
  | succ f ih =>
    simp only [loop]
    split
    · rename_i he
      have : level = [] := by cases level <;> simp_all
      subst this; exact List.Perm.refl _
    · simp only [withinLimit, if_true]
      have hn := heightLevel_next level
      have := ih (cur + 1) (nextLevel level) (by omega)
      exact (List.Perm.append_left _ this).trans (descLevel_step (cur + 1) level).symm

theorem heightLevel_childPairs (t : RTree) : heightLevel (childPairs t) + 1 = height t := by
  have hk : heightL ((childPairs t).map (·.2)) = heightL t.kids := by
    simp [childPairs, List.map_map, Function.comp_def]
  simp only [heightLevel, hk]; exact heightL_kids t

theorem emit_filter (klass : Nat → Bool) (d : Nat) (level : List (RTree × RTree)) :
    emit klass d level = (emit (fun _ => true) d level).filter (fun r => klass r.node.cls) := by
  simp [emit, List.filter_map, Function.comp_def]

/-- Filtering by class commutes with the loop. -/
theorem loop_filter (klass : Nat → Bool) (limit : Option Nat) (fuel cur : Nat) (level : List (RTree × RTree)) :
    loop klass limit fuel cur level =
      (loop (fun _ => true) limit fuel cur level).filter (fun r => klass r.node.cls) := by
  induction fuel generalizing cur level with
  | zero => rfl
  | succ f ih =>
    simp only [loop]
    by_cases he : level.isEmpty = true
    · simp [he]
    · have he' : level.isEmpty = false := by simpa using he
      simp only [he', Bool.false_eq_true, if_false]
      by_cases hl : withinLimit limit cur = true
      · simp only [hl, if_true]
        rw [List.filter_append, ← ih, ← emit_filter]
      · simp [hl]

end Mistletoe.Traverse
