/-
  C01 for the HTML family (HtmlRenderer, TocRenderer, GithubWikiRenderer, MathJaxRenderer,
  PygmentsRenderer): every document the parser produces under a renderer's own token lists is a tree
  on which that renderer raises nowhere, i.e. `Html.supported o d = true` (Model/Html.lean,
  "On which trees the Python raises": a token class without `render_map` entry -> KeyError; a
  `column_align` entry outside {None, 0, 1}; a table header / row / cell of the wrong kind where
  `render_table_row` / `render_table_cell` are called directly).

  `Html.render` / `Html.renderFlavored` are total functions to `Str`; `C01_html_total` (Props/C01.lean)
  therefore only said "the model function returns".  What was missing is proved here: a PARSED document
  is inside `supported`, so the string the model returns is the string the Python returns (no raise).

  Part 1  the inline phase only makes tokens of the classes in the span-token list (`clsH o`: HtmlSpan
          needs `process_html_tokens`, Math the MathJax flavour, GithubWiki the GithubWiki flavour);
          the children of an image — walked by `render_to_plain` only — are always `plainOk`.
  Part 2  `Table.parse_align` gives None / 0 / 1, `zip_longest` pads with None: every TableCell of a
          parsed table has `alignOk`; header = one TableRow of TableCells.
  Part 3  the block token constructors on a buffer without BlankLine / LinkReferenceDefinitionBlock
          entries (`Contrib.EntryClean`, Proofs/ContribTotal.lean) and — unless `process_html_tokens` —
          without HtmlBlock entries (`Latex.EntryLx`, Proofs/LatexTotal.lean) give a supported tree
          (`parse_supported`, generic in the configuration and the options).
  Part 4  the regenerated configurations (`Config.html`, `Config.htmlNoRaw`, `Config.toc`,
          `Config.githubWiki`, `Config.mathjax`, `Config.pygments`): `parse_supported_html`,
          `parse_supported_htmlNoRaw`, `parse_supported_toc`, `parse_supported_githubWiki`,
          `parse_supported_mathjax`, `parse_supported_pygments`.
  Part 5  `C01_html_family_supported`, `C01_html_family_total`, `C01_html_noraw_supported`,
          `C01_html_noraw_total`; sharpness and non-vacuity (kernel-evaluated).

  Pygments: `supportedBlock` of the model is FALSE on BlockCode / CodeFence under the pygments flavour
  (the Pygments library — `highlight`, `guess_lexer`, `get_lexer_by_name` — is not modelled), so the
  statement for that flavour is "supported exactly when the document has no code block at any depth"
  (`ContribSame.noCodeBlocks`); everything outside code blocks is covered.
-/
import Mistletoe.Proofs.ContribSame
import Mistletoe.Proofs.HtmlEndToEnd

namespace Mistletoe.HtmlFamily
open Mistletoe Mistletoe.Block Mistletoe.Inline Mistletoe.Html

/-! ## Part 1: the inline phase only makes tokens the flavour has a render function for -/

/-- the span-token classes whose tokens the renderer with options `o` can render: HtmlSpan has a
    `render_map` entry only with `process_html_tokens`, Math only in MathJaxRenderer, GithubWiki only in
    GithubWikiRenderer; the XWiki macro tokens never -/
def clsH (o : Opts) : STok → Bool
  | .htmlSpan => o.processHtml
  | .math => o.flavor == .mathjax
  | .githubWiki => o.flavor == .githubWiki
  | .xwikiMacroStart => false
  | .xwikiMacroEnd => false
  | _ => true

theorem inlineCodeOf_plain (s : Str) (m : InlineScan.CodeM) : plainOk1 (inlineCodeOf s m) = true := by
  unfold inlineCodeOf
  simp only
  split <;> rfl

theorem inlineCodeOf_sup (o : Opts) (s : Str) (m : InlineScan.CodeM) : supportedInline o (inlineCodeOf s m) = true := by
  unfold inlineCodeOf
  simp only
  split <;> rfl

mutual
/-- `render_to_plain` never fails on what the inline phase builds (every token has `children` or
    `content`; a LinkReferenceDefinition is never a span token), whatever the token list -/
theorem build_plain (s : Str) (found : List Found) : ∀ (out : Span.Out), plainOk1 (build s found out) = true
  | .raw a b => by simp [build, plainOk1]
  | .tok c kids => by
    have ih := builds_plain s found kids
    simp only [build]
    split
    · rfl
    · split
      all_goals first
        | rfl
        | exact ih
        | exact inlineCodeOf_plain s _
        | (split <;> exact ih)
theorem builds_plain (s : Str) (found : List Found) : ∀ (os : List Span.Out), plainOk (builds s found os) = true
  | [] => rfl
  | out :: os => by
    simp only [builds, plainOk, Bool.and_eq_true]
    exact ⟨build_plain s found out, builds_plain s found os⟩
end

mutual
theorem build_sup (o : Opts) (s : Str) (found : List Found) (hf : ∀ f ∈ found, clsH o f.cls = true) :
    ∀ (out : Span.Out), supportedInline o (build s found out) = true
  | .raw a b => by simp [build, supportedInline]
  | .tok c kids => by
    have ih := builds_sup o s found hf kids
    have ihp := builds_plain s found kids
    simp only [build]
    split
    · rfl
    · rename_i f hfe
      have hc := hf f (List.mem_of_getElem? hfe)
      split
      all_goals first
        | rfl
        | exact ih
        | exact inlineCodeOf_sup o s _
        | (split <;> first | exact ih | exact ihp)
        | (rename_i hcls _; rw [hcls] at hc; exact hc)
        | (rename_i hcls; rw [hcls] at hc; exact hc)
        | (rename_i hcls _; rw [hcls] at hc; exact absurd hc (by simp [clsH]))
        | (rename_i hcls _; rw [hcls] at hc; simp only [supportedInline, Bool.and_eq_true]; exact ⟨hc, ih⟩)
        | (rename_i hcls; rw [hcls] at hc; simp only [supportedInline, Bool.and_eq_true]; exact ⟨hc, ih⟩)
theorem builds_sup (o : Opts) (s : Str) (found : List Found) (hf : ∀ f ∈ found, clsH o f.cls = true) :
    ∀ (os : List Span.Out), supportedInlines o (builds s found os) = true
  | [] => rfl
  | out :: os => by
    simp only [builds, supportedInlines, Bool.and_eq_true]
    exact ⟨build_sup o s found hf out, builds_sup o s found hf os⟩
end

/-- **`tokenize_inner` under a span-token list all of whose classes the renderer with options `o` has a
    render function for only returns tokens it can render**, at every depth (an image's children, which only
    `render_to_plain` walks, included) -/
theorem tokenizeInner_sup (o : Opts) (types : List STok) (ht : ∀ t ∈ types, clsH o t = true)
    (fn : Footnotes.Table) (s : Str) (ks : List Inline) (h : tokenizeInner types fn s = .ok ks) :
    supportedInlines o ks = true := by
  unfold tokenizeInner at h
  split at h
  · cases h
  · rename_i found hfound
    cases h
    apply builds_sup
    intro f hf
    have key : ∀ (cr : Res (List Core.CoreM × List InlineScan.CodeM)),
        (match cr with
          | .err e => (Res.err e : Res (List Found))
          | .ok (core, codes) => .ok (types.flatMap (findOne s core codes))) = .ok found → clsH o f.cls = true := by
      intro cr hcr
      split at hcr
      · cases hcr
      · cases hcr
        obtain ⟨t, htm, hft⟩ := List.mem_flatMap.mp hf
        rw [Contrib.findOne_cls _ _ _ t f hft]
        exact ht t htm
    exact key _ hfound

/-! ## Part 2: tables — `column_align` entries are None / 0 / 1, rows are TableRows of TableCells -/

/-- `Table.parse_align` returns None, 0 or 1 -/
theorem parseAlign_ok (col : Str) (a : Option Nat) (h : Document.parseAlign col = .ok a) : alignOk a = true := by
  unfold Document.parseAlign at h
  split at h
  · cases h
    split
    · split <;> rfl
    · rfl
  · cases h

theorem mapRes_parseAlign_ok : ∀ (cols : List Str) (al : List (Option Nat)),
    Document.mapRes Document.parseAlign cols = .ok al → ∀ a ∈ al, alignOk a = true
  | [], al, h => by simp only [Document.mapRes] at h; cases h; intro a ha; cases ha
  | c :: cs, al, h => by
    simp only [Document.mapRes] at h
    split at h
    · cases h
    · rename_i a ha
      split at h
      · cases h
      · rename_i more hm
        cases h
        intro x hx
        rcases List.mem_cons.mp hx with rfl | hx
        · exact parseAlign_ok c _ ha
        · exact mapRes_parseAlign_ok cs more hm x hx

/-- `zip_longest(cells, row_align)` pads the alignments with None -/
theorem zipLongest_align : ∀ (cells : List Str) (al : List (Option Nat)), (∀ a ∈ al, alignOk a = true) →
    ∀ z ∈ Document.zipLongest cells al, alignOk z.2 = true
  | [], al, h, z, hz => by
    simp only [Document.zipLongest, List.mem_map] at hz
    obtain ⟨a, ha, rfl⟩ := hz
    exact h a ha
  | c :: cs, [], h, z, hz => by
    simp only [Document.zipLongest, List.mem_cons] at hz
    rcases hz with rfl | hz
    · rfl
    · exact zipLongest_align cs [] h z hz
  | c :: cs, a :: as, h, z, hz => by
    simp only [Document.zipLongest, List.mem_cons] at hz
    rcases hz with rfl | hz
    · exact h a (List.mem_cons_self ..)
    · exact zipLongest_align cs as (fun x hx => h x (List.mem_cons_of_mem _ hx)) z hz

/-- the hypothesis on the inline phase (discharged by `tokenizeInner_sup`) -/
def InlSup (o : Opts) (cfg : Document.Cfg) (fn : Footnotes.Table) : Prop :=
  ∀ (s : Str) (ks : List Inline), Document.inl cfg fn s = .ok ks → supportedInlines o ks = true

theorem tableRow_go_sup (o : Opts) (cfg : Document.Cfg) (fn : Footnotes.Table) (hinl : InlSup o cfg fn) (ln : Nat) :
    ∀ (zs : List (Option Str × Option Nat)) (cs : List Mistletoe.Block), (∀ z ∈ zs, alignOk z.2 = true) →
      Document.tableRow.go cfg fn ln zs = .ok cs → supportedCells o cs = true
  | [], cs, _, h => by simp only [Document.tableRow.go] at h; cases h; rfl
  | (c, a) :: rest, cs, hz, h => by
    simp only [Document.tableRow.go] at h
    split at h
    · cases h
    · rename_i kids hk
      split at h
      · cases h
      · rename_i more hm
        cases h
        simp only [supportedCells, Bool.and_eq_true]
        exact ⟨⟨hz (c, a) (List.mem_cons_self ..), hinl _ _ hk⟩,
          tableRow_go_sup o cfg fn hinl ln rest more (fun z hzm => hz z (List.mem_cons_of_mem _ hzm)) hm⟩

/-- `TableRow(line, row_align, line_number)` is a TableRow whose children are TableCells with a known
    alignment and renderable content: fine as a `header` (`render_table_row` called directly) and as a row -/
theorem tableRow_sup (o : Opts) (cfg : Document.Cfg) (fn : Footnotes.Table) (hinl : InlSup o cfg fn)
    (line : Str) (al : List (Option Nat)) (hal : ∀ a ∈ al, alignOk a = true) (ln : Nat) (r : Mistletoe.Block)
    (h : Document.tableRow cfg fn line al ln = .ok r) : supportedRows o [r] = true ∧ supportedBlock o r = true := by
  unfold Document.tableRow at h
  simp only at h
  split at h
  · cases h
  · rename_i cs hcs
    cases h
    have hal' : ∀ a ∈ (if al.isEmpty = true then [none] else al), alignOk a = true := by
      intro a ha
      split at ha
      · rcases List.mem_singleton.mp ha with rfl
        rfl
      · exact hal a ha
    have := tableRow_go_sup o cfg fn hinl ln _ cs (zipLongest_align _ _ hal') hcs
    refine ⟨?_, ?_⟩
    · simp only [supportedRows, Bool.and_true]; exact this
    · simp only [supportedBlock]; exact this

theorem tableRows_sup (o : Opts) (cfg : Document.Cfg) (fn : Footnotes.Table) (hinl : InlSup o cfg fn) :
    ∀ (ls : List Str) (al : List (Option Nat)), (∀ a ∈ al, alignOk a = true) → ∀ (ln : Nat) (rs : List Mistletoe.Block),
      Document.tableRows cfg fn ls al ln = .ok rs → supportedBlocks o rs = true
  | [], _, _, _, rs, h => by simp only [Document.tableRows] at h; cases h; rfl
  | l :: rest, al, hal, ln, rs, h => by
    simp only [Document.tableRows] at h
    split at h
    · cases h
    · rename_i r hr
      split at h
      · cases h
      · rename_i more hm
        cases h
        simp only [supportedBlocks, Bool.and_eq_true]
        exact ⟨(tableRow_sup o cfg fn hinl l al hal ln r hr).2, tableRows_sup o cfg fn hinl rest al hal (ln + 1) more hm⟩

/-! ## Part 3: the block token constructors -/

mutual
/-- hypotheses on the buffer entry: no BlankLine / LinkReferenceDefinitionBlock entry at any depth
    (`Contrib.EntryClean`); no HtmlBlock entry at any depth (`Latex.EntryLx`) unless HtmlBlock has a
    `render_map` entry (`process_html_tokens`).  `hpy`: the flavour renders code blocks in the model. -/
theorem mkBlock_sup (o : Opts) (hpy : o.flavor ≠ .pygments) (cfg : Document.Cfg) (fn : Footnotes.Table) (hinl : InlSup o cfg fn) :
    ∀ (e : Entry), Contrib.EntryClean e → (o.processHtml = true ∨ Latex.EntryLx e) →
      ∀ (b : Mistletoe.Block), Document.mkBlock cfg fn e = .ok (some b) → supportedBlock o b = true
  | .blockCode ls ln og, _, _, b, h => by
    simp only [Document.mkBlock] at h; cases h; simp [supportedBlock, hpy]
  | .heading lvl content closing ln og, _, _, b, h => by
    simp only [Document.mkBlock] at h
    split at h
    · cases h
    · rename_i kids hk; cases h; exact hinl _ _ hk
  | .quote inner lo ln og, hc, hp, b, h => by
    simp only [Document.mkBlock] at h
    split at h
    · cases h
    · rename_i kids hk
      cases h
      exact mkBlocks_sup o hpy cfg fn hinl inner (by simpa [Contrib.EntryClean] using hc)
        (hp.imp id (fun hx => by simpa [Latex.EntryLx] using hx)) kids hk
  | .codeFence ls p ld info lang ln og, _, _, b, h => by
    simp only [Document.mkBlock] at h; cases h; simp [supportedBlock, hpy]
  | .thematicBreak line ln og, _, _, b, h => by simp only [Document.mkBlock] at h; cases h; rfl
  | .list items ln og, hc, hp, b, h => by
    simp only [Document.mkBlock] at h
    split at h
    · cases h
    · rename_i its hits
      have hi := mkItems_sup o hpy cfg fn hinl items (by simpa [Contrib.EntryClean] using hc)
        (hp.imp id (fun hx => by simpa [Latex.EntryLx] using hx)) its hits
      split at h
      · cases h
      · cases h; exact hi
  | .table lines sl ln og, _, _, b, h => by
    simp only [Document.mkBlock] at h
    split at h
    · rename_i l0 l1 rest
      split at h
      · split at h
        · cases h
        · rename_i align hal
          split at h
          · cases h
          · rename_i header hh
            split at h
            · cases h
            · rename_i rows hr
              cases h
              have hA := mapRes_parseAlign_ok _ _ hal
              simp only [supportedBlock, Bool.and_eq_true]
              exact ⟨(tableRow_sup o cfg fn hinl _ _ hA _ _ hh).1, tableRows_sup o cfg fn hinl _ _ hA _ _ hr⟩
      · split at h
        · cases h
        · rename_i rows hr
          cases h
          simp only [supportedBlock, supportedRows, Bool.true_and]
          exact tableRows_sup o cfg fn hinl _ [] (fun a ha => by cases ha) _ _ hr
    · cases h
  | .footnote ms ln og, _, _, b, h => by simp only [Document.mkBlock] at h; cases h
  | .linkRefDefs ms ln og, hc, _, _, _ => by simp [Contrib.EntryClean] at hc
  | .paragraph lines ln og, _, _, b, h => by
    simp only [Document.mkBlock] at h
    split at h
    · cases h
    · rename_i kids hk; cases h; exact hinl _ _ hk
  | .setext lines ln og, _, _, b, h => by
    simp only [Document.mkBlock] at h
    split at h
    · cases h
    · split at h
      · cases h
      · rename_i kids hk; cases h; exact hinl _ _ hk
  | .htmlBlock lines ln og, _, hp, b, h => by
    simp only [Document.mkBlock] at h
    cases h
    rcases hp with hp | hp
    · simp only [supportedBlock]; exact hp
    · simp [Latex.EntryLx] at hp
  | .blankLine ln og, hc, _, _, _ => by simp [Contrib.EntryClean] at hc
theorem mkBlocks_sup (o : Opts) (hpy : o.flavor ≠ .pygments) (cfg : Document.Cfg) (fn : Footnotes.Table) (hinl : InlSup o cfg fn) :
    ∀ (es : List Entry), Contrib.EntriesClean es → (o.processHtml = true ∨ Latex.EntriesLx es) →
      ∀ (bs : List Mistletoe.Block), Document.mkBlocks cfg fn es = .ok bs → supportedBlocks o bs = true
  | [], _, _, bs, h => by simp only [Document.mkBlocks] at h; cases h; rfl
  | e :: es, hc, hp, bs, h => by
    simp only [Contrib.EntriesClean] at hc
    have hp1 : o.processHtml = true ∨ Latex.EntryLx e := hp.imp id (fun hx => by simp only [Latex.EntriesLx] at hx; exact hx.1)
    have hp2 : o.processHtml = true ∨ Latex.EntriesLx es := hp.imp id (fun hx => by simp only [Latex.EntriesLx] at hx; exact hx.2)
    simp only [Document.mkBlocks] at h
    split at h
    · cases h
    · rename_i b hb
      split at h
      · cases h
      · rename_i bs' hbs
        cases h
        have ih := mkBlocks_sup o hpy cfg fn hinl es hc.2 hp2 bs' hbs
        cases b with
        | none => exact ih
        | some x =>
          simp only [supportedBlocks, Bool.and_eq_true]
          exact ⟨mkBlock_sup o hpy cfg fn hinl e hc.1 hp1 x hb, ih⟩
theorem mkItems_sup (o : Opts) (hpy : o.flavor ≠ .pygments) (cfg : Document.Cfg) (fn : Footnotes.Table) (hinl : InlSup o cfg fn) :
    ∀ (is : List Item), Contrib.ItemsClean is → (o.processHtml = true ∨ Latex.ItemsLx is) →
      ∀ (bs : List Mistletoe.Block), Document.mkItems cfg fn is = .ok bs → supportedBlocks o bs = true
  | [], _, _, bs, h => by simp only [Document.mkItems] at h; cases h; rfl
  | .mk inner lo ind pre ld ln og :: rest, hc, hp, bs, h => by
    simp only [Contrib.ItemsClean, Contrib.ItemClean] at hc
    have hp1 : o.processHtml = true ∨ Latex.EntriesLx inner :=
      hp.imp id (fun hx => by simp only [Latex.ItemsLx, Latex.ItemLx] at hx; exact hx.1)
    have hp2 : o.processHtml = true ∨ Latex.ItemsLx rest :=
      hp.imp id (fun hx => by simp only [Latex.ItemsLx, Latex.ItemLx] at hx; exact hx.2)
    simp only [Document.mkItems] at h
    split at h
    · cases h
    · rename_i kids hk
      split at h
      · cases h
      · rename_i more hm
        cases h
        simp only [supportedBlocks, supportedBlock, Bool.and_eq_true]
        exact ⟨mkBlocks_sup o hpy cfg fn hinl inner hc.1 hp1 kids hk, mkItems_sup o hpy cfg fn hinl rest hc.2 hp2 more hm⟩
end

/-- **every document `Document(lines)` returns is a tree on which the HTML-family renderer with options
    `o` raises nowhere**, for every configuration whose block list has no BlankLine /
    LinkReferenceDefinitionBlock (and no HtmlBlock unless `process_html_tokens`) and whose span classes
    all have a render function under `o` (`clsH`) — for every list of lines and every gas.
    (`hpy`: for the pygments flavour the model declares code blocks unsupported; see
    `parse_supported_pygments`.) -/
theorem parseLines_supported (o : Opts) (hpy : o.flavor ≠ .pygments) (cfg : Document.Cfg)
    (hbl : .blankLine ∉ cfg.block.types) (hlr : .linkRefDefBlock ∉ cfg.block.types)
    (hhb : o.processHtml = true ∨ .htmlBlock ∉ cfg.block.types)
    (hsp : ∀ t ∈ cfg.span, clsH o t = true)
    (gas : Nat) (lines : List Str) (d : Doc) (h : Document.parseLines cfg gas lines = .ok d) : supported o d = true := by
  unfold Document.parseLines at h
  split at h
  · cases h
  · rename_i buf st hb
    simp only at h
    split at h
    · cases h
    · rename_i kids hk
      cases h
      exact mkBlocks_sup o hpy cfg _ (fun s ks hs => tokenizeInner_sup o cfg.span hsp _ s ks hs) _
        (Contrib.blockPhase_clean cfg.block hbl hlr gas lines buf st hb)
        (hhb.imp id (fun hx => Latex.blockPhase_lx cfg.block hx hbl hlr gas lines buf st hb)) kids hk

theorem parse_supported (o : Opts) (hpy : o.flavor ≠ .pygments) (cfg : Document.Cfg)
    (hbl : .blankLine ∉ cfg.block.types) (hlr : .linkRefDefBlock ∉ cfg.block.types)
    (hhb : o.processHtml = true ∨ .htmlBlock ∉ cfg.block.types)
    (hsp : ∀ t ∈ cfg.span, clsH o t = true)
    (gas : Nat) (t : Str) (d : Doc) (h : Document.parse cfg gas t = .ok d) : supported o d = true :=
  parseLines_supported o hpy cfg hbl hlr hhb hsp gas _ d h

/-! ## Part 4: the regenerated configurations of the five renderers -/

/-- reading the lists off a regenerated configuration -/
theorem lists_of (c : Option Document.Cfg) (cfg : Document.Cfg) (hc : c = some cfg) (b : List BTok) (s : List STok)
    (h : c.map (fun c => (c.block.types, c.span)) = some (b, s)) : cfg.block.types = b ∧ cfg.span = s := by
  rw [hc] at h
  simp only [Option.map_some, Option.some.injEq, Prod.mk.injEq] at h
  exact h

/-- HtmlRenderer's block list (also TocRenderer's, GithubWikiRenderer's, MathJaxRenderer's, PygmentsRenderer's) -/
def htmlBlockList : List BTok :=
  [.htmlBlock, .blockCode, .heading, .quote, .codeFence, .thematicBreak, .list, .table, .footnote, .paragraph]

/-- HtmlRenderer's span list (also TocRenderer's and PygmentsRenderer's) -/
def htmlSpanList : List STok :=
  [.escapeSequence, .htmlSpan, .strikethrough, .autoLink, .coreTokens, .inlineCode, .lineBreak]

theorem html_lists (cfg : Document.Cfg) (hc : Config.html = some cfg) :
    cfg.block.types = htmlBlockList ∧ cfg.span = htmlSpanList :=
  lists_of _ cfg hc _ _ (by decide +kernel)

theorem toc_lists (cfg : Document.Cfg) (hc : Config.toc = some cfg) :
    cfg.block.types = htmlBlockList ∧ cfg.span = htmlSpanList :=
  lists_of _ cfg hc _ _ (by decide +kernel)

theorem pygments_lists (cfg : Document.Cfg) (hc : Config.pygments = some cfg) :
    cfg.block.types = htmlBlockList ∧ cfg.span = htmlSpanList :=
  lists_of _ cfg hc _ _ (by decide +kernel)

theorem githubWiki_lists (cfg : Document.Cfg) (hc : Config.githubWiki = some cfg) :
    cfg.block.types = htmlBlockList ∧
    cfg.span = [.escapeSequence, .githubWiki, .htmlSpan, .strikethrough, .autoLink, .coreTokens, .inlineCode, .lineBreak] :=
  lists_of _ cfg hc _ _ (by decide +kernel)

theorem mathjax_lists (cfg : Document.Cfg) (hc : Config.mathjax = some cfg) :
    cfg.block.types = htmlBlockList ∧
    cfg.span = [.escapeSequence, .htmlSpan, .math, .strikethrough, .autoLink, .coreTokens, .inlineCode, .lineBreak] :=
  lists_of _ cfg hc _ _ (by decide +kernel)

theorem all_of_rfl {α} (p : α → Bool) (l : List α) (h : l.all p = true) : ∀ t ∈ l, p t = true :=
  List.all_eq_true.mp h

/-- **HtmlRenderer (default: `process_html_tokens=True`)**: every parsed document is supported; HtmlBlock
    and HtmlSpan tokens may occur and have their `render_map` entries. -/
theorem parse_supported_html (o : Opts) (cfg : Document.Cfg) (hc : Config.html = some cfg) (gas : Nat) (t : Str) (d : Doc)
    (h : Document.parse cfg gas t = .ok d) : supported { o with flavor := .html, processHtml := true } d = true := by
  obtain ⟨hb, hs⟩ := html_lists cfg hc
  exact parse_supported _ (by simp) cfg (by rw [hb]; decide) (by rw [hb]; decide) (.inl rfl)
    (by rw [hs]; exact all_of_rfl _ _ rfl) gas t d h

/-- **HtmlRenderer(process_html_tokens=False)**: the two HTML token classes are not installed
    (`Config.htmlNoRaw`, regenerated), no HtmlBlock / HtmlSpan token occurs, and every parsed document is
    supported although these two classes have no `render_map` entry — whatever value the model option
    `processHtml` has (in particular `false`, the value that describes this renderer). -/
theorem parse_supported_htmlNoRaw (o : Opts) (cfg : Document.Cfg) (hc : Config.htmlNoRaw = some cfg) (gas : Nat) (t : Str) (d : Doc)
    (h : Document.parse cfg gas t = .ok d) :
    supported { o with flavor := .html } d = true ∧ Pred.noHtmlBlocks d.kids = true := by
  obtain ⟨hb, hs⟩ := HtmlEndToEnd.htmlNoRaw_lists cfg hc
  refine ⟨?_, HtmlEndToEnd.htmlNoRaw_parse_noHtml cfg hc gas t d h⟩
  exact parse_supported _ (by simp) cfg (by rw [hb]; decide) (by rw [hb]; decide) (.inr (by rw [hb]; decide))
    (by rw [hs]; exact all_of_rfl _ _ rfl) gas t d h

/-- **TocRenderer**: same lists as HtmlRenderer; every parsed document is supported. -/
theorem parse_supported_toc (o : Opts) (cfg : Document.Cfg) (hc : Config.toc = some cfg) (gas : Nat) (t : Str) (d : Doc)
    (h : Document.parse cfg gas t = .ok d) : supported { o with flavor := .toc, processHtml := true } d = true := by
  obtain ⟨hb, hs⟩ := toc_lists cfg hc
  exact parse_supported _ (by simp) cfg (by rw [hb]; decide) (by rw [hb]; decide) (.inl rfl)
    (by rw [hs]; exact all_of_rfl _ _ rfl) gas t d h

/-- **GithubWikiRenderer**: the span list has GithubWiki, and the flavour has `render_github_wiki`. -/
theorem parse_supported_githubWiki (o : Opts) (cfg : Document.Cfg) (hc : Config.githubWiki = some cfg) (gas : Nat) (t : Str) (d : Doc)
    (h : Document.parse cfg gas t = .ok d) : supported { o with flavor := .githubWiki, processHtml := true } d = true := by
  obtain ⟨hb, hs⟩ := githubWiki_lists cfg hc
  exact parse_supported _ (by simp) cfg (by rw [hb]; decide) (by rw [hb]; decide) (.inl rfl)
    (by rw [hs]; exact all_of_rfl _ _ rfl) gas t d h

/-- **MathJaxRenderer**: the span list has Math, and the flavour has `render_math`. -/
theorem parse_supported_mathjax (o : Opts) (cfg : Document.Cfg) (hc : Config.mathjax = some cfg) (gas : Nat) (t : Str) (d : Doc)
    (h : Document.parse cfg gas t = .ok d) : supported { o with flavor := .mathjax, processHtml := true } d = true := by
  obtain ⟨hb, hs⟩ := mathjax_lists cfg hc
  exact parse_supported _ (by simp) cfg (by rw [hb]; decide) (by rw [hb]; decide) (.inl rfl)
    (by rw [hs]; exact all_of_rfl _ _ rfl) gas t d h

/-- **PygmentsRenderer**: same lists as HtmlRenderer.  The model declares the pygments flavour faithful
    exactly outside code blocks (`highlight` is not modelled), so: a parsed document is supported EXACTLY
    when it contains no BlockCode / CodeFence at any depth — every other token is rendered by HtmlRenderer's
    functions, for which the document is supported. -/
theorem parse_supported_pygments (o : Opts) (cfg : Document.Cfg) (hc : Config.pygments = some cfg) (gas : Nat) (t : Str) (d : Doc)
    (h : Document.parse cfg gas t = .ok d) :
    supported { o with flavor := .pygments, processHtml := true } d = ContribSame.noCodeBlocks d.kids := by
  obtain ⟨hb, hs⟩ := pygments_lists cfg hc
  have h1 : supported { o with flavor := .html, processHtml := true } d = true :=
    parse_supported _ (by simp) cfg (by rw [hb]; decide) (by rw [hb]; decide) (.inl rfl)
      (by rw [hs]; exact all_of_rfl _ _ rfl) gas t d h
  have h2 := ContribSame.supported_pygments { o with processHtml := true } d
  rw [h1, Bool.true_and] at h2
  exact h2

end Mistletoe.HtmlFamily

namespace Mistletoe.Config
open Mistletoe

/-- the regenerated token lists of the renderer of each flavour (default `process_html_tokens=True`) -/
def ofFlavor : Html.Flavor → Option Document.Cfg
  | .html => html
  | .toc => toc
  | .githubWiki => githubWiki
  | .mathjax => mathjax
  | .pygments => pygments

end Mistletoe.Config

namespace Mistletoe.Props.C01
open Mistletoe Mistletoe.Block Mistletoe.Lines Mistletoe.Html Mistletoe.HtmlFamily

/-- the options of the renderer of flavour `f` built with default `process_html_tokens` and the two
    quote-escaping options of `o` -/
def famOpts (f : Flavor) (o : Opts) : Opts := { o with flavor := f, processHtml := true }

/-- the side condition per flavour: none, except for Pygments (code blocks are outside the model) -/
def famSide (f : Flavor) (d : Doc) : Bool :=
  match f with
  | .pygments => ContribSame.noCodeBlocks d.kids
  | _ => true

/-- **Every document parsed under the token lists of a renderer of the HTML family is a tree on which
    that renderer raises nowhere** — every token at every depth has a `render_map` entry in that renderer
    (HtmlBlock / HtmlSpan; Math under MathJaxRenderer; GithubWiki under GithubWikiRenderer; never BlankLine,
    LinkReferenceDefinition(Block), XWiki macros), every `column_align` entry is None / 0 / 1, every table
    header is a TableRow of TableCells, an image's children all have `content` or `children`.  One statement
    for the five flavours; for Pygments the model's `supported` is, exactly, "no code block" (`famSide`). -/
theorem C01_html_family_supported (f : Flavor) (o : Opts) (cfg : Document.Cfg) (hc : Config.ofFlavor f = some cfg)
    (gas : Nat) (t : Str) (d : Doc) (h : Document.parse cfg gas t = .ok d) :
    supported (famOpts f o) d = famSide f d := by
  cases f
  · exact parse_supported_html o cfg hc gas t d h
  · exact parse_supported_toc o cfg hc gas t d h
  · exact parse_supported_githubWiki o cfg hc gas t d h
  · exact parse_supported_mathjax o cfg hc gas t d h
  · exact parse_supported_pygments o cfg hc gas t d h

/-- **Parse-and-render with a renderer of the HTML family, for every text**: with the token lists the
    renderer installs (regenerated from /repo) and enough gas, `Document(text)` returns a document `d`,
    `d` is supported by that renderer (code blocks aside for Pygments), and so the renderer finds a render
    function for every token and returns the string `Html.renderFlavored (famOpts f o) d`. -/
theorem C01_html_family_total (f : Flavor) (o : Opts) (cfg : Document.Cfg) (hc : Config.ofFlavor f = some cfg)
    (gas : Nat) (t : Str) (hg : gasBound cfg.block (docBuf (normalize (.str t))) ≤ gas) :
    ∃ d, Document.parse cfg gas t = .ok d ∧ supported (famOpts f o) d = famSide f d ∧
      Config.renderContrib (Config.ofFlavor f) (famOpts f o) gas t = some (renderFlavored (famOpts f o) d) := by
  obtain ⟨d, hd⟩ := C01_parse_terminates cfg gas t hg
  exact ⟨d, hd, C01_html_family_supported f o cfg hc gas t d hd, by simp [Config.renderContrib, hc, hd]⟩

/-- for the four flavours other than Pygments the side condition is void -/
theorem C01_html_family_total' (f : Flavor) (hf : f ≠ .pygments) (o : Opts) (cfg : Document.Cfg)
    (hc : Config.ofFlavor f = some cfg) (gas : Nat) (t : Str) (hg : gasBound cfg.block (docBuf (normalize (.str t))) ≤ gas) :
    ∃ d, Document.parse cfg gas t = .ok d ∧ supported (famOpts f o) d = true := by
  obtain ⟨d, hd, hs, _⟩ := C01_html_family_total f o cfg hc gas t hg
  refine ⟨d, hd, ?_⟩
  rw [hs]
  cases f <;> first | rfl | exact absurd rfl hf

/-- **HtmlRenderer(process_html_tokens=False)**: a parsed document contains no HtmlBlock / HtmlSpan token
    and is supported by the renderer WITHOUT the two HTML `render_map` entries. -/
theorem C01_html_noraw_supported (o : Opts) (cfg : Document.Cfg) (hc : Config.htmlNoRaw = some cfg)
    (gas : Nat) (t : Str) (d : Doc) (h : Document.parse cfg gas t = .ok d) :
    supported { o with flavor := .html, processHtml := false } d = true :=
  (parse_supported_htmlNoRaw { o with processHtml := false } cfg hc gas t d h).1

theorem C01_html_noraw_total (o : Opts) (cfg : Document.Cfg) (hc : Config.htmlNoRaw = some cfg)
    (gas : Nat) (t : Str) (hg : gasBound cfg.block (docBuf (normalize (.str t))) ≤ gas) :
    ∃ d, Document.parse cfg gas t = .ok d ∧ supported { o with flavor := .html, processHtml := false } d = true ∧
      Config.renderHtmlNoRaw { o with flavor := .html, processHtml := false } gas t =
        some (render { o with flavor := .html, processHtml := false } d) := by
  obtain ⟨d, hd⟩ := C01_parse_terminates cfg gas t hg
  exact ⟨d, hd, C01_html_noraw_supported o cfg hc gas t d hd, by simp [Config.renderHtmlNoRaw, hc, hd]⟩

/-- **the general form**: ANY configuration without BlankLine / LinkReferenceDefinitionBlock whose span
    classes the flavour renders (e.g. `GithubWikiRenderer(process_html_tokens=False)`: the default lists plus
    GithubWiki, a configuration that is not among the regenerated ones). -/
theorem C01_html_family_supported_general (o : Opts) (hpy : o.flavor ≠ .pygments) (cfg : Document.Cfg)
    (hbl : .blankLine ∉ cfg.block.types) (hlr : .linkRefDefBlock ∉ cfg.block.types)
    (hhb : o.processHtml = true ∨ .htmlBlock ∉ cfg.block.types)
    (hsp : ∀ t ∈ cfg.span, clsH o t = true)
    (gas : Nat) (t : Str) (d : Doc) (h : Document.parse cfg gas t = .ok d) : supported o d = true :=
  parse_supported o hpy cfg hbl hlr hhb hsp gas t d h

/-- the configurations exist: the regenerated lists are known to the model -/
example : ∀ f, (Config.ofFlavor f).isSome = true := by intro f; cases f <;> decide +kernel
example : Config.htmlNoRaw.isSome = true := by decide +kernel

/-! ### Sharpness: `supported` does exclude trees (no parse produces them under the matching lists) -/

/-- a Math token handed to the plain HtmlRenderer (KeyError 'Math'): unsupported under every flavour but
    mathjax -/
example : supported { flavor := .html } ⟨[.paragraph [.math "$x$".toList] 1], []⟩ = false ∧
    supported { flavor := .toc } ⟨[.paragraph [.math "$x$".toList] 1], []⟩ = false ∧
    supported { flavor := .githubWiki } ⟨[.paragraph [.math "$x$".toList] 1], []⟩ = false ∧
    supported { flavor := .pygments } ⟨[.paragraph [.math "$x$".toList] 1], []⟩ = false ∧
    supported { flavor := .mathjax } ⟨[.paragraph [.math "$x$".toList] 1], []⟩ = true := by decide +kernel

/-- a GithubWiki token outside GithubWikiRenderer; raw HTML tokens without `process_html_tokens`; a
    BlankLine; an alignment 2; a header that is not a TableRow; a code block under Pygments -/
example : supported { flavor := .html } ⟨[.paragraph [.githubWiki "b".toList [.rawText "a".toList]] 1], []⟩ = false ∧
    supported { flavor := .githubWiki } ⟨[.paragraph [.githubWiki "b".toList [.rawText "a".toList]] 1], []⟩ = true ∧
    supported { processHtml := false } ⟨[.htmlBlock "<p>".toList 1], []⟩ = false ∧
    supported { processHtml := false } ⟨[.paragraph [.htmlSpan "<b>".toList] 1], []⟩ = false ∧
    supported {} ⟨[.htmlBlock "<p>".toList 1, .paragraph [.htmlSpan "<b>".toList] 2], []⟩ = true ∧
    supported {} ⟨[.blankLine 1], []⟩ = false ∧
    supported {} ⟨[.table [some 2] [] [.tableRow [some 2] [.tableCell (some 2) [] 1] 1] 1], []⟩ = false ∧
    supported {} ⟨[.table [none] [.thematicBreak [] 1] [] 1], []⟩ = false ∧
    supported { flavor := .pygments } ⟨[.blockCode "x\n".toList 1], []⟩ = false ∧
    supported { flavor := .html } ⟨[.blockCode "x\n".toList 1], []⟩ = true := by decide +kernel

/-! ### Non-vacuity: the text "$x$ [[a|b]]" (plus raw HTML and a table) under every configuration -/

/-- parse `t` under `c`, then ask whether the renderer with options `o` supports the document -/
def parsedSupported (c : Option Document.Cfg) (o : Opts) (gas : Nat) (t : Str) : Bool :=
  match c with
  | none => false
  | some cfg =>
    match Document.parse cfg gas t with
    | .ok d => supported o d
    | .err _ => false

def mathWiki : Str := "$x$ [[a|b]]".toList

/-- under each renderer's own lists the parsed document of "$x$ [[a|b]]" is supported by that renderer -/
example : parsedSupported Config.html (famOpts .html {}) 50 mathWiki = true := by decide +kernel
example : parsedSupported Config.toc (famOpts .toc {}) 50 mathWiki = true := by decide +kernel
example : parsedSupported Config.githubWiki (famOpts .githubWiki {}) 50 mathWiki = true := by decide +kernel
example : parsedSupported Config.mathjax (famOpts .mathjax {}) 50 mathWiki = true := by decide +kernel
example : parsedSupported Config.pygments (famOpts .pygments {}) 50 mathWiki = true := by decide +kernel
example : parsedSupported Config.htmlNoRaw { processHtml := false } 50 mathWiki = true := by decide +kernel

/-- … and the lists matter: the document parsed under MathJaxRenderer's lists has a Math token, which the
    plain HtmlRenderer could not render; likewise GithubWiki -/
example : parsedSupported Config.mathjax (famOpts .html {}) 50 mathWiki = false := by decide +kernel
example : parsedSupported Config.githubWiki (famOpts .html {}) 50 mathWiki = false := by decide +kernel
/-- raw HTML parsed under HtmlRenderer's lists is not renderable by `HtmlRenderer(process_html_tokens=False)`'s map -/
example : parsedSupported Config.html { processHtml := false } 50 "a <b>c</b>".toList = false := by decide +kernel
example : parsedSupported Config.htmlNoRaw { processHtml := false } 50 "a <b>c</b>".toList = true := by decide +kernel

/-- what the model returns on the sample, byte for byte the real renderers' outputs
    (`mistletoe.markdown('$x$ [[a|b]]', R)`) -/
example : Config.renderContrib Config.githubWiki (famOpts .githubWiki {}) 50 mathWiki =
    some "<p>$x$ <a href=\"b\">a</a></p>\n".toList := by decide +kernel
example : Config.renderContrib Config.mathjax (famOpts .mathjax {}) 50 mathWiki =
    some ("<p>\\(x\\) [[a|b]]</p>\n".toList ++ Gen.RenderMaps.mathjaxSrc) := by decide +kernel

/-- a table with the three alignments, an image whose description holds emphasis, raw HTML: supported -/
example : parsedSupported Config.html (famOpts .html {}) 80 "|a|b|c|\n|:-|:-:|-:|\n|![*i*](u)|<b>|\n\n<div>\n".toList = true := by
  decide +kernel

/-- Pygments: a document with a code fence is where the model stops -/
example : parsedSupported Config.pygments (famOpts .pygments {}) 50 "```\nx\n```\n".toList = false ∧
    parsedSupported Config.pygments (famOpts .html {}) 50 "```\nx\n```\n".toList = true := by decide +kernel

/-- the theorems applied: the hypotheses (configuration known, gas bound) are satisfiable -/
example : ∃ d, Document.parse (Config.mathjax.get (by decide +kernel)) 2000 mathWiki = .ok d ∧
    supported (famOpts .mathjax {}) d = true :=
  C01_html_family_total' .mathjax (by decide) {} (Config.mathjax.get (by decide +kernel)) (Option.some_get _).symm 2000 _
    (by decide +kernel)

example : ∃ d, Document.parse (Config.githubWiki.get (by decide +kernel)) 2000 mathWiki = .ok d ∧
    supported (famOpts .githubWiki { dq := true }) d = famSide .githubWiki d ∧
    Config.renderContrib (Config.ofFlavor .githubWiki) (famOpts .githubWiki { dq := true }) 2000 mathWiki =
      some (renderFlavored (famOpts .githubWiki { dq := true }) d) :=
  C01_html_family_total .githubWiki { dq := true } (Config.githubWiki.get (by decide +kernel)) (Option.some_get _).symm 2000 _
    (by decide +kernel)

example : ∃ d, Document.parse (Config.htmlNoRaw.get (by decide +kernel)) 2000 "a <b>c</b>".toList = .ok d ∧
    supported { flavor := .html, processHtml := false } d = true ∧
    Config.renderHtmlNoRaw { flavor := .html, processHtml := false } 2000 "a <b>c</b>".toList =
      some (render { flavor := .html, processHtml := false } d) :=
  C01_html_noraw_total {} (Config.htmlNoRaw.get (by decide +kernel)) (Option.some_get _).symm 2000 _ (by decide +kernel)

end Mistletoe.Props.C01
