/-
  C19 end to end: the four separately proved pieces of Props/C19.lean composed into one statement about a
  document tree, and then about a text.

  The pieces: `C19_collection` (the collected `_headings` are the entries of the headings in pre-order at any
  depth), `C19_plain_text_formatted` (the entry of a heading made of raw text / emphasis / strong / strikethrough /
  inline code / escape sequences carries the concatenated leaf text), `C19_lines` (the list lines), `C19_toc_nested`
  (the block phase on the lines of an outline with plain-word titles gives ONE `List` nested as the outline) and
  `C19_toc_config_current` (the token lists of the working tree ask `List` before `Table` and `Paragraph`).

  Here:
  * `docHeadings`, `plainHeadings` (decidable hypothesis: every heading of the document has plain children),
    `qualifies`, `expectedHs` (the qualifying headings with their plain text, in document order);
  * `C19_document_headings` : `collectL q cfg d.kids = expectedHs cfg d`;
  * `expectedHs_eq_map_filter`, `mem_expectedHs` : `expectedHs` in elementary terms (filter, then map; membership);
  * `C19_document_toc` : for every block token list with `List` before `Table`/`Paragraph`, the block phase on
    `tocLines (collectL …)` is ONE list nested as `toForest (expectedHs cfg d)`, whose pre-order flattening is
    `expectedHs cfg d` again;
  * `C19_document_toc_current` : … instantiated for `Config.html`, the TocRenderer's lists, and the lists in force
    after the `with` block is left;
  * `tocOfText`, `C19_text_toc`, `C19_text_toc_current` : the same starting from a text (`Document.parse`);
  * a concrete text (six headings: ATX and setext, one in a block quote, one in a list item, one with `*em*` and
    `` `code` ``, one of level 1, one of level 4; depth 3, omit_title): hypotheses by `decide +kernel`, the theorems
    applied, and the whole pipeline evaluated in the kernel independently of the theorems; /repo gives the same.
-/
import Mistletoe.Props.C19
namespace Mistletoe.Props.C19
open Mistletoe Mistletoe.Html Mistletoe.Toc Mistletoe.Escape

/-! ## 1. The qualifying headings of a document -/

/-- all headings of the document (ATX and setext), in document order, at any nesting depth: level and children -/
def docHeadings (d : Doc) : List (Nat × List Inline) := headingsL d.kids

/-- the heading's children render to attribute-free tags and text the escaper leaves alone -/
def plainHeading (q : Quotes) (h : Nat × List Inline) : Bool := plainInlines h.2 && plainStr q (leafTexts h.2)

/-- **hypothesis on the tree** (decidable): every heading of the document has plain children -/
def plainHeadings (q : Quotes) (d : Doc) : Bool := (docHeadings d).all (plainHeading q)

theorem plainHeadings_iff (q : Quotes) (d : Doc) : plainHeadings q d = true ↔
    ∀ l k, (l, k) ∈ headingsL d.kids → plainInlines k = true ∧ plainStr q (leafTexts k) = true := by
  simp only [plainHeadings, docHeadings, List.all_eq_true, plainHeading, Bool.and_eq_true]
  exact ⟨fun h l k hm => h (l, k) hm, fun h x hm => h x.1 x.2 hm⟩

/-- `not (omit_title and level == 1 or level > depth or any(cond(content) …))` -/
def qualifies (cfg : Toc.Cfg) (l : Nat) (c : Str) : Bool :=
  !(cfg.omitTitle && l == 1) && decide (l ≤ cfg.depth) && !cfg.excluded c

theorem qualifies_iff (cfg : Toc.Cfg) (l : Nat) (c : Str) : qualifies cfg l c = true ↔
    ¬ (cfg.omitTitle = true ∧ l = 1) ∧ l ≤ cfg.depth ∧ cfg.excluded c = false := by
  unfold qualifies
  cases cfg.omitTitle <;> cases cfg.excluded c <;> simp

/-- the entry the expected table of contents has for one heading: its level and plain text, if it qualifies -/
def expectedEntry (cfg : Toc.Cfg) (h : Nat × List Inline) : Option (Nat × Str) :=
  if qualifies cfg h.1 (leafTexts h.2) then some (h.1, leafTexts h.2) else none

/-- **the expected `_headings`**: the qualifying headings with their plain text, in document order.
    (The quote options play no part in it: they enter only through the hypothesis `plainHeadings q d`.) -/
def expectedHs (cfg : Toc.Cfg) (d : Doc) : List (Nat × Str) := (docHeadings d).filterMap (expectedEntry cfg)

/-- in elementary terms: keep the qualifying headings, then take level and plain text -/
theorem expectedHs_eq_map_filter (cfg : Toc.Cfg) (d : Doc) :
    expectedHs cfg d =
      ((docHeadings d).filter (fun h => qualifies cfg h.1 (leafTexts h.2))).map (fun h => (h.1, leafTexts h.2)) := by
  unfold expectedHs
  generalize docHeadings d = hs
  induction hs with
  | nil => rfl
  | cons h hs ih =>
    simp only [List.filterMap_cons, List.filter_cons, expectedEntry]
    cases qualifies cfg h.1 (leafTexts h.2) <;> simp [ih]

theorem mem_expectedHs (cfg : Toc.Cfg) (d : Doc) (l : Nat) (c : Str) : (l, c) ∈ expectedHs cfg d ↔
    ∃ k, (l, k) ∈ headingsL d.kids ∧ c = leafTexts k ∧
      ¬ (cfg.omitTitle = true ∧ l = 1) ∧ l ≤ cfg.depth ∧ cfg.excluded c = false := by
  simp only [expectedHs, docHeadings, List.mem_filterMap, expectedEntry]
  constructor
  · rintro ⟨⟨l', k⟩, hm, he⟩
    split at he
    · rename_i hq
      simp only [Option.some.injEq, Prod.mk.injEq] at he
      obtain ⟨rfl, rfl⟩ := he
      exact ⟨k, hm, rfl, (qualifies_iff cfg _ _).mp hq⟩
    · cases he
  · rintro ⟨k, hm, rfl, hq⟩
    exact ⟨(l, k), hm, by simp [(qualifies_iff cfg l (leafTexts k)).mpr hq]⟩

theorem entryWith_eq (cfg : Toc.Cfg) (l : Nat) (c : Str) :
    entryWith cfg l c = if qualifies cfg l c then [(l, c)] else [] := by
  unfold entryWith qualifies
  by_cases hd : l ≤ cfg.depth
  · have : ¬ l > cfg.depth := by omega
    cases cfg.omitTitle <;> cases (l == 1) <;> cases cfg.excluded c <;> simp [hd, this]
  · have : l > cfg.depth := by omega
    simp [hd, this]

/-! ## 2. The collected headings -/

theorem flatMap_entry_eq (q : Quotes) (cfg : Toc.Cfg) : ∀ (hs : List (Nat × List Inline)),
    (∀ h ∈ hs, plainHeading q h = true) →
    hs.flatMap (fun h => entry q cfg h.1 h.2) = hs.filterMap (expectedEntry cfg)
  | [], _ => rfl
  | h :: hs, hp => by
    have h1 := hp h (List.mem_cons_self ..)
    simp only [plainHeading, Bool.and_eq_true] at h1
    have ih := flatMap_entry_eq q cfg hs (fun x hx => hp x (List.mem_cons_of_mem _ hx))
    rw [List.flatMap_cons, ih, C19_plain_text_formatted q cfg h.1 h.2 h1.1 h1.2, entryWith_eq,
      List.filterMap_cons, expectedEntry]
    cases qualifies cfg h.1 (leafTexts h.2) <;> simp

/-- **C19, the collected headings of a document**: if every heading of the document - at any depth: in block quotes,
    lists, list items - has children made of raw text, emphasis, strong, strikethrough, inline code and escape
    sequences whose text holds no character the HTML escaper changes, then after rendering, `_headings` is exactly
    the list of the qualifying headings (level within `depth`, level 1 left out under `omit_title`, not filtered)
    in document order, each with its level and its plain text. -/
theorem C19_document_headings (q : Quotes) (cfg : Toc.Cfg) (d : Doc) (hp : plainHeadings q d = true) :
    collectL q cfg d.kids = expectedHs cfg d := by
  rw [(C19_collection q cfg d).1]
  exact flatMap_entry_eq q cfg _ (by simpa [plainHeadings, docHeadings, List.all_eq_true] using hp)

/-! ## 3. The table of contents of a document -/

/-- **hypothesis on the expected titles** (decidable): each begins with an ASCII letter and holds no newline - the
    hypothesis of `C19_toc_nested`.  It is about the plain text `leafTexts k` of the qualifying headings; it is
    independent of `plainStr` (which excludes `<`, `>`, `&` but allows any first character). -/
def titlesPlain (hs : List (Nat × Str)) : Bool := hs.all (fun h => Block.plainTitle h.2)

theorem titlesPlain_iff (hs : List (Nat × Str)) : titlesPlain hs = true ↔ ∀ h ∈ hs, Block.plainTitle h.2 = true := by
  simp [titlesPlain, List.all_eq_true]

open Mistletoe.Block in
/-- **C19, the table of contents of a document**.  Let every heading of `d` have plain children, let the qualifying
    headings form an outline (`isOutline`: not empty, none shallower than the first, none more than one level deeper
    than its predecessor) and let their texts be plain-word titles.  Then, for every block token list with `List`
    before `Table` and `Paragraph`, `block_token.tokenize` on the list lines `TocRenderer.toc` builds from the
    collected `_headings` returns exactly ONE `List`, not loose, nested exactly as the outline of the qualifying
    headings (`expItems 0 1 (toForest …)`: one item per heading, a `Paragraph` with its plain text, then - iff deeper
    headings follow - one nested `List`); and that outline, read in pre-order with levels, is the list of qualifying
    headings: one entry per qualifying heading, in document order, carrying the heading's plain text. -/
theorem C19_document_toc (q : Quotes) (cfg : Toc.Cfg) (d : Doc) (hp : plainHeadings q d = true)
    (ho : isOutline (expectedHs cfg d) = true) (ht : titlesPlain (expectedHs cfg d) = true)
    (bcfg : Block.Cfg) (tpre tpost : List BTok) (hc : ListCfg bcfg tpre tpost)
    (gas : Nat) (hg : (bcfg.types.length + 5) * (expectedHs cfg d).length + bcfg.types.length + 4 ≤ gas) :
    blockPhase bcfg gas (Toc.tocLines (collectL q cfg d.kids)) =
      .ok ({ entries := [.list (expItems 0 1 (toForest (expectedHs cfg d))) 1 1], loose := false }, {})
    ∧ ∃ lv, (expectedHs cfg d).head?.map (·.1) = some lv ∧
        flatten lv (toForest (expectedHs cfg d)) = expectedHs cfg d := by
  rw [C19_document_headings q cfg d hp]
  refine ⟨Mistletoe.Props.C19.C19_toc_nested bcfg tpre tpost hc _ ho ((titlesPlain_iff _).mp ht) gas hg, ?_⟩
  obtain ⟨lv, h1, h2⟩ := (C19_outline_iff_levels (expectedHs cfg d)).2 ho
  exact ⟨lv, h1, h2.symm⟩

theorem listCfg_length {bcfg : Block.Cfg} {tpre tpost : List Block.BTok} (hc : Block.ListCfg bcfg tpre tpost) :
    bcfg.types.length = tpre.length + tpost.length + 1 := by
  rw [hc.types]; simp only [List.length_append, List.length_cons]; omega

open Mistletoe.Block in
/-- **… under the token lists of the working tree** (regenerated from /repo): `toc` read inside an `HtmlRenderer`
    context (`Config.html`), inside the `TocRenderer`'s own context, and after the `with` block has been left
    (where `toc` is usually read; the lists are the defaults again). -/
theorem C19_document_toc_current (q : Quotes) (cfg : Toc.Cfg) (d : Doc) (hp : plainHeadings q d = true)
    (ho : isOutline (expectedHs cfg d) = true) (ht : titlesPlain (expectedHs cfg d) = true) :
    (∀ c, Config.html = some c → ∀ gas, 15 * (expectedHs cfg d).length + 14 ≤ gas →
      blockPhase c.block gas (Toc.tocLines (collectL q cfg d.kids)) =
        .ok ({ entries := [.list (expItems 0 1 (toForest (expectedHs cfg d))) 1 1], loose := false }, {}))
    ∧ (∀ c, Config.cfgOf Gen.RenderMaps.tocBlockTokens Gen.RenderMaps.tocSpanTokens = some c →
      ∀ gas, 15 * (expectedHs cfg d).length + 14 ≤ gas →
      blockPhase c.block gas (Toc.tocLines (collectL q cfg d.kids)) =
        .ok ({ entries := [.list (expItems 0 1 (toForest (expectedHs cfg d))) 1 1], loose := false }, {}))
    ∧ (∀ c, Config.cfgOf Gen.RenderMaps.tocBlockTokensAfterExit Gen.RenderMaps.tocSpanTokensAfterExit = some c →
      ∀ gas, 14 * (expectedHs cfg d).length + 13 ≤ gas →
      blockPhase c.block gas (Toc.tocLines (collectL q cfg d.kids)) =
        .ok ({ entries := [.list (expItems 0 1 (toForest (expectedHs cfg d))) 1 1], loose := false }, {})) := by
  obtain ⟨⟨c1, e1, l1⟩, ⟨c2, e2, l2⟩, ⟨c3, e3, l3⟩, _⟩ := C19_toc_config_current
  refine ⟨?_, ?_, ?_⟩
  · intro c hc gas hg
    obtain rfl : c1 = c := Option.some.inj (e1.symm.trans hc)
    have := listCfg_length l1
    exact (C19_document_toc q cfg d hp ho ht _ _ _ l1 gas (by rw [this]; simp only [List.length_cons, List.length_nil]; omega)).1
  · intro c hc gas hg
    obtain rfl : c2 = c := Option.some.inj (e2.symm.trans hc)
    have := listCfg_length l2
    exact (C19_document_toc q cfg d hp ho ht _ _ _ l2 gas (by rw [this]; simp only [List.length_cons, List.length_nil]; omega)).1
  · intro c hc gas hg
    obtain rfl : c3 = c := Option.some.inj (e3.symm.trans hc)
    have := listCfg_length l3
    exact (C19_document_toc q cfg d hp ho ht _ _ _ l3 gas (by rw [this]; simp only [List.length_cons, List.length_nil]; omega)).1

/-! ## 4. From a text -/

/-- `with TocRenderer(depth, omit_title, filter_conds, **opts) as r: r.render(Document(text))` followed by the block
    phase of `r.toc`: parse under the token lists `pcfg` (gas `gasP`), collect the headings while rendering, build the
    list lines, tokenize them under the block token list `bcfg` in force when `toc` is read (gas `gasT`).
    Every Python exception of the parser is an `err`. -/
def tocOfText (q : Quotes) (cfg : Toc.Cfg) (pcfg : Document.Cfg) (bcfg : Block.Cfg) (gasP gasT : Nat) (t : Str) :
    Res (Block.Buf × Block.St) :=
  match Document.parse pcfg gasP t with
  | .err e => .err e
  | .ok d => Block.blockPhase bcfg gasT (Toc.tocLines (collectL q cfg d.kids))

open Mistletoe.Block in
/-- **C19 from a text**: if `Document(text)` is `d` (under any token lists `pcfg`), the headings of `d` have plain
    children, the qualifying ones form an outline with plain-word titles, then the collected `_headings` are the
    qualifying headings of `d` and the pipeline text → document → `_headings` → list lines → `tokenize` returns ONE
    list nested as their outline - for every block token list `bcfg` with `List` before `Table` and `Paragraph`. -/
theorem C19_text_toc (q : Quotes) (cfg : Toc.Cfg) (pcfg : Document.Cfg) (gasP : Nat) (t : Str) (d : Doc)
    (hparse : Document.parse pcfg gasP t = .ok d) (hp : plainHeadings q d = true)
    (ho : isOutline (expectedHs cfg d) = true) (ht : titlesPlain (expectedHs cfg d) = true)
    (bcfg : Block.Cfg) (tpre tpost : List BTok) (hc : ListCfg bcfg tpre tpost)
    (gasT : Nat) (hg : (bcfg.types.length + 5) * (expectedHs cfg d).length + bcfg.types.length + 4 ≤ gasT) :
    collectL q cfg d.kids = expectedHs cfg d
    ∧ tocOfText q cfg pcfg bcfg gasP gasT t =
      .ok ({ entries := [.list (expItems 0 1 (toForest (expectedHs cfg d))) 1 1], loose := false }, {})
    ∧ ∃ lv, (expectedHs cfg d).head?.map (·.1) = some lv ∧
        flatten lv (toForest (expectedHs cfg d)) = expectedHs cfg d := by
  have h := C19_document_toc q cfg d hp ho ht bcfg tpre tpost hc gasT hg
  refine ⟨C19_document_headings q cfg d hp, ?_, h.2⟩
  unfold tocOfText
  rw [hparse]
  exact h.1

open Mistletoe.Block in
/-- **… under the TocRenderer's token lists** (regenerated from /repo): the text is parsed inside the `with` block
    (`tocBlockTokens` / `tocSpanTokens`); `toc` is read inside it (same block list) or after it
    (`tocBlockTokensAfterExit`). -/
theorem C19_text_toc_current (q : Quotes) (cfg : Toc.Cfg) (pcfg : Document.Cfg)
    (hpcfg : Config.cfgOf Gen.RenderMaps.tocBlockTokens Gen.RenderMaps.tocSpanTokens = some pcfg)
    (gasP : Nat) (t : Str) (d : Doc)
    (hparse : Document.parse pcfg gasP t = .ok d) (hp : plainHeadings q d = true)
    (ho : isOutline (expectedHs cfg d) = true) (ht : titlesPlain (expectedHs cfg d) = true) :
    collectL q cfg d.kids = expectedHs cfg d
    ∧ (∀ gasT, 15 * (expectedHs cfg d).length + 14 ≤ gasT →
        tocOfText q cfg pcfg pcfg.block gasP gasT t =
          .ok ({ entries := [.list (expItems 0 1 (toForest (expectedHs cfg d))) 1 1], loose := false }, {}))
    ∧ (∀ acfg, Config.cfgOf Gen.RenderMaps.tocBlockTokensAfterExit Gen.RenderMaps.tocSpanTokensAfterExit = some acfg →
        ∀ gasT, 14 * (expectedHs cfg d).length + 13 ≤ gasT →
        tocOfText q cfg pcfg acfg.block gasP gasT t =
          .ok ({ entries := [.list (expItems 0 1 (toForest (expectedHs cfg d))) 1 1], loose := false }, {})) := by
  obtain ⟨_, h2, h3⟩ := C19_document_toc_current q cfg d hp ho ht
  refine ⟨C19_document_headings q cfg d hp, ?_, ?_⟩
  · intro gasT hg
    unfold tocOfText; rw [hparse]
    exact h2 pcfg hpcfg gasT hg
  · intro acfg ha gasT hg
    unfold tocOfText; rw [hparse]
    exact h3 acfg ha gasT hg

/-! ## 5. Non-vacuity: a concrete text -/

/-- six headings: level 1 (left out: `omit_title`), level 2 with `*em*` and `` `code` `` in the title, level 3 inside
    a block quote, setext level 2, level 3 inside a list item, level 4 (left out: `depth=3`) -/
def sampleText : Str :=
  "# Title\n\n## Intro *em* and `code`\n\n> ### Quoted\n\nUsage\n-----\n\n- ### Item\n\n#### Deep\n".toList

/-- `TocRenderer(depth=3)`: `omit_title=True`, no filters, default quote options -/
def sampleTocCfg : Toc.Cfg := { depth := 3 }
def sampleQ : Quotes := ⟨false, false⟩

/-- token lists inside the `with TocRenderer(...)` block / after it (`C19_toc_config_current`) -/
def tocCfg : Document.Cfg :=
  { block := { types := [.htmlBlock, .blockCode, .heading, .quote, .codeFence, .thematicBreak, .list, .table, .footnote, .paragraph] },
    span := [.escapeSequence, .htmlSpan, .strikethrough, .autoLink, .coreTokens, .inlineCode, .lineBreak] }
def afterCfg : Document.Cfg :=
  { block := { types := [.blockCode, .heading, .quote, .codeFence, .thematicBreak, .list, .table, .footnote, .paragraph] },
    span := [.escapeSequence, .strikethrough, .autoLink, .coreTokens, .inlineCode, .lineBreak] }

theorem tocCfg_current : Config.cfgOf Gen.RenderMaps.tocBlockTokens Gen.RenderMaps.tocSpanTokens = some tocCfg := rfl
theorem afterCfg_current :
    Config.cfgOf Gen.RenderMaps.tocBlockTokensAfterExit Gen.RenderMaps.tocSpanTokensAfterExit = some afterCfg := rfl

/-- `Document(sampleText)` under the TocRenderer's lists -/
def sampleDoc : Doc :=
  { kids := [
      .heading 1 [] [.rawText "Title".toList] 1,
      .heading 2 [] [.rawText "Intro ".toList, .emphasis "*".toList [.rawText "em".toList], .rawText " and ".toList,
        .inlineCode "`".toList [] "code".toList] 3,
      .quote [.heading 3 [] [.rawText "Quoted".toList] 5] 5,
      .setextHeading 2 "-----".toList [.rawText "Usage".toList] 7,
      .list false none [.listItem "-".toList 0 2 false [.heading 3 [] [.rawText "Item".toList] 10] 10] 10,
      .heading 4 [] [.rawText "Deep".toList] 12],
    footnotes := [] }

/-- what /repo prints for `r._headings` -/
def sampleHs : List (Nat × Str) :=
  [(2, "Intro em and code".toList), (3, "Quoted".toList), (2, "Usage".toList), (3, "Item".toList)]

/-- the parse buffer of `r.toc` (what /repo returns: line numbers 1..4, nested items at indentation 2, offset 4) -/
def sampleTocEntry : Block.Entry :=
  .list [
    .mk [.paragraph ["Intro em and code\n".toList] 1 1,
         .list [.mk [.paragraph ["Quoted\n".toList] 2 2] false 2 4 ['-'] 2 2] 2 2] false 0 2 ['-'] 1 1,
    .mk [.paragraph ["Usage\n".toList] 3 3,
         .list [.mk [.paragraph ["Item\n".toList] 4 4] false 2 4 ['-'] 4 4] 4 4] false 0 2 ['-'] 3 3] 1 1

/-- all six headings of the tree, in document order, those inside the quote and the list item included -/
example : (docHeadings sampleDoc).map (·.1) = [1, 2, 3, 2, 3, 4] := by decide +kernel

/-- the hypotheses of the theorems hold on the sample … -/
theorem sample_plain : plainHeadings sampleQ sampleDoc = true := by decide +kernel
theorem sample_expected : expectedHs sampleTocCfg sampleDoc = sampleHs := by decide +kernel
theorem sample_outline : Block.isOutline (expectedHs sampleTocCfg sampleDoc) = true := by decide +kernel
theorem sample_titles : titlesPlain (expectedHs sampleTocCfg sampleDoc) = true := by decide +kernel

/-- … the outline of the qualifying headings is `Intro [Quoted], Usage [Item]` and the expected list is the literal one -/
example : Block.toForest (expectedHs sampleTocCfg sampleDoc) =
    [.node "Intro em and code".toList [.node "Quoted".toList []], .node "Usage".toList [.node "Item".toList []]] := by
  rw [sample_expected]; rfl
example : Block.Entry.list (Block.expItems 0 1 (Block.toForest (expectedHs sampleTocCfg sampleDoc))) 1 1 = sampleTocEntry := by
  rw [sample_expected]; rfl

/-- `C19_document_headings` applied -/
example : collectL sampleQ sampleTocCfg sampleDoc.kids = sampleHs :=
  (C19_document_headings sampleQ sampleTocCfg sampleDoc sample_plain).trans sample_expected

/-- `C19_document_toc_current` applied: inside the context and after leaving it -/
example : Block.blockPhase tocCfg.block 74 (Toc.tocLines (collectL sampleQ sampleTocCfg sampleDoc.kids)) =
      .ok ({ entries := [.list (Block.expItems 0 1 (Block.toForest (expectedHs sampleTocCfg sampleDoc))) 1 1], loose := false }, {})
    ∧ Block.blockPhase afterCfg.block 69 (Toc.tocLines (collectL sampleQ sampleTocCfg sampleDoc.kids)) =
      .ok ({ entries := [.list (Block.expItems 0 1 (Block.toForest (expectedHs sampleTocCfg sampleDoc))) 1 1], loose := false }, {}) := by
  obtain ⟨_, h2, h3⟩ := C19_document_toc_current sampleQ sampleTocCfg sampleDoc sample_plain sample_outline sample_titles
  exact ⟨h2 tocCfg tocCfg_current 74 (by rw [sample_expected]; decide),
    h3 afterCfg afterCfg_current 69 (by rw [sample_expected]; decide)⟩

mutual
/-- equality test on the inline tokens that occur in the sample -/
def sameInline : Inline → Inline → Bool
  | .rawText a, .rawText b => a == b
  | .emphasis a k, .emphasis b k' => a == b && sameInlines k k'
  | .inlineCode a p c, .inlineCode a' p' c' => a == a' && p == p' && c == c'
  | _, _ => false
def sameInlines : List Inline → List Inline → Bool
  | [], [] => true
  | i :: is, j :: js => sameInline i j && sameInlines is js
  | _, _ => false
end

mutual
/-- equality test on the block tokens that occur in the sample -/
def sameBlock : Mistletoe.Block → Mistletoe.Block → Bool
  | .heading l c k n, .heading l' c' k' n' => l == l' && c == c' && sameInlines k k' && n == n'
  | .setextHeading l c k n, .setextHeading l' c' k' n' => l == l' && c == c' && sameInlines k k' && n == n'
  | .paragraph k n, .paragraph k' n' => sameInlines k k' && n == n'
  | .blankLine n, .blankLine n' => n == n'
  | .quote k n, .quote k' n' => sameBlocks k k' && n == n'
  | .list lo s k n, .list lo' s' k' n' => lo == lo' && s == s' && sameBlocks k k' && n == n'
  | .listItem ld i p lo k n, .listItem ld' i' p' lo' k' n' =>
    ld == ld' && i == i' && p == p' && lo == lo' && sameBlocks k k' && n == n'
  | _, _ => false
def sameBlocks : List Mistletoe.Block → List Mistletoe.Block → Bool
  | [], [] => true
  | b :: bs, c :: cs => sameBlock b c && sameBlocks bs cs
  | _, _ => false
end

theorem sameInline_sound : (∀ (a b : Inline), sameInline a b = true → a = b) ∧
    (∀ (a b : List Inline), sameInlines a b = true → a = b) := by
  refine sameInline.mutual_induct (fun a b => sameInline a b = true → a = b) (fun a b => sameInlines a b = true → a = b)
    ?_ ?_ ?_ ?_ ?_ ?_ ?_
  · intro a b h; simp only [sameInline, beq_iff_eq] at h; rw [h]
  · intro a k b k' ih h; simp only [sameInline, Bool.and_eq_true, beq_iff_eq] at h; rw [h.1, ih h.2]
  · intro a p c a' p' c' h; simp only [sameInline, Bool.and_eq_true, beq_iff_eq] at h; rw [h.1.1, h.1.2, h.2]
  · intro t x h1 h2 h3 h; rw [sameInline.eq_4 t x h1 h2 h3] at h; cases h
  · intro _; rfl
  · intro i is j js ih1 ih2 h; simp only [sameInlines, Bool.and_eq_true] at h; rw [ih1 h.1, ih2 h.2]
  · intro t x h1 h2 h; rw [sameInlines.eq_3 t x h1 h2] at h; cases h

theorem sameBlock_sound : (∀ (a b : Mistletoe.Block), sameBlock a b = true → a = b) ∧
    (∀ (a b : List Mistletoe.Block), sameBlocks a b = true → a = b) := by
  refine sameBlock.mutual_induct (fun a b => sameBlock a b = true → a = b) (fun a b => sameBlocks a b = true → a = b)
    ?_ ?_ ?_ ?_ ?_ ?_ ?_ ?_ ?_ ?_ ?_
  · intro l c k n l' c' k' n' h
    simp only [sameBlock, Bool.and_eq_true, beq_iff_eq] at h
    rw [h.1.1.1, h.1.1.2, sameInline_sound.2 _ _ h.1.2, h.2]
  · intro l c k n l' c' k' n' h
    simp only [sameBlock, Bool.and_eq_true, beq_iff_eq] at h
    rw [h.1.1.1, h.1.1.2, sameInline_sound.2 _ _ h.1.2, h.2]
  · intro k n k' n' h
    simp only [sameBlock, Bool.and_eq_true, beq_iff_eq] at h
    rw [sameInline_sound.2 _ _ h.1, h.2]
  · intro n n' h; simp only [sameBlock, beq_iff_eq] at h; rw [h]
  · intro k n k' n' ih h
    simp only [sameBlock, Bool.and_eq_true, beq_iff_eq] at h
    rw [ih h.1, h.2]
  · intro lo s k n lo' s' k' n' ih h
    simp only [sameBlock, Bool.and_eq_true, beq_iff_eq] at h
    rw [h.1.1.1, h.1.1.2, ih h.1.2, h.2]
  · intro ld i p lo k n ld' i' p' lo' k' n' ih h
    simp only [sameBlock, Bool.and_eq_true, beq_iff_eq] at h
    rw [h.1.1.1.1.1, h.1.1.1.1.2, h.1.1.1.2, h.1.1.2, ih h.1.2, h.2]
  · intro t x h1 h2 h3 h4 h5 h6 h7 h; rw [sameBlock.eq_8 t x h1 h2 h3 h4 h5 h6 h7] at h; cases h
  · intro _; rfl
  · intro b bs c cs ih1 ih2 h; simp only [sameBlocks, Bool.and_eq_true] at h; rw [ih1 h.1, ih2 h.2]
  · intro t x h1 h2 h; rw [sameBlocks.eq_3 t x h1 h2] at h; cases h
def sameDoc : Res Doc → Doc → Bool
  | .ok d, e => sameBlocks d.kids e.kids && d.footnotes.isEmpty && e.footnotes.isEmpty
  | .err _, _ => false

/-- the parser, evaluated in the kernel, gives the sample tree -/
theorem sample_parse_same : sameDoc (Document.parse tocCfg 100 sampleText) sampleDoc = true := by decide +kernel

/-- `Document(sampleText)` under the TocRenderer's token lists is `sampleDoc` -/
theorem sample_parse : Document.parse tocCfg 100 sampleText = .ok sampleDoc := by
  have h := sample_parse_same
  cases hp : Document.parse tocCfg 100 sampleText with
  | err e => rw [hp] at h; cases h
  | ok d =>
    rw [hp] at h
    simp only [sameDoc, Bool.and_eq_true, List.isEmpty_iff] at h
    obtain ⟨kids, fn⟩ := d
    simp only at h
    rw [sameBlock_sound.2 _ _ h.1.1, h.1.2]
    rfl

/-- **`C19_text_toc_current` applied to the text**: the collected headings, and `toc` read inside the context and
    after leaving it -/
example :
    collectL sampleQ sampleTocCfg sampleDoc.kids = sampleHs
    ∧ tocOfText sampleQ sampleTocCfg tocCfg tocCfg.block 100 74 sampleText =
        .ok ({ entries := [sampleTocEntry], loose := false }, {})
    ∧ tocOfText sampleQ sampleTocCfg tocCfg afterCfg.block 100 69 sampleText =
        .ok ({ entries := [sampleTocEntry], loose := false }, {}) := by
  obtain ⟨h1, h2, h3⟩ := C19_text_toc_current sampleQ sampleTocCfg tocCfg tocCfg_current 100 sampleText sampleDoc
    sample_parse sample_plain sample_outline sample_titles
  have e : Block.Entry.list (Block.expItems 0 1 (Block.toForest (expectedHs sampleTocCfg sampleDoc))) 1 1 = sampleTocEntry := by
    rw [sample_expected]; rfl
  rw [e] at h2 h3
  exact ⟨h1.trans sample_expected, h2 74 (by rw [sample_expected]; decide),
    h3 afterCfg afterCfg_current 69 (by rw [sample_expected]; decide)⟩

/-- **the whole pipeline evaluated in the kernel, independently of the theorems**: parse (TocRenderer's lists) →
    collect (depth 3, omit_title) → list lines → block phase, inside the context and after leaving it: the collected
    headings are `sampleHs` (what /repo prints for `_headings`) and the parse buffer of `toc` is the literal nested
    list (what /repo returns: see the header of this section) -/
example :
    (match Document.parse tocCfg 100 sampleText with
     | .ok d => collectL sampleQ sampleTocCfg d.kids == sampleHs && plainHeadings sampleQ d
         && expectedHs sampleTocCfg d == sampleHs
         && Toc.tocLines (collectL sampleQ sampleTocCfg d.kids) ==
            ["- Intro em and code\n".toList, "    - Quoted\n".toList, "- Usage\n".toList, "    - Item\n".toList]
     | .err _ => false) = true
    ∧ Block.sameRes (tocOfText sampleQ sampleTocCfg tocCfg tocCfg.block 100 74 sampleText) [sampleTocEntry] = true
    ∧ Block.sameRes (tocOfText sampleQ sampleTocCfg tocCfg afterCfg.block 100 69 sampleText) [sampleTocEntry] = true := by
  decide +kernel

/-- the evaluation tells nestings apart: the flat list of four items is not what comes out -/
example : Block.sameRes (tocOfText sampleQ sampleTocCfg tocCfg tocCfg.block 100 74 sampleText)
    [.list (Block.expItems 0 1 (sampleHs.map (fun h => Block.O.node h.2 []))) 1 1] = false := by decide +kernel

/-- the list token `toc` returns (`make_tokens` on the parse buffer), rendered by the same renderer: what
    `r.render(r.toc)` returns on /repo -/
example : (match Document.mkBlocks tocCfg [] [sampleTocEntry] with
    | .ok [b] => String.ofList (flat (renderBlock sampleQ false b))
    | _ => "") = "<ul>\n<li>Intro em and code\n<ul>\n<li>Quoted</li>\n</ul>\n</li>\n<li>Usage\n<ul>\n<li>Item</li>\n</ul>\n</li>\n</ul>" := by
  decide +kernel

/-- the hypotheses say something: other settings of the same document still give outlines (`depth=4` admits
    `#### Deep` after the level-3 `Item`; `omit_title=False` puts the level-1 title first), a document whose headings
    skip a level (`# A` / `### B`, `omit_title=False`) does not, and a title with a `<` is outside `plainHeadings`:
    it is collected in escaped form (`C19_escaped_text`). -/
example : Block.isOutline (expectedHs { depth := 4 } sampleDoc) = true
    ∧ Block.isOutline (expectedHs { depth := 3, omitTitle := false } sampleDoc) = true
    ∧ Block.isOutline (expectedHs { omitTitle := false }
        { kids := [.heading 1 [] [.rawText "A".toList] 1, .heading 3 [] [.rawText "B".toList] 2], footnotes := [] }) = false
    ∧ plainHeadings sampleQ { kids := [.heading 2 [] [.rawText "a<b".toList] 1], footnotes := [] } = false
    ∧ collectL sampleQ {} [.heading 2 [] [.rawText "a<b".toList] 1] = [(2, "a&lt;b".toList)] := by
  decide +kernel

end Mistletoe.Props.C19

section Audit
open Mistletoe.Props.C19
#print axioms C19_document_headings
#print axioms expectedHs_eq_map_filter
#print axioms mem_expectedHs
#print axioms C19_document_toc
#print axioms C19_document_toc_current
#print axioms C19_text_toc
#print axioms C19_text_toc_current
#print axioms sample_parse
end Audit
