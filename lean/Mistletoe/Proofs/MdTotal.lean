/-
  C01 for the Markdown renderer: `MarkdownRenderer(**opts).render(Document(text))` never raises.

  * `MdOk d` — a decidable (Bool-valued, structurally recursive, kernel-evaluable) well-formedness
    predicate on the AST that excludes exactly the raise sites of `Markdown.renderRes`
    (`renderRes_isOk`: `(renderRes o d).isOk = mdOk d`, for every option set);
  * `renderRes_total` — a well-formed document renders, whatever the options;
  * `parse_mdOk` — every document the parser builds under a span-token list without the contrib
    classes (Math, GithubWiki, XWiki macros) is well formed;
  * `C01_markdown_total` — parse-and-render under the token lists `MarkdownRenderer` installs
    returns a string, for every text and every option set.
-/
import Mistletoe.Model.Markdown
import Mistletoe.Props.C01
namespace Mistletoe.Proofs.MdTotal
open Mistletoe Mistletoe.Wrap Mistletoe.Markdown

/-! ## 1. The well-formedness predicate -/

/-- `if token.title:` is false, or the title delimiter is a string -/
def tdOk (title : Str) (td : Option Str) : Bool := title.isEmpty || td.isSome

/-- what `render_link_or_image` needs of the link attributes: a title that is spelled needs its
    delimiter (inline links only: the other forms do not spell the title), a full reference link its label -/
def linkOk (title : Str) (dt : DestType) (label td : Option Str) : Bool :=
  match dt with
  | .uri => tdOk title td
  | .angleUri => tdOk title td
  | .full => label.isSome
  | .collapsed => true
  | .shortcut => true
  | .none => true

mutual
/-- the span token and everything below it has a render-map entry and well-formed attributes -/
def iOk : Inline → Bool
  | .rawText _ => true
  | .strong _ k => isOk k
  | .emphasis _ k => isOk k
  | .inlineCode _ _ _ => true
  | .strikethrough k => isOk k
  | .image _ title dt label td k => isOk k && linkOk title dt label td
  | .link _ title dt label td k => isOk k && linkOk title dt label td
  | .autoLink _ _ => true
  | .escapeSequence _ => true
  | .lineBreak _ _ => true
  | .htmlSpan _ => true
  | .math _ => false
  | .githubWiki _ _ => false
  | .xwikiMacroStart _ => false
  | .xwikiMacroEnd _ => false
  | .linkRefDef _ _ title _ td => tdOk title td
def isOk : List Inline → Bool
  | [] => true
  | i :: is => iOk i && isOk is
end

/-- a table cell with well-formed content -/
def cellOk : Block → Bool
  | .tableCell _ k _ => isOk k
  | _ => false

def cellsOk : List Block → Bool
  | [] => true
  | c :: cs => cellOk c && cellsOk cs

/-- a table row of table cells -/
def rowOk : Block → Bool
  | .tableRow _ cells _ => cellsOk cells
  | _ => false

def rowsOk : List Block → Bool
  | [] => true
  | r :: rs => rowOk r && rowsOk rs

mutual
/-- the block token and everything below it renders: rows and cells occur only inside tables, a table
    has its header row, rows are rows of cells, span content is well formed -/
def bOk : Block → Bool
  | .paragraph k _ => isOk k
  | .heading _ _ k _ => isOk k
  | .setextHeading _ _ k _ => isOk k
  | .quote kids _ => bsOk kids
  | .blockCode _ _ => true
  | .codeFence _ _ _ _ _ _ => true
  | .list _ _ items _ => bsOk items
  | .listItem _ _ _ _ kids _ => bsOk kids
  | .table _ header rows _ => (match header with | [] => false | h :: _ => rowOk h) && rowsOk rows
  | .tableRow _ _ _ => false
  | .tableCell _ _ _ => false
  | .thematicBreak _ _ => true
  | .htmlBlock _ _ => true
  | .blankLine _ => true
  | .linkRefDefBlock defs _ => isOk defs
def bsOk : List Block → Bool
  | [] => true
  | b :: bs => bOk b && bsOk bs
end

/-- Bool form of `MdOk` -/
def mdOk (d : Doc) : Bool := bsOk d.kids

/-- **The documents the Markdown renderer accepts.** -/
def MdOk (d : Doc) : Prop := mdOk d = true

instance (d : Doc) : Decidable (MdOk d) := by unfold MdOk; exact inferInstance

/-! ## 2. `MdOk` is exactly "the renderer does not raise" -/

theorem isOk_bind {α β} (r : Res α) (f : α → Res β) :
    (match r with | .err e => Res.err e | .ok a => f a).isOk = (r.isOk && match r with | .ok a => (f a).isOk | .err _ => true) := by
  cases r <;> simp [Res.isOk]

theorem titleFrags_isOk (title : Str) (td : Option Str) : (titleFrags title td).isOk = tdOk title td := by
  unfold titleFrags tdOk
  cases h : title.isEmpty <;> cases td <;> simp [Res.isOk]

theorem linkTail_isOk (target title : Str) (dt : DestType) (label td : Option Str) :
    (linkTail target title dt label td).isOk = linkOk title dt label td := by
  unfold linkTail linkOk
  cases dt <;> simp only
  · rw [← titleFrags_isOk]; cases titleFrags title td <;> rfl
  · rw [← titleFrags_isOk]; cases titleFrags title td <;> rfl
  · cases label <;> rfl
  · rfl
  · rfl
  · rfl

mutual
theorem renderInline_isOk : ∀ (i : Inline), (renderInline i).isOk = iOk i
  | .rawText _ => rfl
  | .strong _ k => by
    have := renderInlines_isOk k
    simp only [renderInline, iOk]; cases h : renderInlines k <;> simp_all [Res.isOk]
  | .emphasis _ k => by
    have := renderInlines_isOk k
    simp only [renderInline, iOk]; cases h : renderInlines k <;> simp_all [Res.isOk]
  | .inlineCode _ _ _ => rfl
  | .strikethrough k => by
    have := renderInlines_isOk k
    simp only [renderInline, iOk]; cases h : renderInlines k <;> simp_all [Res.isOk]
  | .image src title dt label td k => by
    have := renderInlines_isOk k
    have h2 := linkTail_isOk src title dt label td
    simp only [renderInline, iOk]
    cases h : renderInlines k <;> cases h3 : linkTail src title dt label td <;> simp_all [Res.isOk]
  | .link src title dt label td k => by
    have := renderInlines_isOk k
    have h2 := linkTail_isOk src title dt label td
    simp only [renderInline, iOk]
    cases h : renderInlines k <;> cases h3 : linkTail src title dt label td <;> simp_all [Res.isOk]
  | .autoLink _ _ => rfl
  | .escapeSequence _ => rfl
  | .lineBreak _ _ => rfl
  | .htmlSpan _ => rfl
  | .math _ => rfl
  | .githubWiki _ _ => rfl
  | .xwikiMacroStart _ => rfl
  | .xwikiMacroEnd _ => rfl
  | .linkRefDef _ _ title _ td => by
    have h2 := titleFrags_isOk title td
    simp only [renderInline, iOk]
    cases h3 : titleFrags title td <;> simp_all [Res.isOk]
theorem renderInlines_isOk : ∀ (k : List Inline), (renderInlines k).isOk = isOk k
  | [] => rfl
  | i :: is => by
    have h1 := renderInline_isOk i
    have h2 := renderInlines_isOk is
    simp only [renderInlines, isOk]
    cases h : renderInline i <;> cases h3 : renderInlines is <;> simp_all [Res.isOk]
end

theorem spanToLines_isOk (k : List Inline) (m : Option Int) : (spanToLines k m).isOk = isOk k := by
  rw [← renderInlines_isOk]; unfold spanToLines; cases renderInlines k <;> rfl

theorem firstLine_isOk (k : List Inline) : (firstLine k).isOk = isOk k := by
  rw [← spanToLines_isOk k none]; unfold firstLine
  cases h : spanToLines k none with
  | err e => rfl
  | ok ls => cases ls <;> rfl

theorem cellText_isOk (c : Block) : (cellText c).isOk = cellOk c := by
  cases c <;> first | rfl | exact firstLine_isOk _

theorem cellsText_isOk : ∀ (cs : List Block), (cellsText cs).isOk = cellsOk cs
  | [] => rfl
  | c :: cs => by
    have h1 := cellText_isOk c
    have h2 := cellsText_isOk cs
    simp only [cellsText, cellsOk]
    cases h : cellText c <;> cases h3 : cellsText cs <;> simp_all [Res.isOk]

theorem rowText_isOk (r : Block) : (rowText r).isOk = rowOk r := by
  cases r <;> first | rfl | exact cellsText_isOk _

theorem rowsText_isOk : ∀ (rs : List Block), (rowsText rs).isOk = rowsOk rs
  | [] => rfl
  | r :: rs => by
    have h1 := rowText_isOk r
    have h2 := rowsText_isOk rs
    simp only [rowsText, rowsOk]
    cases h : rowText r <;> cases h3 : rowsText rs <;> simp_all [Res.isOk]

theorem defLines_isOk (m : Option Int) : ∀ (ds : List Inline), (defLines m ds).isOk = isOk ds
  | [] => rfl
  | d :: ds => by
    have h1 := spanToLines_isOk [d] m
    have h2 := defLines_isOk m ds
    simp only [isOk, Bool.and_true] at h1
    simp only [defLines, isOk]
    cases h : spanToLines [d] m <;> cases h3 : defLines m ds <;> simp_all [Res.isOk]

mutual
theorem renderBlock_isOk (o : Opts) : ∀ (m : Option Int) (b : Block), (renderBlock o m b).isOk = bOk b
  | m, .paragraph k _ => by simp only [renderBlock, bOk]; exact spanToLines_isOk k m
  | m, .heading _ _ k _ => by
    have := firstLine_isOk k
    simp only [renderBlock, bOk]; cases h : firstLine k <;> simp_all [Res.isOk]
  | m, .setextHeading _ _ k _ => by
    have := spanToLines_isOk k m
    simp only [renderBlock, bOk]; cases h : spanToLines k m <;> simp_all [Res.isOk]
  | m, .quote kids _ => by
    have := renderBlocks_isOk o (childBudget m 2) kids
    simp only [renderBlock, bOk]; cases h : renderBlocks o (childBudget m 2) kids <;> simp_all [Res.isOk]
  | m, .blockCode _ _ => rfl
  | m, .codeFence _ _ _ _ _ _ => rfl
  | m, .list _ _ items _ => by simp only [renderBlock, bOk]; exact renderBlocks_isOk o m items
  | m, .listItem leader ind pre _ kids _ => by
    have := renderBlocks_isOk o (childBudget m (if o.normalizeWhitespace then leader.length + 1 else pre)) kids
    simp only [renderBlock, bOk]
    cases h : renderBlocks o (childBudget m (if o.normalizeWhitespace then leader.length + 1 else pre)) kids <;>
      simp_all [Res.isOk]
  | m, .table _ header rows _ => by
    cases header with
    | nil => rfl
    | cons hd tl =>
      have h1 := rowText_isOk hd
      have h2 := rowsText_isOk rows
      simp only [renderBlock, bOk]
      cases h : rowText hd <;> cases h3 : rowsText rows <;> simp_all [Res.isOk]
  | m, .tableRow _ _ _ => rfl
  | m, .tableCell _ _ _ => rfl
  | m, .thematicBreak _ _ => rfl
  | m, .htmlBlock _ _ => rfl
  | m, .blankLine _ => rfl
  | m, .linkRefDefBlock defs _ => by simp only [renderBlock, bOk]; exact defLines_isOk m defs
theorem renderBlocks_isOk (o : Opts) : ∀ (m : Option Int) (bs : List Block), (renderBlocks o m bs).isOk = bsOk bs
  | m, [] => rfl
  | m, b :: bs => by
    have h1 := renderBlock_isOk o m b
    have h2 := renderBlocks_isOk o m bs
    simp only [renderBlocks, bsOk]
    cases h : renderBlock o m b <;> cases h3 : renderBlocks o m bs <;> simp_all [Res.isOk]
end

/-- **`MdOk` is exact**: for every option set (every `max_line_length`, negative and zero included, and
    both values of `normalize_whitespace`) the renderer returns iff the document is well formed.  The
    line-budget arithmetic (`childBudget`, `fragmentsToLines`, `Model/Wrap.lean`) has no raise site. -/
theorem renderRes_isOk (o : Opts) (d : Doc) : (renderRes o d).isOk = mdOk d := by
  have := renderBlocks_isOk o o.maxLineLength d.kids
  unfold renderRes mdOk
  cases h : renderBlocks o o.maxLineLength d.kids <;> simp_all [Res.isOk]

/-- **A well-formed document renders, whatever the options.** -/
theorem renderRes_total {d : Doc} (h : MdOk d) (o : Opts) : ∃ s, renderRes o d = .ok s := by
  have := renderRes_isOk o d
  rw [h] at this
  cases hr : renderRes o d with
  | ok s => exact ⟨s, rfl⟩
  | err e => rw [hr] at this; cases this

/-- and conversely: whenever the renderer returns (under any option set), the document is well formed -/
theorem mdOk_of_renderRes {d : Doc} {o : Opts} {s : Str} (h : renderRes o d = .ok s) : MdOk d := by
  have := renderRes_isOk o d
  rw [h] at this
  exact this.symm

/-! ## 3. The inline phase builds well-formed span tokens -/

open Mistletoe.Core Mistletoe.Inline Mistletoe.InlineScan

/-- the attributes the Link / Image constructor will read from a core match are well formed -/
def coreOk (m : CoreM) : Bool :=
  linkOk (Unescape.escStrip true m.title) (DestTypeOf m.destType) m.label (m.titleDelim.map (fun c => [c]))

def AllOk (ms : List CoreM) : Prop := ∀ m ∈ ms, coreOk m = true

theorem escStrip_nil : Unescape.escStrip true [] = [] := by decide

theorem coreOk_emph (m : CoreM) (h : m.destType = []) : coreOk m = true := by
  unfold coreOk; rw [h]
  have : DestTypeOf [] = .none := by decide
  rw [this]; rfl

theorem coreOk_inline (m : CoreM) (h1 : m.destType = "angle_uri".toList ∨ m.destType = "uri".toList)
    (h2 : m.title = [] ∨ m.titleDelim.isSome = true) : coreOk m = true := by
  have ht : tdOk (Unescape.escStrip true m.title) (m.titleDelim.map (fun c => [c])) = true := by
    unfold tdOk
    rcases h2 with h2 | h2
    · rw [h2, escStrip_nil]; rfl
    · cases htd : m.titleDelim with
      | none => rw [htd] at h2; cases h2
      | some c => simp
  unfold coreOk
  rcases h1 with h1 | h1 <;> rw [h1]
  · have : DestTypeOf "angle_uri".toList = .angleUri := by decide
    rw [this]; exact ht
  · have : DestTypeOf "uri".toList = .uri := by decide
    rw [this]; exact ht

theorem titleGo_lt (s : Str) (offset : Nat) (cl : Char) : ∀ (l : Str) (i : Nat) (esc : Bool) (r : Nat × Nat × Str),
    titleGo s offset cl l i esc = some r → r.1 = offset ∧ i < r.2.1
  | [], _, _, _, h => by simp [titleGo] at h
  | c :: rest, i, esc, r, h => by
    simp only [titleGo] at h
    split at h
    · have := titleGo_lt s offset cl rest (i + 1) true r h; omega
    · split at h
      · cases h; simp
      · have := titleGo_lt s offset cl rest (i + 1) false r h; omega

/-- `match_link_title`: an empty title, or a delimited one whose first character exists -/
theorem matchLinkTitle_delim (s : Str) (o : Nat) (tls tle : Nat) (title : Str)
    (h : Core.matchLinkTitle s o = some (tls, tle, title)) :
    title = [] ∨ (tls < tle ∧ (s[tls]?).isSome = true) := by
  unfold Core.matchLinkTitle at h
  simp only at h
  split at h
  · cases h
  · split at h
    · cases h
    · rename_i c hc
      split at h
      · cases h; left; rfl
      · split at h
        · cases h
        · rename_i cl _
          have := titleGo_lt _ _ _ _ _ _ _ h
          simp only at this
          right
          refine ⟨by omega, ?_⟩
          rw [this.1, hc]; rfl

theorem matchLinkImage_coreOk (s : Str) (offset : Nat) (d : Delim) (fn : Footnotes.Table) (m : CoreM)
    (h : matchLinkImage s offset d fn = some m) : coreOk m = true := by
  unfold matchLinkImage at h
  simp only at h
  split at h
  · rename_i m' hin
    cases h
    split at hin
    · split at hin
      · cases hin
      · split at hin
        · cases hin
        · rename_i tls tle title hti
          split at hin
          · cases hin
            apply coreOk_inline
            · simp only; split
              · left; rfl
              · right; rfl
            · rcases matchLinkTitle_delim _ _ _ _ _ hti with h1 | ⟨h1, h2⟩
              · left; exact h1
              · right; simp only [h1, if_true]; exact h2
          · cases hin
    · cases hin
  · split at h
    · split at h
      · cases h
        unfold coreOk
        have : DestTypeOf "full".toList = .full := by decide
        simp only [this]; rfl
      · split at h
        · split at h
          · cases h
            unfold coreOk
            have : DestTypeOf "collapsed".toList = .collapsed := by decide
            simp only [this]; rfl
          · cases h
        · cases h
    · split at h
      · cases h
        unfold coreOk
        have : DestTypeOf "shortcut".toList = .shortcut := by decide
        simp only [this]; rfl
      · cases h

theorem emphStep_allOk (s : Str) (sb : Option Nat) (st st' : EState) (curr : Nat) (c' : Option Nat)
    (h : emphStep s sb st curr = .ok (st', c')) (ha : AllOk st.ms) : AllOk st'.ms := by
  unfold emphStep at h
  split at h
  · cases h
  · split at h
    · cases h
    · simp only at h
      split at h
      · cases h
      · split at h
        · cases h
        · split at h
          · cases h
          · simp only [Res.ok.injEq, Prod.mk.injEq] at h
            obtain ⟨rfl, _⟩ := h
            intro m hm
            rcases List.mem_cons.1 hm with rfl | hm
            · exact coreOk_emph _ rfl
            · exact ha m hm
      · split at h
        · cases h; exact ha
        · cases h; exact ha

theorem emphLoop_allOk (s : Str) (sb : Option Nat) : ∀ (fuel : Nat) (st : EState) (c : Option Nat) (st' : EState),
    emphLoop s sb fuel st c = .ok st' → AllOk st.ms → AllOk st'.ms
  | 0, _, _, _, h, _ => by simp [emphLoop] at h
  | fuel + 1, st, none, st', h, ha => by
    simp only [emphLoop] at h; cases h; exact ha
  | fuel + 1, st, some curr, st', h, ha => by
    rw [emphLoop_succ] at h
    split at h
    · cases h
    · rename_i st1 c1 hstep
      exact emphLoop_allOk s sb fuel st1 c1 st' h (emphStep_allOk s sb st st1 curr c1 hstep ha)

theorem processEmphasis_allOk (s : Str) (sb : Option Nat) (ds : List Delim) (ms : List CoreM) (r : List Delim × List CoreM)
    (h : processEmphasis s sb ds ms = .ok r) (ha : AllOk ms) : AllOk r.2 := by
  unfold processEmphasis at h
  split at h
  · cases h
  · rename_i st hst
    cases h
    exact emphLoop_allOk s sb _ _ _ st hst ha

theorem findLinkImage_allOk (s : Str) (offset : Nat) (ds : List Delim) (ms : List CoreM) (fn : Footnotes.Table)
    (r : Nat × List Delim × List CoreM) (h : findLinkImage s offset ds ms fn = .ok r) (ha : AllOk ms) : AllOk r.2.2 := by
  unfold findLinkImage at h
  split at h
  · cases h; exact ha
  · split at h
    · cases h
    · split at h
      · cases h; exact ha
      · split at h
        · cases h; exact ha
        · rename_i m hm
          split at h
          · cases h
          · rename_i ds1 ms1 hpe
            cases h
            have := processEmphasis_allOk _ _ _ _ _ hpe ha
            intro m' hm'
            rcases List.mem_cons.1 hm' with rfl | hm'
            · exact matchLinkImage_coreOk _ _ _ _ _ hm
            · exact this m' hm'

theorem st1Of_ms (s : Str) (i : Nat) (c : Char) (st : FState) : (st1Of s i c st).ms = st.ms := by
  unfold st1Of; split <;> rfl

theorem st2Of_ms (i : Nat) (c : Char) (st : FState) : (st2Of i c st).ms = st.ms := by
  unfold st2Of; split <;> rfl

theorem tailExpr_allOk {α} (K : Nat → FState → Res α) (P : α → Prop) (s : Str) (fn : Footnotes.Table)
    (hK : ∀ j st r, K j st = .ok r → AllOk st.ms → P r) (i : Nat) (c : Char) (st2 : FState) (r : α)
    (h : tailExpr K s fn i c st2 = .ok r) (ha : AllOk st2.ms) : P r := by
  unfold tailExpr at h
  split at h
  · split at h
    · split at h
      · exact hK _ _ _ h ha
      · exact hK _ _ _ h ha
    · split at h
      · exact hK _ _ _ h ha
      · split at h
        · split at h
          · cases h
          · rename_i i' ds' ms' hf
            exact hK _ _ _ h (findLinkImage_allOk _ _ _ _ _ _ hf ha)
        · split at h
          · exact hK _ _ _ h ha
          · exact hK _ _ _ h ha
  · exact hK _ _ _ h ha

theorem coreLoop_allOk (s : Str) (fn : Footnotes.Table) : ∀ (fuel i : Nat) (st : FState) (r : Nat × FState),
    coreLoop s fn fuel i st = .ok r → AllOk st.ms → AllOk r.2.ms
  | 0, _, _, _, h, _ => by simp [coreLoop] at h
  | fuel + 1, i, st, r, h, ha => by
    have ih := fun j st' r' (h' : coreLoop s fn fuel j st' = .ok r') (ha' : AllOk st'.ms) =>
      coreLoop_allOk s fn fuel j st' r' h' ha'
    rw [coreLoop_succ] at h
    cases hc : s[i]? with
    | none => rw [hc] at h; cases h; exact ha
    | some c =>
      rw [hc] at h
      simp only at h
      have hrest : restExpr (coreLoop s fn fuel) s fn i c st = .ok r → AllOk r.2.ms := by
        intro h
        unfold restExpr at h
        split at h
        · exact ih _ _ _ h ha
        · refine tailExpr_allOk _ (fun r => AllOk r.2.ms) s fn ih _ _ _ _ h ?_
          rw [st2Of_ms, st1Of_ms]; exact ha
      cases hcm : st.code with
      | none =>
        simp only [hcm, Bool.false_eq_true, if_false] at h
        exact hrest h
      | some cm =>
        simp only [hcm] at h
        split at h
        · unfold codeExpr at h
          refine ih _ _ _ h ?_
          show AllOk (if st.inRun.isSome = true then _ else st).ms
          split <;> exact ha
        · exact hrest h

/-- every match `find_core_tokens` returns carries well-formed link attributes -/
theorem findCoreTokens_allOk (s : Str) (fn : Footnotes.Table) (ms : List CoreM) (codes : List CodeM)
    (h : findCoreTokens s fn = .ok (ms, codes)) : AllOk ms := by
  unfold findCoreTokens at h
  split at h
  · cases h
  · rename_i i st hl
    have h1 := coreLoop_allOk s fn _ _ _ _ hl (fun m hm => by cases hm)
    simp only at h
    split at h
    · cases h
    · rename_i ds' ms' hpe
      cases h
      have := processEmphasis_allOk _ _ _ _ _ hpe (by
        show AllOk (if st.inRun.isSome = true then _ else st).ms
        split <;> exact h1)
      intro m hm
      exact this m (List.mem_reverse.1 hm)

/-- a span-token list without the classes `MarkdownRenderer` has no render-map entry for
    (`Math`, `GithubWiki`, `XWikiBlockMacroStart`, `XWikiBlockMacroEnd`) -/
def spanOk (types : List STok) : Bool :=
  !types.contains .math && !types.contains .githubWiki && !types.contains .xwikiMacroStart && !types.contains .xwikiMacroEnd

/-- what `build` needs of a candidate -/
def foundOk (f : Found) : Prop :=
  (f.cls ≠ .math ∧ f.cls ≠ .githubWiki ∧ f.cls ≠ .xwikiMacroStart ∧ f.cls ≠ .xwikiMacroEnd) ∧
    ∀ m, f.payload = .core m → coreOk m = true

theorem findOne_spec (s : Str) (core : List CoreM) (codes : List CodeM) (t : STok) :
    ∀ f ∈ findOne s core codes t, f.cls = t ∧ ∀ m, f.payload = .core m → m ∈ core := by
  intro f hf
  cases t <;> simp only [findOne, List.mem_map, List.not_mem_nil] at hf
  all_goals first
    | (obtain ⟨x, hx, rfl⟩ := hf; exact ⟨rfl, fun m hm => by simp only [Payload.core.injEq] at hm; subst hm; exact hx⟩)
    | (obtain ⟨x, _, rfl⟩ := hf; exact ⟨rfl, fun m hm => by simp [ofRe] at hm⟩)
    | (obtain ⟨x, _, rfl⟩ := hf; exact ⟨rfl, fun m hm => by cases hm⟩)
    | exact absurd hf (by simp)

theorem findAll_foundOk (s : Str) (types : List STok) (fn : Footnotes.Table) (found : List Found)
    (hs : spanOk types = true) (h : findAll s types fn = .ok found) : ∀ f ∈ found, foundOk f := by
  unfold spanOk at hs
  simp only [Bool.and_eq_true, Bool.not_eq_true', List.contains_eq_mem, decide_eq_false_iff_not] at hs
  unfold findAll at h
  simp only at h
  split at h
  · cases h
  · rename_i core codes hcore
    cases h
    have hall : AllOk core := by
      split at hcore
      · exact findCoreTokens_allOk s fn core codes hcore
      · cases hcore; intro m hm; cases hm
    intro f hf
    obtain ⟨t, ht, hft⟩ := List.mem_flatMap.1 hf
    obtain ⟨h1, h2⟩ := findOne_spec s core codes t f hft
    refine ⟨⟨?_, ?_, ?_, ?_⟩, fun m hm => hall m (h2 m hm)⟩
    · rw [h1]; intro e; rw [e] at ht; exact hs.1.1.1 ht
    · rw [h1]; intro e; rw [e] at ht; exact hs.1.1.2 ht
    · rw [h1]; intro e; rw [e] at ht; exact hs.1.2 ht
    · rw [h1]; intro e; rw [e] at ht; exact hs.2 ht

theorem inlineCodeOf_ok (s : Str) (m : CodeM) : iOk (inlineCodeOf s m) = true := by
  unfold inlineCodeOf
  simp only
  split <;> rfl

section build
set_option linter.unusedSectionVars false
variable (s : Str) (found : List Found) (hfound : ∀ f ∈ found, foundOk f)
include hfound

mutual
theorem build_ok : ∀ (o : Span.Out), iOk (build s found o) = true
  | .raw _ _ => rfl
  | .tok c kids => by
    have ih := builds_ok kids
    unfold build
    split
    · rfl
    · rename_i f hf
      obtain ⟨⟨h1, h2, h4, h5⟩, h3⟩ := hfound f (List.mem_of_getElem? hf)
      split
      · rfl
      · rfl
      · exact ih
      · rfl
      · rfl
      · exact absurd ‹f.cls = STok.math› h1
      · exact absurd ‹f.cls = STok.githubWiki› h2
      · exact absurd ‹f.cls = STok.xwikiMacroStart› h4
      · exact absurd ‹f.cls = STok.xwikiMacroEnd› h5
      · exact inlineCodeOf_ok _ _
      · rename_i m _ hp
        have hm := h3 m hp
        unfold coreOk at hm
        split
        · exact ih
        · exact ih
        · simp only [iOk, ih, hm, Bool.and_self]
        · simp only [iOk, ih, hm, Bool.and_self]
      · rfl
theorem builds_ok : ∀ (os : List Span.Out), isOk (builds s found os) = true
  | [] => rfl
  | o :: os => by
    simp only [builds, isOk, build_ok o, builds_ok os, Bool.and_self]
end
end build

/-- **the span tokens `tokenize_inner` builds are well formed** under every span-token list without
    the contrib classes, for every text and every table of link reference definitions -/
theorem tokenizeInner_isOk (types : List STok) (fn : Footnotes.Table) (s : Str) (ks : List Inline)
    (hs : spanOk types = true) (h : tokenizeInner types fn s = .ok ks) : isOk ks = true := by
  unfold tokenizeInner at h
  split at h
  · cases h
  · rename_i found hf
    cases h
    exact builds_ok s found (findAll_foundOk s types fn found hs hf) _

/-! ## 4. The block phase: every link reference definition has its title delimiter -/

open Mistletoe.Block

/-- `LinkReferenceDefinition`: a non-empty title comes with its delimiter -/
def fnOk (m : FnMatch) : Bool := tdOk m.title (m.titleDelim.map (fun c => [c]))

theorem mltGo_lt (s : Str) (offset : Nat) (cl : Char) : ∀ (l : Str) (i : Nat) (esc : Bool) (r : Nat × Nat × Str),
    mltGo s offset cl l i esc = some r → i < r.2.1
  | [], _, _, _, h => by simp [mltGo] at h
  | c :: rest, i, esc, r, h => by
    simp only [mltGo] at h
    split at h
    · have := mltGo_lt s offset cl rest (i + 1) true r h; omega
    · split at h
      · cases h; simp
      · have := mltGo_lt s offset cl rest (i + 1) false r h; omega

theorem blockMatchLinkTitle_delim (s : Str) (o : Nat) (r : Nat × Nat × Str)
    (h : Block.matchLinkTitle s o = some r) : o < r.2.1 ∧ (s[o]?).isSome = true := by
  unfold Block.matchLinkTitle at h
  split at h
  · cases h
  · rename_i c hc
    simp only at h
    split at h
    · cases h
    · have := mltGo_lt _ _ _ _ _ _ _ h
      exact ⟨by omega, by rw [hc]; rfl⟩

theorem matchReference_fnOk (s : Str) (offset next : Nat) (m : FnMatch)
    (h : matchReference s offset = .ok (some (next, m))) : fnOk m = true := by
  unfold matchReference at h
  split at h
  · cases h
  · split at h
    · cases h
    · simp only at h
      split at h
      · cases h
      · split at h
        · cases h
        · cases h
        · split at h
          · cases h
          · split at h
            · simp only [Res.ok.injEq] at h
              split at h
              · cases h; rfl
              · cases h
            · rename_i a titleEnd title hti
              obtain ⟨h1, h2⟩ := blockMatchLinkTitle_delim _ _ _ hti
              simp only at h1
              split at h
              · cases h
                unfold fnOk tdOk
                simp only [h1, if_true]
                obtain ⟨c, hc⟩ := Option.isSome_iff_exists.1 h2
                rw [hc]; simp
              · simp only [Res.ok.injEq] at h
                split at h
                · cases h; rfl
                · cases h

theorem footnoteRefs_fnOk (s : Str) : ∀ (fuel offset : Nat) (acc : List FnMatch) (r : List FnMatch × Option Nat),
    footnoteRefs s fuel offset acc = .ok r → (∀ m ∈ acc, fnOk m = true) → ∀ m ∈ r.1, fnOk m = true
  | 0, _, _, _, h, _ => by simp [footnoteRefs] at h
  | fuel + 1, offset, acc, r, h, ha => by
    simp only [footnoteRefs] at h
    split at h
    · split at h
      · cases h
      · cases h; intro m hm; exact ha m (List.mem_reverse.1 hm)
      · rename_i next m0 hmr
        refine footnoteRefs_fnOk s fuel next (m0 :: acc) r h ?_
        intro m hm
        rcases List.mem_cons.1 hm with rfl | hm
        · exact matchReference_fnOk _ _ _ _ hmr
        · exact ha m hm
    · cases h; intro m hm; exact ha m (List.mem_reverse.1 hm)

theorem readFootnote_fnOk (fw : FW) (ms : List FnMatch) (fw' : FW) (h : readFootnote fw = .ok (ms, fw')) :
    ∀ m ∈ ms, fnOk m = true := by
  unfold readFootnote at h
  simp only at h
  split at h
  · cases h
  · rename_i ms' back hr
    cases h
    exact footnoteRefs_fnOk _ _ _ _ _ hr (fun m hm => by cases hm)

mutual
/-- every `LinkReferenceDefinitionBlock` entry, at every nesting depth, holds only definitions whose
    title (if any) has its delimiter -/
def EntryMd : Entry → Prop
  | .blockCode _ _ _ => True
  | .heading _ _ _ _ _ => True
  | .quote inner _ _ _ => EntriesMd inner
  | .codeFence _ _ _ _ _ _ _ => True
  | .thematicBreak _ _ _ => True
  | .list items _ _ => ItemsMd items
  | .table _ _ _ _ => True
  | .footnote _ _ _ => True
  | .linkRefDefs ms _ _ => ∀ m ∈ ms, fnOk m = true
  | .paragraph _ _ _ => True
  | .setext _ _ _ => True
  | .htmlBlock _ _ _ => True
  | .blankLine _ _ => True
def EntriesMd : List Entry → Prop
  | [] => True
  | e :: es => EntryMd e ∧ EntriesMd es
def ItemMd : Item → Prop
  | .mk inner _ _ _ _ _ _ => EntriesMd inner
def ItemsMd : List Item → Prop
  | [] => True
  | i :: is => ItemMd i ∧ ItemsMd is
end

theorem entriesMd_append : ∀ (a b : List Entry), EntriesMd a → EntriesMd b → EntriesMd (a ++ b)
  | [], _, _, hb => by simpa using hb
  | x :: xs, b, ha, hb => by
    simp only [List.cons_append, EntriesMd] at ha ⊢
    exact ⟨ha.1, entriesMd_append xs b ha.2 hb⟩

theorem entriesMd_reverse : ∀ (a : List Entry), EntriesMd a → EntriesMd a.reverse
  | [], _ => by simp [EntriesMd]
  | x :: xs, h => by
    simp only [EntriesMd] at h
    rw [List.reverse_cons]
    exact entriesMd_append _ _ (entriesMd_reverse xs h.2) (by simp [EntriesMd, h.1])

theorem itemsMd_append : ∀ (a b : List Item), ItemsMd a → ItemsMd b → ItemsMd (a ++ b)
  | [], _, _, hb => by simpa using hb
  | x :: xs, b, ha, hb => by
    simp only [List.cons_append, ItemsMd] at ha ⊢
    exact ⟨ha.1, itemsMd_append xs b ha.2 hb⟩

theorem itemsMd_reverse : ∀ (a : List Item), ItemsMd a → ItemsMd a.reverse
  | [], _ => by simp [ItemsMd]
  | x :: xs, h => by
    simp only [ItemsMd] at h
    rw [List.reverse_cons]
    exact itemsMd_append _ _ (itemsMd_reverse xs h.2) (by simp [ItemsMd, h.1])

def TokMd (cfg : Block.Cfg) (gas : Nat) : Prop :=
  ∀ (lines : List Line) (start : Nat) (st : St) (b : Buf) (st' : St),
    tokenizeBlock cfg gas lines start st = .ok (b, st') → EntriesMd b.entries

def LoopMd (cfg : Block.Cfg) (gas : Nat) : Prop :=
  ∀ (fw : FW) (st : St) (acc : List Entry) (loose : Bool) (b) (st'),
    tokLoop cfg gas fw st acc loose = .ok (b, st') → EntriesMd acc → EntriesMd b.entries

def TryMd (cfg : Block.Cfg) (gas : Nat) : Prop :=
  ∀ (fw : FW) (st : St) (l : Line) (ts : List BTok) (e : Entry) (fw' : FW) (st' : St),
    tryTypes cfg gas fw st l ts = .ok (some (e, fw', st')) → EntryMd e

def ListMd (cfg : Block.Cfg) (gas : Nat) : Prop :=
  ∀ (fw : FW) (st : St) (ld) (nm) (acc : List Item) (r),
    readList cfg gas fw st ld nm acc = .ok r → ItemsMd acc → ItemsMd r.1

theorem list_md (cfg : Block.Cfg) (gas : Nat) (hT : TokMd cfg gas) (hL : ListMd cfg gas) : ListMd cfg (gas + 1) := by
  intro fw st ld nm acc r h hacc
  have hstop : ∀ (items : List Item) (fwEnd : FW) (stEnd : St) (rr : List Item × FW × St), ItemsMd items →
      (Res.ok ((match items with
        | .mk inner loose i p l n g :: rest => Item.mk inner (decide (inner.length > 1) && loose) i p l n g :: rest
        | [] => []).reverse, fwEnd, stEnd) : Res _) = .ok rr → ItemsMd rr.1 := by
    intro items fwEnd stEnd rr hi he
    cases he
    cases items with
    | nil => exact trivial
    | cons x xs =>
      cases x
      simp only [ItemsMd, ItemMd] at hi
      refine itemsMd_reverse _ ?_
      simp only [ItemsMd, ItemMd]
      exact hi
  simp only [readList] at h
  split at h
  · exact hstop acc _ _ r hacc h
  split at h
  · cases h
  · rename_i il hil
    have key : ∀ (item : Item) (itemLeader : Str) (next : Option (Nat × Nat × Str × Str)) (fw' : FW) (st' : St),
        (match il with
          | .empty ind pre ldr ln og next fw' => (Res.ok (Item.mk [] true ind pre ldr ln og, ldr, next, fw', st) : Res _)
          | .lines buf cstart ind pre ldr ln og next fw' =>
            match tokenizeBlock cfg gas buf cstart st with
            | .err e => .err e
            | .ok (b, st') => .ok (Item.mk b.entries b.loose ind pre ldr ln og, ldr, next, fw', st'))
          = .ok (item, itemLeader, next, fw', st') → ItemMd item := by
      intro item itemLeader next fw' st' he
      cases il with
      | empty ind pre ldr ln og nx fwx =>
        simp only at he; cases he
        exact trivial
      | lines buf cstart ind pre ldr ln og nx fwx =>
        simp only at he
        split at he
        · cases he
        · rename_i b stb hb
          cases he
          exact hT _ _ _ _ _ hb
    split at h
    · cases h
    · rename_i item itemLeader next fw' st' hres
      have hkw := key item itemLeader next fw' st' hres
      have hacc' : ItemsMd (item :: acc) := ⟨hkw, hacc⟩
      split at h
      · split at h
        · exact hstop _ _ _ r hacc' h
        · exact hL _ st' _ _ _ r h hacc'
      · split at h
        · exact hstop _ _ _ r hacc' h
        · exact hL _ st' _ _ _ r h hacc'

theorem try_md (cfg : Block.Cfg) (gas : Nat) (hT : TokMd cfg gas) (hL : ListMd cfg gas) (hY : TryMd cfg gas) : TryMd cfg (gas + 1) := by
  intro fw st l ts e fw' st' h
  cases ts with
  | nil => simp [tryTypes] at h
  | cons t ts =>
    have ih := fun fw2 st2 (h2 : tryTypes cfg gas fw2 st2 l ts = .ok (some (e, fw', st'))) =>
      hY fw2 st2 l ts e fw' st' h2
    unfold tryTypes at h
    cases t <;> simp only at h
    · -- htmlBlock
      split at h
      · cases h
      · exact ih fw st h
      · cases h; trivial
    · -- blockCode
      split at h
      · cases h; trivial
      · exact ih fw st h
    · -- heading
      split at h
      · cases h; trivial
      · exact ih fw st h
    · -- quote
      split at h
      · split at h
        · cases h
        · split at h
          · cases h
          · rename_i b stb hb
            cases h
            exact hT _ _ _ _ _ hb
      · exact ih fw st h
    · -- codeFence
      split at h
      · cases h; trivial
      · exact ih fw st h
    · -- thematicBreak
      split at h
      · cases h; trivial
      · exact ih fw st h
    · -- list
      split at h
      · split at h
        · cases h
        · rename_i items fwl stl hrl
          cases h
          exact hL fw st none none [] _ hrl trivial
      · exact ih fw st h
    · -- table
      split at h
      · split at h
        · cases h; trivial
        · exact ih fw st h
      · exact ih fw st h
    · -- footnote
      split at h
      · split at h
        · cases h
        · split at h
          · exact ih _ _ h
          · cases h; trivial
      · exact ih fw st h
    · -- paragraph
      split at h
      · split at h
        · cases h
        · cases h; trivial
        · cases h; trivial
      · exact ih fw st h
    · -- blankLine
      split at h
      · cases h; trivial
      · exact ih fw st h
    · -- linkRefDefBlock
      split at h
      · split at h
        · cases h
        · rename_i ms fwf hf
          split at h
          · exact ih _ _ h
          · cases h
            exact readFootnote_fnOk fw ms _ hf
      · exact ih fw st h

theorem loop_md (cfg : Block.Cfg) (gas : Nat) (hY : TryMd cfg gas) (hP : LoopMd cfg gas) : LoopMd cfg (gas + 1) := by
  intro fw st acc loose b st' h hacc
  simp only [tokLoop] at h
  split at h
  · cases h; exact entriesMd_reverse acc hacc
  · rename_i l hp
    split at h
    · cases h
    · rename_i e fw2 st2 ht
      exact hP fw2 st2 _ loose b st' h ⟨hY fw st l cfg.types e fw2 st2 ht, hacc⟩
    · exact hP fw.next st acc true b st' h hacc

theorem tok_md (cfg : Block.Cfg) (gas : Nat) (hP : LoopMd cfg gas) : TokMd cfg (gas + 1) := by
  intro lines start st b st' h
  simp only [tokenizeBlock] at h
  exact hP _ _ _ _ _ _ h trivial

theorem all_md (cfg : Block.Cfg) : ∀ (gas : Nat), TokMd cfg gas ∧ LoopMd cfg gas ∧ TryMd cfg gas ∧ ListMd cfg gas
  | 0 => by
    refine ⟨?_, ?_, ?_, ?_⟩
    · intro lines start st b st' h; simp [tokenizeBlock] at h
    · intro fw st acc loose b st' h; simp [tokLoop] at h
    · intro fw st l ts e fw' st' h; simp [tryTypes] at h
    · intro fw st ld nm acc r h; simp [readList] at h
  | gas + 1 => by
    obtain ⟨hT, hP, hY, hL⟩ := all_md cfg gas
    exact ⟨tok_md cfg gas hP, loop_md cfg gas hY hP, try_md cfg gas hT hL hY, list_md cfg gas hT hL⟩

/-- every parse buffer the block phase returns holds only well-formed link reference definitions -/
theorem blockPhase_md (cfg : Block.Cfg) (gas : Nat) (lines : List Str) (b : Buf) (st : St)
    (h : blockPhase cfg gas lines = .ok (b, st)) : EntriesMd b.entries :=
  (all_md cfg gas).1 _ 1 {} b st h

/-! ## 5. The block token constructors build well-formed block tokens -/

open Mistletoe.Document Mistletoe.Py Mistletoe.Scan

theorem isOk_linkRefDefs : ∀ (ms : List FnMatch), (∀ m ∈ ms, fnOk m = true) → isOk (ms.map Document.linkRefDef) = true
  | [], _ => rfl
  | m :: ms, h => by
    have h1 : iOk (Document.linkRefDef m) = true := h m (by simp)
    have h2 := isOk_linkRefDefs ms (fun x hx => h x (by simp [hx]))
    simp only [List.map_cons, isOk, h1, h2, Bool.and_self]

section mk
set_option linter.unusedSectionVars false
variable (cfg : Document.Cfg) (fn : Footnotes.Table) (hs : spanOk cfg.span = true)
include hs

theorem inl_isOk (s : Str) (ks : List Inline) (h : inl cfg fn s = .ok ks) : isOk ks = true :=
  tokenizeInner_isOk cfg.span fn s ks hs h

theorem tableRow_go_ok (ln : Nat) : ∀ (l : List (Option Str × Option Nat)) (r : List Mistletoe.Block),
    Document.tableRow.go cfg fn ln l = .ok r → cellsOk r = true
  | [], r, h => by simp only [Document.tableRow.go] at h; cases h; rfl
  | (c, a) :: rest, r, h => by
    simp only [Document.tableRow.go] at h
    split at h
    · cases h
    · rename_i kids hk
      split at h
      · cases h
      · rename_i more hm
        cases h
        simp only [cellsOk, cellOk, inl_isOk cfg fn hs _ _ hk, tableRow_go_ok ln rest more hm, Bool.and_self]

theorem tableRow_ok (line : Str) (al : List (Option Nat)) (ln : Nat) (r : Mistletoe.Block)
    (h : Document.tableRow cfg fn line al ln = .ok r) : rowOk r = true := by
  unfold Document.tableRow at h
  simp only at h
  split at h
  · cases h
  · rename_i cs hc
    cases h
    exact tableRow_go_ok cfg fn hs ln _ cs hc

theorem tableRows_ok : ∀ (ls : List Str) (al : List (Option Nat)) (ln : Nat) (rs : List Mistletoe.Block),
    Document.tableRows cfg fn ls al ln = .ok rs → rowsOk rs = true
  | [], _, _, rs, h => by simp only [Document.tableRows] at h; cases h; rfl
  | l :: rest, al, ln, rs, h => by
    simp only [Document.tableRows] at h
    split at h
    · cases h
    · rename_i r hr
      split at h
      · cases h
      · rename_i more hm
        cases h
        simp only [rowsOk, tableRow_ok cfg fn hs _ _ _ _ hr, tableRows_ok rest al (ln + 1) more hm, Bool.and_self]

mutual
theorem mkBlock_bOk : ∀ (e : Entry) (b : Mistletoe.Block), mkBlock cfg fn e = .ok (some b) → EntryWF e → EntryMd e → bOk b = true
  | .blockCode ls ln og, b, h, _, _ => by simp only [mkBlock] at h; cases h; rfl
  | .heading lvl content closing ln og, b, h, _, _ => by
    simp only [mkBlock] at h
    split at h
    · cases h
    · rename_i kids hk; cases h; exact inl_isOk cfg fn hs _ _ hk
  | .quote inner lo ln og, b, h, hw, hm => by
    simp only [mkBlock] at h
    split at h
    · cases h
    · rename_i kids hk; cases h
      exact mkBlocks_bsOk inner kids hk (by simpa [EntryWF] using hw) (by simpa [EntryMd] using hm)
  | .codeFence ls p ld info lang ln og, b, h, _, _ => by simp only [mkBlock] at h; cases h; rfl
  | .thematicBreak line ln og, b, h, _, _ => by simp only [mkBlock] at h; cases h; rfl
  | .list items ln og, b, h, hw, hm => by
    simp only [EntryWF] at hw
    simp only [EntryMd] at hm
    simp only [mkBlock] at h
    split at h
    · cases h
    · rename_i its hits
      have := mkItems_bsOk items its hits hw.2 hm
      split at h
      · cases h
      · cases h; exact this
  | .table lines sl ln og, b, h, hw, _ => by
    simp only [EntryWF] at hw
    obtain ⟨l0, l1, rest, hlines, _, hdash⟩ := hw
    subst hlines
    simp only [mkBlock, hdash, if_true] at h
    split at h
    · cases h
    · split at h
      · cases h
      · rename_i header hh
        split at h
        · cases h
        · rename_i rows hr
          cases h
          simp only [bOk, tableRow_ok cfg fn hs _ _ _ _ hh, tableRows_ok cfg fn hs _ _ _ _ hr, Bool.and_self]
  | .footnote ms ln og, b, h, _, _ => by simp only [mkBlock] at h; cases h
  | .linkRefDefs ms ln og, b, h, _, hm => by
    simp only [mkBlock] at h; cases h
    exact isOk_linkRefDefs ms (by simpa [EntryMd] using hm)
  | .paragraph lines ln og, b, h, _, _ => by
    simp only [mkBlock] at h
    split at h
    · cases h
    · rename_i kids hk; cases h; exact inl_isOk cfg fn hs _ _ hk
  | .setext lines ln og, b, h, _, _ => by
    simp only [mkBlock] at h
    split at h
    · cases h
    · split at h
      · cases h
      · rename_i kids hk; cases h; exact inl_isOk cfg fn hs _ _ hk
  | .htmlBlock lines ln og, b, h, _, _ => by simp only [mkBlock] at h; cases h; rfl
  | .blankLine ln og, b, h, _, _ => by simp only [mkBlock] at h; cases h; rfl
theorem mkBlocks_bsOk : ∀ (es : List Entry) (bs : List Mistletoe.Block), mkBlocks cfg fn es = .ok bs → EntriesWF es → EntriesMd es →
    bsOk bs = true
  | [], bs, h, _, _ => by simp only [mkBlocks] at h; cases h; rfl
  | e :: es, bs, h, hw, hm => by
    simp only [EntriesWF] at hw
    simp only [EntriesMd] at hm
    simp only [mkBlocks] at h
    split at h
    · cases h
    · rename_i b hb
      split at h
      · cases h
      · rename_i bs' hbs
        have h2 := mkBlocks_bsOk es bs' hbs hw.2 hm.2
        cases h
        cases b with
        | none => exact h2
        | some x =>
          simp only [bsOk, mkBlock_bOk e x hb hw.1 hm.1, h2, Bool.and_self]
theorem mkItems_bsOk : ∀ (is : List Item) (bs : List Mistletoe.Block), mkItems cfg fn is = .ok bs → ItemsWF is → ItemsMd is →
    bsOk bs = true
  | [], bs, h, _, _ => by simp only [mkItems] at h; cases h; rfl
  | .mk inner lo ind pre ld ln og :: rest, bs, h, hw, hm => by
    simp only [ItemsWF, ItemWF] at hw
    simp only [ItemsMd, ItemMd] at hm
    simp only [mkItems] at h
    split at h
    · cases h
    · rename_i kids hk
      split at h
      · cases h
      · rename_i more hmore
        cases h
        simp only [bsOk, bOk, mkBlocks_bsOk inner kids hk hw.1.2 hm.1, mkItems_bsOk rest more hmore hw.2 hm.2, Bool.and_self]
end
end mk

/-- **Every document the parser builds is well formed** (`MdOk`), under every block-token list and every
    span-token list without the contrib classes; `lines` complete as `Document.__init__` makes them. -/
theorem parseLines_mdOk (cfg : Document.Cfg) (gas : Nat) (lines : List Str) (d : Doc)
    (hl : ∀ s ∈ lines, NlEnd s) (hs : spanOk cfg.span = true)
    (h : Document.parseLines cfg gas lines = .ok d) : MdOk d := by
  unfold Document.parseLines at h
  split at h
  · cases h
  · rename_i buf st hb
    simp only at h
    split at h
    · cases h
    · rename_i kids hk
      cases h
      exact mkBlocks_bsOk cfg _ hs buf.entries kids hk (blockPhase_wf cfg.block gas lines buf st hl hb)
        (blockPhase_md cfg.block gas lines buf st hb)

theorem parse_mdOk (cfg : Document.Cfg) (gas : Nat) (t : Str) (d : Doc) (hs : spanOk cfg.span = true)
    (h : Document.parse cfg gas t = .ok d) : MdOk d :=
  parseLines_mdOk cfg gas _ d (Props.C13.normalize_str_nlEnd t) hs h

/-! ## 6. Parse-and-render with the Markdown renderer is total -/

open Mistletoe.Lines

/-- the span-token list `MarkdownRenderer` installs (regenerated from /repo) has none of the contrib classes -/
theorem markdown_cfg_ok (cfg : Document.Cfg) (hc : Config.markdown = some cfg) : spanOk cfg.span = true := by
  have : (match Config.markdown with | some c => spanOk c.span | none => true) = true := by decide +kernel
  rw [hc] at this; exact this

/-- the configuration exists, and it is the literal one -/
def mdCfg : Document.Cfg :=
  { block := { types := [.linkRefDefBlock, .blankLine, .htmlBlock, .blockCode, .heading, .quote, .codeFence, .thematicBreak,
                         .list, .table, .paragraph] },
    span := [.escapeSequence, .htmlSpan, .strikethrough, .autoLink, .coreTokens, .inlineCode, .lineBreak] }

theorem markdown_cfg_literal : (match Config.markdown with
    | some c => c.block.types == mdCfg.block.types && c.block.tableInterrupt == mdCfg.block.tableInterrupt && c.span == mdCfg.span
    | none => false) = true := by decide +kernel

/-- the general form: any block-token list, any span-token list without Math / GithubWiki -/
theorem markdown_total_of_spanOk (cfg : Document.Cfg) (hs : spanOk cfg.span = true) (gas : Nat) (t : Str)
    (hg : gasBound cfg.block (docBuf (normalize (.str t))) ≤ gas) (o : Opts) :
    ∃ d out, Document.parse cfg gas t = .ok d ∧ renderRes o d = .ok out := by
  obtain ⟨d, hd⟩ := Props.C01.C01_parse_terminates cfg gas t hg
  obtain ⟨out, hout⟩ := renderRes_total (parse_mdOk cfg gas t d hs hd) o
  exact ⟨d, out, hd, hout⟩

/-- **Parse-and-render with the Markdown renderer returns a string for every text**: with the token
    lists `MarkdownRenderer` installs (regenerated from /repo) and enough gas, `Document(text)` returns a
    document and `MarkdownRenderer(**o).render` returns a string on it, for every option set `o`
    (every `max_line_length : Option Int`, both values of `normalize_whitespace`): no `KeyError` from the
    render map, no `TypeError` from a missing title delimiter / label / table header. -/
theorem C01_markdown_total (cfg : Document.Cfg) (hc : Config.markdown = some cfg) (gas : Nat) (t : Str)
    (hg : gasBound cfg.block (docBuf (normalize (.str t))) ≤ gas) (o : Opts) :
    ∃ d out, Document.parse cfg gas t = .ok d ∧ renderRes o d = .ok out :=
  markdown_total_of_spanOk cfg (markdown_cfg_ok cfg hc) gas t hg o

/-- and the only error value parse-and-render can return at all (too little gas) is `.fuel` -/
theorem C01_markdown_no_raise (cfg : Document.Cfg) (hc : Config.markdown = some cfg) (gas : Nat) (t : Str) (o : Opts) (e : Err)
    (h : (Document.parse cfg gas t).bind (renderRes o) = .err e) : e = .fuel := by
  cases hd : Document.parse cfg gas t with
  | err e' =>
    rw [hd] at h
    cases h
    exact Props.C01.C01_parse_no_raise cfg gas t _ hd
  | ok d =>
    rw [hd] at h
    obtain ⟨out, hout⟩ := renderRes_total (parse_mdOk cfg gas t d (markdown_cfg_ok cfg hc) hd) o
    simp only [Res.bind] at h
    rw [hout] at h; cases h

/-! ### Non-vacuity -/

example : Config.markdown.isSome = true := by decide +kernel

/-- the theorem applied: with `gasBound` gas, every text, every option set -/
example (cfg : Document.Cfg) (hc : Config.markdown = some cfg) (t : Str) (o : Opts) :
    ∃ d out, Document.parse cfg (gasBound cfg.block (docBuf (normalize (.str t)))) t = .ok d ∧ renderRes o d = .ok out :=
  C01_markdown_total cfg hc _ t (Nat.le_refl _) o

/-- a table, a nested list, a code fence, a link reference definition (with a title) and emphasis -/
def sample : Str :=
  "| a | *b* |\n|---|:-:|\n| 1 | 2 |\n\n- x\n  - **y**\n\n```py\nz\n```\n\n[r]: /u 'T'\n\n[q][r] *e*\n".toList

set_option maxRecDepth 100000 in
example : (match Document.parse mdCfg 60 sample with
    | .ok d =>
      mdOk d && (renderRes {} d).isOk && (renderRes { maxLineLength := some 3 } d).isOk &&
        (renderRes { maxLineLength := some (-5), normalizeWhitespace := true } d).isOk &&
        (match d.kids with
         | [.table _ [.tableRow _ [.tableCell _ _ _, .tableCell _ [.emphasis _ _] _] _] [_] _, .blankLine _,
            .list _ _ [.listItem _ _ _ _ [.paragraph _ _, .list _ _ _ _] _] _, .blankLine _, .codeFence _ _ _ _ _ _, .blankLine _,
            .linkRefDefBlock [.linkRefDef _ _ _ _ (some _)] _, .blankLine _,
            .paragraph [.link _ _ .full (some _) _ _, .rawText _, .emphasis _ _] _] => true
         | _ => false)
    | .err _ => false) = true := by decide +kernel

/-- `MdOk` is not trivially true: a Math token, a table without header, a row outside a table, an inline link whose
    title has no delimiter — each makes the renderer raise -/
example : ¬ MdOk { kids := [.paragraph [.math ['$', 'x', '$']] 1], footnotes := [] } := by decide
example : ¬ MdOk { kids := [.table [none] [] [] 1], footnotes := [] } := by decide
example : ¬ MdOk { kids := [.tableRow [] [] 1], footnotes := [] } := by decide
example : ¬ MdOk { kids := [.paragraph [.link ['u'] ['t'] .uri none none []] 1], footnotes := [] } := by decide
example : renderRes {} { kids := [.table [none] [] [] 1], footnotes := [] } = .err .type := by decide +kernel

end Mistletoe.Proofs.MdTotal
