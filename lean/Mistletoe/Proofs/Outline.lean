/-
  Lemmas for C19: the list lines `TocRenderer.toc` builds for an outline parse to a list nested
  exactly as the outline.

  An outline is a forest `List O` (`O.node text kids`); `flatten lv` lists it in pre-order with
  levels (`kids` one level deeper); `build` / `toForest` rebuild the forest from a heading list and
  `isOutline` says nothing is left over (`isOutline_iff`: exactly the flattenings of non-empty forests).
  `lns col n forest` are the toc lines as the tokenizer sees them: the node at depth d is the line
  `col + 4·d` spaces, "- ", its text, "\n", with consecutive ghost origins from `n`.

  Parse (`list_ok`, `item_ok`, by mutual structural recursion on the forest; `need*` is the gas used):
  * `ListItem.read` on a node's line takes the marker (indentation `col` ≤ 3, content offset `col + 2`),
    then every line of the node's descendants (indented by ≥ `col + 4` ≥ the offset: `parse_continuation`
    strips `col + 2` columns, leaving the kids' lines at indentation 2), and stops at the next sibling's
    line (less indentation than the offset, a marker, no interrupt) or at the end of the buffer;
  * the item's nested `tokenize_block` reads one `Paragraph` with the title (the kids' first line
    interrupts it: `List.check_interrupts_paragraph`), then a `List` for the kids — recursively;
  * `List.read` loops over the siblings with the same leader "-"; nothing is loose (no blank lines).

  Final statements (end of the file):
  * `C19_outline_parses`: `tokenize_block` / `blockPhase` on the lines of a non-empty outline with plain-word titles
    returns exactly one `List`, `expItems 0 n os` - nested as the forest (`needL_eq`: the gas is `K + 1` per heading);
  * `C19_outline_lines`: `Toc.tocLines (flatten lv os)` are these lines (base level `lv`);
  * `C19_outline_toc`, `C19_toc_nested`: the two together, the second for a heading list `hs` with `isOutline hs`
    (`isOutline_eq_levels`: no heading shallower than the first, none more than one level deeper than the one before);
  * `C19_config_current_list`: the token lists of the Html/Toc renderer (and the default ones) satisfy `ListCfg`;
  * a sample outline (depth 3, six headings), by the theorems and by kernel evaluation.

  (`Model/Toc.lean` brings the AST type `Mistletoe.Block` into scope, whose constructors `Block.heading`, … live in
  this namespace; the scanners of the same name are therefore written `Scan.heading`, `Scan.thematicBreak`, ….)
-/
import Mistletoe.Proofs.Wrap
import Mistletoe.Model.Toc
import Mistletoe.Model.Config
namespace Mistletoe.Block
open Mistletoe Mistletoe.Py Mistletoe.Scan

/-! ### Lines that begin, after at most three spaces, with a list-marker character -/

/-- no token type consulted before `List` (other than `Table`, `Paragraph`) starts on the line -/
structure NoEarly (s : Str) : Prop where
  html : htmlBlockStart s = .ok none
  bc : blockCodeStart s = false
  hd : Scan.heading s = none
  qt : quoteStart s = false
  cf : codeFenceStart s = none
  tb : Scan.thematicBreak s = false
  br : startsWith ['['] (lstrip s) = false
  bl : Scan.blankLine s = false

section LeadN
variable {c : Char} (hc : LeadChar c) (n : Nat) (hn : n < 4) (r : Str)
include hc hn

theorem leadN_upTo3 : upTo3Spaces (List.replicate n ' ' ++ c :: r) = some (n, c :: r) := upTo3_rep n c r hc.n_sp hn

theorem leadN_heading : Scan.heading (List.replicate n ' ' ++ c :: r) = none := by
  unfold Scan.heading; rw [leadN_upTo3 hc n hn]; simp [span, hc.n_hash]

theorem leadN_codeFence : codeFenceStart (List.replicate n ' ' ++ c :: r) = none := by
  unfold codeFenceStart Scan.codeFence; rw [leadN_upTo3 hc n hn]; simp [hc.n_bt, hc.n_tilde]

omit hn in
theorem leadN_quote : quoteStart (List.replicate n ' ' ++ c :: r) = false := by
  simp [quoteStart, lstripSp_rep n c r hc.n_sp, startsWith, isPrefix_ne _ _ _ _ hc.n_gt]

omit hn in
theorem leadN_lstrip : lstrip (List.replicate n ' ' ++ c :: r) = c :: r := lstrip_rep n c r hc.nsp

omit hn in
theorem leadN_bracket : startsWith ['['] (lstrip (List.replicate n ' ' ++ c :: r)) = false := by
  simp [leadN_lstrip hc n, startsWith, isPrefix_ne _ _ _ _ hc.n_lb]

omit hn in
theorem leadN_blankLine : Scan.blankLine (List.replicate n ' ' ++ c :: r) = false := by
  simp [Scan.blankLine, ws, hc.nsp]

omit hn in
theorem leadN_nonblank : isBlank (List.replicate n ' ' ++ c :: r) = false := by simp [isBlank, hc.nsp]

theorem leadN_blockCode : blockCodeStart (List.replicate n ' ' ++ c :: r) = false := by
  unfold blockCodeStart replaceTab1
  have hs : (' ' : Char) ≠ '\t' := by decide
  obtain rfl | rfl | rfl | rfl : n = 0 ∨ n = 1 ∨ n = 2 ∨ n = 3 := by omega
  all_goals simp [List.replicate, replaceTab_plain _ _ hc.n_tab, replaceTab_plain _ _ hs, startsWith, isPrefix_ne _ _ _ _ hc.n_sp]

theorem leadN_html : htmlBlockStart (List.replicate n ' ' ++ c :: r) = .ok none := by
  unfold htmlBlockStart
  simp only [leadN_lstrip hc n]
  have hlen : ¬ ((List.replicate n ' ' ++ c :: r).length - (c :: r).length ≥ 4) := by simp; omega
  simp only [hlen, if_false]
  have := lead_html hc r
  unfold htmlBlockStart at this
  simp only [lead_lstrip hc] at this
  have hlen0 : ¬ ((c :: r).length - (c :: r).length ≥ 4) := by simp
  simpa only [hlen0, if_false] using this

theorem leadN_noEarly (htb : Scan.thematicBreak (List.replicate n ' ' ++ c :: r) = false) : NoEarly (List.replicate n ' ' ++ c :: r) :=
  ⟨leadN_html hc n hn r, leadN_blockCode hc n hn r, leadN_heading hc n hn r, leadN_quote hc n r, leadN_codeFence hc n hn r, htb,
   leadN_bracket hc n r, leadN_blankLine hc n r⟩

end LeadN

/-- the dispatcher skips the types before `List` on such a line -/
theorem tryTypes_noEarly (cfg : Cfg) (fw : FW) (st : St) (l' : Line) (h : NoEarly l'.s) (post : List BTok) (g : Nat) :
    ∀ (pre : List BTok), .list ∉ pre → .paragraph ∉ pre → .table ∉ pre →
      tryTypes cfg (g + 1 + pre.length) fw st l' (pre ++ .list :: post) = tryTypes cfg (g + 1) fw st l' (.list :: post)
  | [], _, _, _ => rfl
  | x :: pre, hnl, hnp, hnt => by
    have ih := tryTypes_noEarly cfg fw st l' h post g pre
      (fun h => hnl (List.mem_cons_of_mem _ h)) (fun h => hnp (List.mem_cons_of_mem _ h)) (fun h => hnt (List.mem_cons_of_mem _ h))
    have e : g + 1 + (x :: pre).length = (g + 1 + pre.length) + 1 := by simp only [List.length_cons]; omega
    rw [e, List.cons_append]
    conv => lhs; unfold tryTypes
    cases x <;> simp only
    · rw [h.html]; exact ih
    · rw [h.bc]; exact ih
    · simp only [readHeading, h.hd]; exact ih
    · rw [h.qt]; exact ih
    · rw [h.cf]; exact ih
    · rw [h.tb]; exact ih
    · exact absurd (List.mem_cons_self ..) hnl
    · exact absurd (List.mem_cons_self ..) hnt
    · rw [h.br]; exact ih
    · exact absurd (List.mem_cons_self ..) hnp
    · rw [h.bl]; exact ih
    · rw [h.br]; exact ih

/-! ### The lines of a table of contents -/

/-- `col` spaces, "- ", the title, "\n" -/
def dashLine (col : Nat) (t : Str) : Str := List.replicate col ' ' ++ '-' :: ' ' :: (t ++ ['\n'])

/-- a plain-word title: begins with an ASCII letter and contains no newline -/
def PlainTitle (t : Str) : Prop := ∃ c r, t = c :: r ∧ isAlpha c = true ∧ '\n' ∉ r

def plainTitle (t : Str) : Bool :=
  match t with
  | c :: r => isAlpha c && !r.contains '\n'
  | [] => false

theorem plainTitle_iff (t : Str) : plainTitle t = true ↔ PlainTitle t := by
  cases t with
  | nil => simp [plainTitle, PlainTitle]
  | cons c r =>
    simp only [plainTitle, PlainTitle, Bool.and_eq_true, Bool.not_eq_eq_eq_not, Bool.not_true, List.cons.injEq]
    constructor
    · rintro ⟨h1, h2⟩; exact ⟨c, r, ⟨rfl, rfl⟩, h1, by intro hm; simp [hm] at h2⟩
    · rintro ⟨c', r', ⟨rfl, rfl⟩, h1, h2⟩; exact ⟨h1, by simpa using h2⟩

theorem dash_lead : LeadChar '-' := leadChar_of _ (by decide)

theorem alpha_plainChar (c : Char) (h : isAlpha c = true) : PlainChar c := plainChar_of c (alpha_plain c h)

section Dash
variable {t : Str} (ht : PlainTitle t) (col : Nat) (hcol : col < 4)
include ht

theorem title_quiet : Quiet (t ++ ['\n']) := by
  obtain ⟨c, r, rfl, hc, _⟩ := ht
  have := quiet_of_plain 0 c (r ++ ['\n']) (by omega) (alpha_plainChar c hc)
  simpa using this

theorem title_nonblank : isBlank (t ++ ['\n']) = false := (title_quiet ht).nb

include hcol in
theorem dash_thematicBreak : Scan.thematicBreak (dashLine col t) = false := by
  obtain ⟨c, r, rfl, hc, _⟩ := ht
  have hp := alpha_plainChar c hc
  unfold Scan.thematicBreak dashLine
  rw [leadN_upTo3 dash_lead col hcol]
  simp [ws, hp.nsp, hp.n_dash]

include hcol in
theorem dash_noEarly : NoEarly (dashLine col t) :=
  leadN_noEarly dash_lead col hcol _ (dash_thematicBreak ht col hcol)

include hcol in
omit ht in
theorem dash_listStart : listStart (dashLine col t) = true := by
  unfold listStart dashLine
  rw [leadN_upTo3 dash_lead col hcol]
  simp [listMarker, span]

include hcol in
theorem dash_parseMarker : parseMarker (dashLine col t) = some (col, col + 2, ['-'], t ++ ['\n']) := by
  obtain ⟨c, r, rfl, hc, _⟩ := ht
  have hp := alpha_plainChar c hc
  have hli : Scan.listItem (dashLine col (c :: r)) =
      some { g1 := List.replicate col ' ', g2 := ['-'], g3 := [' '], rest := c :: r ++ ['\n'] } := by
    unfold Scan.listItem dashLine
    rw [leadN_upTo3 dash_lead col hcol]
    have := span_ws_rep 1 c (r ++ ['\n']) hp.nsp
    simp only [List.replicate_one, List.singleton_append] at this
    simp [listMarker, atEnd, this]
  unfold parseMarker
  rw [hli]
  have hnt : '\t' ∉ (List.replicate col ' ' ++ ['-'] ++ [' ']) := by
    simp only [List.mem_append, List.mem_replicate, List.mem_singleton, not_or]
    exact ⟨⟨by rintro ⟨_, e⟩; exact absurd e (by decide), by decide⟩, by decide⟩
  simp only [expandtabs, expandtabsAux_noTab _ 0 hnt]
  simp

include hcol in
theorem dash_listInterrupts : listInterrupts (dashLine col t) = true := by
  unfold listInterrupts
  rw [dash_parseMarker ht col hcol]
  simp [title_nonblank ht, show isDigit '-' = false by decide]

theorem title_noNl : '\n' ∉ t := by
  obtain ⟨c, r, rfl, hc, hr⟩ := ht
  simp only [List.mem_cons, not_or]
  exact ⟨fun e => (alpha_plainChar c hc).n_nl e.symm, hr⟩

theorem dash_contLine : ContLine (dashLine col t) :=
  ⟨col, '-', ' ' :: t, by simp [dashLine], by decide, by simp [title_noNl ht]⟩

/-- a descendant's line behind the item's content offset -/
theorem dash_continuation (W : Nat) : parseContinuation (dashLine (W + col) t) W = some (dashLine col t) := by
  have := parseContinuation_indented W (dashLine col t) (dash_contLine ht col)
  have e : List.replicate W ' ' ++ dashLine col t = dashLine (W + col) t := by
    simp [dashLine, ← List.replicate_append_replicate]
  rw [e] at this; exact this

/-- a sibling's line is not indented enough to continue the item -/
theorem dash_noContinuation (W : Nat) (h : col < W) : parseContinuation (dashLine col t) W = none := by
  have hsp : ('-' : Char) ≠ ' ' := by decide
  have htab : ('-' : Char) ≠ '\t' := by decide
  have hcont : continuation (dashLine col t) = some (List.replicate col ' ', '-' :: ' ' :: t ++ ['\n']) := by
    unfold continuation dashLine
    simp only [span_sptab_rep col '-' _ hsp htab]
    have : span (· != '\n') (' ' :: (t ++ ['\n'])) = (' ' :: t, ['\n']) := by
      have := span_neNl (' ' :: t) [] (by simp [title_noNl ht])
      simpa using this
    simp [ws, show pyIsSpace '-' = false by decide, this]
  unfold parseContinuation
  rw [hcont]
  have hnt : '\t' ∉ List.replicate col ' ' := by
    simp only [List.mem_replicate, not_and]; intro _ e; exact absurd e (by decide)
  have : ¬ (col ≥ W) := by omega
  simp [expandtabs, expandtabsAux_noTab _ 0 hnt, this]

theorem dash_delimiterRow : delimiterRow (dashLine col t) = false := by
  obtain ⟨c, r, rfl, hc, _⟩ := ht
  have hp := alpha_plainChar c hc
  unfold delimiterRow dashLine
  simp only [span_ws_rep col '-' _ (show pyIsSpace '-' = false by decide)]
  have h1 : span ws ('-' :: ' ' :: (c :: r ++ ['\n'])) = ([], '-' :: ' ' :: (c :: r ++ ['\n'])) := by
    simp [span, ws, show pyIsSpace '-' = false by decide]
  have h2 : alignCol ('-' :: ' ' :: (c :: r ++ ['\n'])) = some (['-'], ' ' :: (c :: r ++ ['\n'])) := by
    simp [alignCol, span]
  show (match alignCol (span ws ('-' :: ' ' :: (c :: r ++ ['\n']))).snd with
    | some (_, r3) => delimRest ((List.replicate col ' ' ++ '-' :: ' ' :: (c :: r ++ ['\n'])).length + 1) r3
    | none => false) = false
  simp only [h1, h2]
  simp [delimRest, span, ws, hp.nsp, show pyIsSpace ' ' = true by decide, hp.n_bar]

/-- `ListItem.read`: on a sibling's line no `check_interrupts_paragraph` fires (`List` is not asked, `Table` is not
    asked for a line that carries a marker) -/
theorem anyInterrupt_dash_item (cfg : Cfg) (fw : FW) (l : Line) (hp : fw.peek = some l) (hl : l.s = dashLine col t) (hcol : col < 4) :
    ∀ ts, anyInterrupt cfg fw .list true ts = .ok false
  | [] => rfl
  | x :: ts => by
    have ih := anyInterrupt_dash_item cfg fw l hp hl hcol ts
    have hn := dash_noEarly ht col hcol
    simp only [anyInterrupt]
    split
    · exact ih
    · rename_i hc
      have : interruptsOne cfg fw x = .ok false := by
        unfold interruptsOne
        rw [hp]
        cases x <;> simp [hl, hn.hd, hn.qt, hn.cf, hn.tb, hn.html] at hc ⊢
      rw [this]; exact ih

/-- `Paragraph.read`: a kid's line ends the paragraph of the title (`List.check_interrupts_paragraph`) -/
theorem anyInterrupt_dash_para (cfg : Cfg) (fw : FW) (l : Line) (hp : fw.peek = some l) (hl : l.s = dashLine col t) (hcol : col < 4) :
    ∀ ts, .list ∈ ts → anyInterrupt cfg fw .thematicBreak false ts = .ok true
  | [], hm => by simp at hm
  | x :: ts, hm => by
    have hn := dash_noEarly ht col hcol
    have ih : x ≠ .list → anyInterrupt cfg fw .thematicBreak false ts = .ok true := by
      intro hne
      refine anyInterrupt_dash_para cfg fw l hp hl hcol ts ?_
      rcases List.mem_cons.mp hm with h | h
      · exact absurd h.symm hne
      · exact h
    have hone : ∃ b, interruptsOne cfg fw x = .ok b ∧ (x = .list → b = true) := by
      unfold interruptsOne
      rw [hp]
      cases x <;> simp [hl, hn.html, dash_listInterrupts ht col hcol]
    obtain ⟨b, hb, hbl⟩ := hone
    simp only [anyInterrupt]
    split
    · rename_i hcond
      exact ih (by rintro rfl; simp [hasInterrupt] at hcond)
    · rw [hb]
      cases b with
      | true => rfl
      | false => exact ih (fun e => by have := hbl e; cases this)

end Dash

theorem indentedAll_append (W : Nat) : ∀ (a' a b' b : List Line), IndentedAll W a' a → IndentedAll W b' b →
    IndentedAll W (a' ++ b') (a ++ b)
  | [], [], _, _, _, hb => hb
  | [], _ :: _, _, _, ha, _ => by simp [IndentedAll] at ha
  | _ :: _, [], _, _, ha, _ => by simp [IndentedAll] at ha
  | x' :: a', x :: a, b', b, ha, hb => ⟨ha.1, indentedAll_append W a' a b' b ha.2 hb⟩

/-! ### Outlines -/

/-- an outline: a heading with the headings below it -/
inductive O where
  | node (text : Str) (kids : List O)

mutual
/-- number of headings -/
def sizeO : O → Nat
  | .node _ kids => size kids + 1
def size : List O → Nat
  | [] => 0
  | o :: os => sizeO o + size os
end

mutual
/-- pre-order with levels: `kids` one level deeper -/
def flattenO (lv : Nat) : O → List (Nat × Str)
  | .node t kids => (lv, t) :: flatten (lv + 1) kids
def flatten (lv : Nat) : List O → List (Nat × Str)
  | [] => []
  | o :: os => flattenO lv o ++ flatten lv os
end

mutual
/-- every title is a plain-word title -/
def okO : O → Bool
  | .node t kids => plainTitle t && oks kids
def oks : List O → Bool
  | [] => true
  | o :: os => okO o && oks os
end

mutual
/-- the list lines: a heading at column `col`, the headings below it four columns further in -/
def olinesO (col : Nat) : O → List Str
  | .node t kids => dashLine col t :: olines (col + 4) kids
def olines (col : Nat) : List O → List Str
  | [] => []
  | o :: os => olinesO col o ++ olines col os
end

mutual
/-- the same with ghost origins `n, n + 1, …` -/
def lnsO (col n : Nat) : O → List Line
  | .node t kids => { s := dashLine col t, origin := n } :: lns (col + 4) (n + 1) kids
def lns (col n : Nat) : List O → List Line
  | [] => []
  | o :: os => lnsO col n o ++ lns col (n + sizeO o) os
end

mutual
/-- the item of a heading found on line `n` at indentation `ind`: a paragraph with the title and, if there are
    headings below it, one list of their items (they follow on the next line, at indentation 2 inside the item) -/
def expItem (ind n : Nat) : O → Item
  | .node t kids =>
    .mk (.paragraph [t ++ ['\n']] n n ::
          (if kids.isEmpty then [] else [.list (expItems 2 (n + 1) kids) (n + 1) (n + 1)]))
      false ind (ind + 2) ['-'] n n
def expItems (ind n : Nat) : List O → List Item
  | [] => []
  | o :: os => expItem ind n o :: expItems ind (n + sizeO o) os
end

/-- the content of the item of `o` -/
def expInner (n : Nat) : O → List Entry
  | .node t kids =>
    .paragraph [t ++ ['\n']] n n :: (if kids.isEmpty then [] else [.list (expItems 2 (n + 1) kids) (n + 1) (n + 1)])

/-- the lines `ListItem.read` hands to the nested tokenizer for `o` -/
def itemBuf (n : Nat) : O → List Line
  | .node t kids => { s := t ++ ['\n'], origin := n } :: lns 2 (n + 1) kids

def O.text : O → Str
  | .node t _ => t

mutual
theorem lnsO_length (col n : Nat) : ∀ (o : O), (lnsO col n o).length = sizeO o
  | .node t kids => by simp [lnsO, sizeO, lns_length (col + 4) (n + 1) kids]
theorem lns_length (col n : Nat) : ∀ (os : List O), (lns col n os).length = size os
  | [] => rfl
  | o :: os => by simp [lns, size, lnsO_length col n o, lns_length col (n + sizeO o) os]
end

mutual
theorem indentedO (W : Nat) : ∀ (o : O) (col n : Nat), okO o = true → IndentedAll W (lnsO (W + col) n o) (lnsO col n o)
  | .node t kids, col, n, h => by
    simp only [okO, Bool.and_eq_true] at h
    simp only [lnsO]
    refine ⟨⟨rfl, Or.inr ⟨dash_contLine ((plainTitle_iff t).mp h.1) col, ?_⟩⟩, ?_⟩
    · simp [dashLine, ← List.replicate_append_replicate]
    · have := indented W kids (col + 4) (n + 1) h.2
      rw [show W + (col + 4) = W + col + 4 by omega] at this
      exact this
theorem indented (W : Nat) : ∀ (os : List O) (col n : Nat), oks os = true → IndentedAll W (lns (W + col) n os) (lns col n os)
  | [], _, _, _ => trivial
  | o :: os, col, n, h => by
    simp only [oks, Bool.and_eq_true] at h
    simp only [lns]
    exact indentedAll_append W _ _ _ _ (indentedO W o col n h.1) (indented W os col (n + sizeO o) h.2)
end

theorem dashLine_ne_nl (c : Nat) (t : Str) : dashLine c t ≠ ['\n'] := by
  intro e
  have := congrArg List.length e
  simp [dashLine] at this
  omega

mutual
theorem lnsO_dash (col n : Nat) : ∀ (o : O), ∀ l ∈ lnsO col n o, ∃ c t, l.s = dashLine c t
  | .node t kids => by
    intro l hl
    simp only [lnsO, List.mem_cons] at hl
    rcases hl with rfl | hl
    · exact ⟨col, t, rfl⟩
    · exact lns_dash (col + 4) (n + 1) kids l hl
theorem lns_dash (col n : Nat) : ∀ (os : List O), ∀ l ∈ lns col n os, ∃ c t, l.s = dashLine c t
  | [] => by intro l hl; simp [lns] at hl
  | o :: os => by
    intro l hl
    simp only [lns, List.mem_append] at hl
    rcases hl with hl | hl
    · exact lnsO_dash col n o l hl
    · exact lns_dash col (n + sizeO o) os l hl
end

theorem trailNl_lns (col n : Nat) (os : List O) : trailNl 0 (lns col n os) = 0 := by
  refine trailNl_zero _ 0 ?_ (fun _ => rfl)
  intro l hl
  obtain ⟨c, t, h⟩ := lns_dash col n os l (List.mem_of_getLast? hl)
  rw [h]; exact dashLine_ne_nl c t

/-- the `while True` loop of `ListItem.read` over the item's lines, then a sibling's line: not indented enough,
    carrying a marker, interrupting nothing -- the loop stops there and reports the marker -/
theorem itemLoop_then_marker (cfg : Cfg) (W start : Nat) (l' : Line) (post' : List Line) (m : Nat × Nat × Str × Str)
    (hnc : parseContinuation l'.s W = none) (hm : parseMarker l'.s = some m)
    (hni : ∀ (fw : FW), fw.peek = some l' → anyInterrupt cfg fw .list true cfg.types = .ok false) :
    ∀ (rest' rest pre' buf : List Line) (nl fuel : Nat),
    IndentedAll W rest' rest → rest'.length < fuel →
    itemLoop cfg W fuel ⟨pre' ++ (rest' ++ l' :: post'), pre'.length, start⟩ buf nl =
      .ok (rest.reverse ++ buf, ⟨pre' ++ (rest' ++ l' :: post'), pre'.length + rest'.length, start⟩, some m)
  | _, _, _, _, _, 0, _, hf => by simp at hf
  | [], [], pre', buf, nl, fuel + 1, _, _ => by
    have hp := peek_at pre' l' post' start
    simp only [List.nil_append, List.length_nil, Nat.add_zero, List.reverse_nil]
    simp only [itemLoop, hp, hnc, hm, hni _ hp, Option.isSome_some]
  | [], _ :: _, _, _, _, _ + 1, h, _ => by simp [IndentedAll] at h
  | _ :: _, [], _, _, _, _ + 1, h, _ => by simp [IndentedAll] at h
  | x' :: rest', x :: rest, pre', buf, nl, fuel + 1, h, hf => by
    obtain ⟨⟨ho, hl⟩, hrest⟩ := h
    have hp := peek_at pre' x' (rest' ++ l' :: post') start
    have hn : (FW.next ⟨pre' ++ x' :: (rest' ++ l' :: post'), pre'.length, start⟩) =
        ⟨(pre' ++ [x']) ++ (rest' ++ l' :: post'), (pre' ++ [x']).length, start⟩ := by
      simp [FW.next]
    have ih := fun buf nl => itemLoop_then_marker cfg W start l' post' m hnc hm hni rest' rest (pre' ++ [x']) buf nl fuel hrest
      (by simp only [List.length_cons] at hf; omega)
    have hcont : parseContinuation x'.s W = some x.s := by
      rcases hl with ⟨h1, h2⟩ | ⟨h1, h2⟩
      · rw [h1, h2]; exact parseContinuation_nl W
      · rw [h2]; exact parseContinuation_indented W x.s h1
    have hne : x.s.isEmpty = false := by
      rcases hl with ⟨h1, _⟩ | ⟨⟨n, c, body, h1, _⟩, _⟩ <;> rw [h1] <;> simp
    have el : ({ s := x.s, origin := x'.origin } : Line) = x := by cases x; simp_all
    simp only [List.cons_append, itemLoop, hp, hcont, hne, Bool.false_eq_true, if_false]
    rw [hn, ih, el]
    simp only [List.reverse_cons, List.append_assoc, List.singleton_append, List.length_append,
      List.length_cons, List.length_nil]
    have e : pre'.length + (0 + 1) + rest'.length = pre'.length + (rest'.length + 1) := by omega
    rw [e]

/-- **ListItem.read** up to the nested tokenizer, for an item whose lines `rest'` are followed by the end of the
    buffer or by a sibling's marker line -/
theorem itemLines_core (cfg : Cfg) (ind W : Nat) (ld content : Str) (l0' : Line) (rest' rest post pre : List Line) (start : Nat)
    (prev : Option (Nat × Nat × Str × Str))
    (hmk : prev = some (ind, W, ld, content) ∨ (prev = none ∧ parseMarker l0'.s = some (ind, W, ld, content)))
    (hnb : isBlank content = false) (hrest : IndentedAll W rest' rest) (next : Option (Nat × Nat × Str × Str))
    (hpost : (post = [] ∧ next = none ∧ trailNl 0 rest = 0) ∨
      (∃ l' post' m, post = l' :: post' ∧ next = some m ∧ parseContinuation l'.s W = none ∧ parseMarker l'.s = some m ∧
        ∀ (fw : FW), fw.peek = some l' → anyInterrupt cfg fw .list true cfg.types = .ok false)) :
    itemLines cfg ⟨pre ++ l0' :: (rest' ++ post), pre.length, start⟩ prev =
      .ok (.lines ({ s := content, origin := l0'.origin } :: rest) (start + pre.length) ind W ld (start + pre.length) l0'.origin next
        ⟨pre ++ l0' :: (rest' ++ post), pre.length + (rest'.length + 1), start⟩) := by
  have hp := peek_at pre l0' (rest' ++ post) start
  have hn : (FW.next ⟨pre ++ l0' :: (rest' ++ post), pre.length, start⟩) =
      ⟨(pre ++ [l0']) ++ (rest' ++ post), (pre ++ [l0']).length, start⟩ := by
    simp [FW.next]
  have hln : (FW.lineNumber ⟨(pre ++ [l0']) ++ (rest' ++ post), (pre ++ [l0']).length, start⟩) = start + pre.length := by
    simp [FW.lineNumber]
  have hfuel : rest'.length < FW.remaining ⟨pre ++ l0' :: (rest' ++ post), pre.length, start⟩ + 1 := by
    simp [FW.remaining]; omega
  have hloop : itemLoop cfg W (FW.remaining ⟨pre ++ l0' :: (rest' ++ post), pre.length, start⟩ + 1)
      (FW.next ⟨pre ++ l0' :: (rest' ++ post), pre.length, start⟩) [{ s := content, origin := l0'.origin }] 0 =
      .ok (rest.reverse ++ [{ s := content, origin := l0'.origin }],
        ⟨pre ++ l0' :: (rest' ++ post), pre.length + (rest'.length + 1), start⟩, next) := by
    rw [hn]
    rcases hpost with ⟨rfl, rfl, hnl⟩ | ⟨l', post', m, rfl, rfl, hnc, hm, hni⟩
    · have := itemLoop_indented cfg W start rest' rest (pre ++ [l0']) [{ s := content, origin := l0'.origin }] 0 _ hrest hfuel
      simp only [List.append_nil] at this ⊢
      rw [this, hnl, dropTrailing_zero]
      simp; omega
    · have := itemLoop_then_marker cfg W start l' post' m hnc hm hni rest' rest (pre ++ [l0']) [{ s := content, origin := l0'.origin }] 0 _ hrest hfuel
      rw [this]
      simp; omega
  rw [hn] at hloop
  rcases hmk with rfl | ⟨rfl, h⟩
  · unfold itemLines
    simp only [hp, hnb, Bool.false_eq_true, if_false]
    rw [hn, hloop, hln]
    simp
  · unfold itemLines
    simp only [hp, h, hnb, Bool.false_eq_true, if_false]
    rw [hn, hloop, hln]
    simp

def markerOf (col : Nat) (t : Str) : Nat × Nat × Str × Str := (col, col + 2, ['-'], t ++ ['\n'])

def nextOf (col : Nat) : List O → Option (Nat × Nat × Str × Str)
  | [] => none
  | o :: _ => some (markerOf col o.text)

/-- `ListItem.read` on the line of a heading: the nested tokenizer gets the title and the lines of the headings
    below it, re-indented to column 2; the next marker is the next sibling's, if there is one -/
theorem itemLines_node (cfg : Cfg) (col : Nat) (hcol : col < 4) (t : Str) (kids os : List O)
    (ht : plainTitle t = true) (hk : oks kids = true) (hos : oks os = true) (pre : List Line) (start : Nat)
    (prev : Option (Nat × Nat × Str × Str)) (hprev : prev = none ∨ prev = some (markerOf col t)) :
    itemLines cfg ⟨pre ++ lns col (start + pre.length) (.node t kids :: os), pre.length, start⟩ prev =
      .ok (.lines (itemBuf (start + pre.length) (.node t kids)) (start + pre.length) col (col + 2) ['-']
        (start + pre.length) (start + pre.length) (nextOf col os)
        ⟨pre ++ lns col (start + pre.length) (.node t kids :: os), pre.length + (size kids + 1), start⟩) := by
  have hT := (plainTitle_iff t).mp ht
  have hind : IndentedAll (col + 2) (lns (col + 4) (start + pre.length + 1) kids) (lns 2 (start + pre.length + 1) kids) := by
    have := indented (col + 2) kids 2 (start + pre.length + 1) hk
    rw [show col + 2 + 2 = col + 4 by omega] at this; exact this
  have hmk : prev = some (col, col + 2, ['-'], t ++ ['\n']) ∨
      (prev = none ∧ parseMarker (dashLine col t) = some (col, col + 2, ['-'], t ++ ['\n'])) := by
    rcases hprev with rfl | rfl
    · exact Or.inr ⟨rfl, dash_parseMarker hT col hcol⟩
    · exact Or.inl rfl
  have key := itemLines_core cfg col (col + 2) ['-'] (t ++ ['\n']) { s := dashLine col t, origin := start + pre.length }
    (lns (col + 4) (start + pre.length + 1) kids) (lns 2 (start + pre.length + 1) kids)
    (lns col (start + pre.length + sizeO (.node t kids)) os) pre start prev hmk (title_nonblank hT) hind (nextOf col os) (by
      cases os with
      | nil => exact Or.inl ⟨rfl, rfl, trailNl_lns _ _ _⟩
      | cons o' os' =>
        cases o' with
        | node t' kids' =>
        simp only [oks, okO, Bool.and_eq_true] at hos
        have hT' := (plainTitle_iff t').mp hos.1.1
        refine Or.inr ⟨{ s := dashLine col t', origin := start + pre.length + sizeO (.node t kids) },
          lns (col + 4) (start + pre.length + sizeO (.node t kids) + 1) kids' ++
            lns col (start + pre.length + sizeO (.node t kids) + sizeO (.node t' kids')) os', markerOf col t', ?_, rfl,
          dash_noContinuation hT' col (col + 2) (by omega), dash_parseMarker hT' col hcol, ?_⟩
        · simp [lns, lnsO]
        · intro fw hp
          exact anyInterrupt_dash_item hT' col cfg fw _ hp rfl hcol cfg.types)
  simp only [lns_length] at key
  simpa [lns, lnsO, itemBuf] using key

/-! ### The parse -/

mutual
/-- gas that suffices for the item of `o` / for the list of `os` (`K = cfg.types.length + 4`) -/
def needO (K : Nat) : O → Nat
  | .node _ kids => needL K kids + K
def needL (K : Nat) : List O → Nat
  | [] => 0
  | o :: os => needO K o + needL K os + 1
end

/-- what is asked of the token-type list: `List` is consulted before `Table` and `Paragraph` -/
structure ListCfg (cfg : Cfg) (pre post : List BTok) : Prop where
  types : cfg.types = pre ++ .list :: post
  nl : .list ∉ pre
  np : .paragraph ∉ pre
  nt : .table ∉ pre
  par : .paragraph ∈ post

/-- the nested `tokenize_block` of the item of `o` -/
def ItemClaim (cfg : Cfg) (K : Nat) (o : O) : Prop :=
  ∀ gas, needO K o ≤ gas → ∀ (n : Nat) (st : St),
    tokenizeBlock cfg gas (itemBuf n o) n st = .ok ({ entries := expInner n o, loose := false }, st)

/-- `List.read` entered on the first line of `os` (no leader yet), or re-entered on a later sibling (leader "-",
    the marker handed on by the previous `ListItem.read`) -/
def LdNm (col : Nat) (os : List O) (ld : Option Str) (nm : Option (Nat × Nat × Str × Str)) : Prop :=
  (ld = none ∧ nm = none) ∨ (ld = some ['-'] ∧ nm = nextOf col os)

def ListClaim (cfg : Cfg) (K : Nat) (os : List O) : Prop :=
  ∀ col, col < 4 → ∀ gas, needL K os ≤ gas → ∀ (pre : List Line) (start : Nat) (st : St) (acc : List Item) ld nm, LdNm col os ld nm →
    readList cfg gas ⟨pre ++ lns col (start + pre.length) os, pre.length, start⟩ st ld nm acc =
      .ok (acc.reverse ++ expItems col (start + pre.length) os,
           ⟨pre ++ lns col (start + pre.length) os, pre.length + size os, start⟩, st)

theorem expItem_eq (col n : Nat) (o : O) : expItem col n o = .mk (expInner n o) false col (col + 2) ['-'] n n := by
  cases o; rfl

theorem outline_list_step (cfg : Cfg) (K : Nat) (o : O) (os : List O) (ho : okO o = true) (hos : oks os = true)
    (hI : ItemClaim cfg K o) (hL : os ≠ [] → ListClaim cfg K os) : ListClaim cfg K (o :: os) := by
  intro col hcol gas hg pre start st acc ld nm hln
  cases o with
  | node t kids =>
  simp only [okO, Bool.and_eq_true] at ho
  obtain ⟨g, rfl⟩ : ∃ g, gas = g + 1 := ⟨gas - 1, by simp only [needL] at hg; omega⟩
  have hg1 : needO K (.node t kids) ≤ g := by simp only [needL] at hg; omega
  have hg2 : needL K os ≤ g := by simp only [needL] at hg; omega
  have hprev : nm = none ∨ nm = some (markerOf col t) := by
    rcases hln with ⟨_, h⟩ | ⟨_, h⟩
    · exact Or.inl h
    · exact Or.inr h
  have hil := itemLines_node cfg col hcol t kids os ho.1 ho.2 hos pre start nm hprev
  have htok := hI g hg1 (start + pre.length) st
  -- the recursive call on the siblings
  have hrec : os ≠ [] → ∀ acc', readList cfg g
      ⟨pre ++ lns col (start + pre.length) (.node t kids :: os), pre.length + (size kids + 1), start⟩ st (some ['-']) (nextOf col os) acc' =
      .ok (acc'.reverse ++ expItems col (start + pre.length + sizeO (.node t kids)) os,
           ⟨pre ++ lns col (start + pre.length) (.node t kids :: os), pre.length + size (.node t kids :: os), start⟩, st) := by
    intro hne acc'
    have := hL hne col hcol g hg2 (pre ++ lnsO col (start + pre.length) (.node t kids)) start st acc' (some ['-']) (nextOf col os) (Or.inr ⟨rfl, rfl⟩)
    simp only [List.length_append, lnsO_length, ← Nat.add_assoc, List.append_assoc] at this
    simp only [lns, size, sizeO, ← Nat.add_assoc] at this ⊢
    exact this
  have hom : otherMarkerType ld nm = false := by
    rcases hln with ⟨rfl, _⟩ | ⟨rfl, rfl⟩
    · exact otherMarkerType_none_left _
    · simp only [nextOf, otherMarkerType, markerOf]; decide
  simp only [readList, hom, Bool.false_eq_true, ↓reduceIte, hil, htok]
  have hsm : sameMarkerType ['-'] ['-'] = true := by decide
  have hstop : ∀ (fwEnd : FW), (Res.ok ((match (expItem col (start + pre.length) (.node t kids) :: acc) with
        | .mk inner loose i p l n g :: rest => Item.mk inner (decide (inner.length > 1) && loose) i p l n g :: rest
        | [] => []).reverse, fwEnd, st) : Res (List Item × FW × St)) =
      .ok (acc.reverse ++ [expItem col (start + pre.length) (.node t kids)], fwEnd, st) := by
    intro fwEnd; simp [expItem]
  have hitem : Item.mk (expInner (start + pre.length) (.node t kids)) false col (col + 2) ['-'] (start + pre.length) (start + pre.length) =
      expItem col (start + pre.length) (.node t kids) := (expItem_eq _ _ _).symm
  simp only [hitem]
  cases os with
  | nil =>
    simp only [nextOf, expItems, size, sizeO, Nat.add_zero]
    rcases hln with ⟨rfl, _⟩ | ⟨rfl, _⟩
    · exact hstop _
    · exact hstop _
  | cons o' os' =>
    have hr := hrec (by simp)
    simp only [expItems]
    rcases hln with ⟨rfl, _⟩ | ⟨rfl, _⟩
    · simp only [nextOf] at hr ⊢
      rw [hr]; simp [expItems]
    · simp only [nextOf] at hr ⊢
      rw [hr]; simp [expItems]

theorem lns_head (col n : Nat) (o : O) (os : List O) :
    lns col n (o :: os) = { s := dashLine col o.text, origin := n } :: (lns col n (o :: os)).tail := by
  cases o; simp [lns, lnsO, O.text]

/-- the dispatch loop standing on the first line of the lines of `os`, which run to the end of the buffer:
    one `List` entry with the expected items, then the loop ends -/
theorem tokLoop_outline (cfg : Cfg) (tpre tpost : List BTok) (hc : ListCfg cfg tpre tpost) (K : Nat) (o : O) (os : List O)
    (hok : oks (o :: os) = true) (hL : ListClaim cfg K (o :: os)) (col : Nat) (hcol : col < 4)
    (gas : Nat) (hg : needL K (o :: os) + tpre.length + 3 ≤ gas) (pre : List Line) (start : Nat) (st : St)
    (acc : List Entry) (loose : Bool) :
    tokLoop cfg gas ⟨pre ++ lns col (start + pre.length) (o :: os), pre.length, start⟩ st acc loose =
      .ok ({ entries := (Entry.list (expItems col (start + pre.length) (o :: os)) (start + pre.length) (start + pre.length) :: acc).reverse,
             loose := loose }, st) := by
  obtain ⟨g, rfl⟩ : ∃ g, gas = ((g + 1 + tpre.length) + 1) := ⟨gas - tpre.length - 2, by omega⟩
  have hT : plainTitle o.text = true := by
    cases o; simp only [oks, okO, Bool.and_eq_true] at hok; exact hok.1.1
  have hT' := (plainTitle_iff _).mp hT
  have hp : FW.peek ⟨pre ++ lns col (start + pre.length) (o :: os), pre.length, start⟩ =
      some { s := dashLine col o.text, origin := start + pre.length } := by
    rw [lns_head]; exact peek_at pre _ _ start
  have hne := dash_noEarly hT' col hcol
  have hrl := hL col hcol g (by omega) pre start st [] none none (Or.inl ⟨rfl, rfl⟩)
  have hend : FW.peek ⟨pre ++ lns col (start + pre.length) (o :: os), pre.length + size (o :: os), start⟩ = none := by
    have := peek_end (pre ++ lns col (start + pre.length) (o :: os)) start
    simpa [lns_length] using this
  simp only [tokLoop, hp, hc.types]
  rw [tryTypes_noEarly cfg _ st _ hne tpost g tpre hc.nl hc.np hc.nt]
  simp only [tryTypes, dash_listStart col hcol, if_true, hrl, List.reverse_nil, List.nil_append]
  rw [show g + 1 + tpre.length = (g + tpre.length) + 1 by omega]
  simp only [tokLoop, hend]

theorem paragraph_mem {cfg : Cfg} {tpre tpost : List BTok} (hc : ListCfg cfg tpre tpost) : BTok.paragraph ∈ cfg.types := by
  rw [hc.types]; simp [hc.par]

theorem list_mem {cfg : Cfg} {tpre tpost : List BTok} (hc : ListCfg cfg tpre tpost) : BTok.list ∈ cfg.types := by
  rw [hc.types]; simp

/-- `Paragraph.read` on the title: one line; the first line of the headings below (if any) interrupts it -/
theorem readParagraph_title (cfg : Cfg) (tpre tpost : List BTok) (hc : ListCfg cfg tpre tpost) (so : Bool) (t : Str) (_ht : PlainTitle t)
    (n : Nat) (kids : List O) (hk : oks kids = true) :
    readParagraph cfg so ⟨itemBuf n (.node t kids), 0, n⟩ (t ++ ['\n']) =
      .ok ([t ++ ['\n']], false, ⟨itemBuf n (.node t kids), 1, n⟩) := by
  unfold readParagraph
  have hn : (FW.next ⟨itemBuf n (.node t kids), 0, n⟩) = ⟨itemBuf n (.node t kids), 1, n⟩ := rfl
  rw [hn]
  cases kids with
  | nil =>
    simp [paragraphLoop, FW.peek, itemBuf, lns]
  | cons k ks =>
    have hT : plainTitle k.text = true := by
      cases k; simp only [oks, okO, Bool.and_eq_true] at hk; exact hk.1.1
    have hT' := (plainTitle_iff _).mp hT
    have hp : FW.peek ⟨itemBuf n (.node t (k :: ks)), 1, n⟩ = some { s := dashLine 2 k.text, origin := n + 1 } := by
      simp only [itemBuf]; rw [lns_head]; rfl
    have hi := anyInterrupt_dash_para hT' 2 cfg _ _ hp rfl (by omega) cfg.types (list_mem hc)
    have hnb : isBlank (dashLine 2 k.text) = false := leadN_nonblank dash_lead 2 _
    simp only [paragraphLoop, hp, hnb, Bool.false_eq_true, if_false, hi]
    simp

theorem outline_item_step (cfg : Cfg) (tpre tpost : List BTok) (hc : ListCfg cfg tpre tpost) (t : Str) (kids : List O)
    (ho : okO (.node t kids) = true) (hL : kids ≠ [] → ListClaim cfg (cfg.types.length + 4) kids) :
    ItemClaim cfg (cfg.types.length + 4) (.node t kids) := by
  intro gas hg n st
  simp only [okO, Bool.and_eq_true] at ho
  have hT := (plainTitle_iff _).mp ho.1
  have hlen : tpre.length + 1 ≤ cfg.types.length := by rw [hc.types]; simp
  obtain ⟨g, rfl⟩ : ∃ g, gas = g + 1 + 1 + 1 := ⟨gas - 3, by simp only [needO] at hg; omega⟩
  have hgg : needL (cfg.types.length + 4) kids + cfg.types.length + 2 ≤ g + 1 := by simp only [needO] at hg; omega
  have hp : FW.peek ⟨itemBuf n (.node t kids), 0, n⟩ = some { s := t ++ ['\n'], origin := n } := rfl
  have htab : readTable ⟨itemBuf n (.node t kids), 0, n⟩ = none := by
    have := readTable_none [] { s := t ++ ['\n'], origin := n } (lns 2 (n + 1) kids) n (by
      intro l' hl'
      cases kids with
      | nil => simp [lns] at hl'
      | cons k ks =>
        rw [lns_head] at hl'
        simp only [List.head?_cons, Option.some.injEq] at hl'
        subst hl'
        have hTk : plainTitle k.text = true := by
          cases k; have := ho.2; simp only [oks, okO, Bool.and_eq_true] at this; exact this.1.1
        exact dash_delimiterRow ((plainTitle_iff _).mp hTk) 2)
    simpa [itemBuf] using this
  have hR := readParagraph_title cfg tpre tpost hc st.setext t hT n kids ho.2
  have hY := tryTypes_quiet cfg ⟨itemBuf n (.node t kids), 0, n⟩ st { s := t ++ ['\n'], origin := n } _ _ (title_quiet hT) htab hR
    cfg.types (g + 1) (paragraph_mem hc) (by omega)
  rw [tokenizeBlock, tokLoop]
  simp only [hp, hY, Nat.add_zero]
  cases kids with
  | nil =>
    simp [tokLoop, FW.peek, itemBuf, lns, expInner]
  | cons k ks =>
    have := tokLoop_outline cfg tpre tpost hc _ k ks ho.2 (hL (by simp)) 2 (by omega) (g + 1) (by omega)
      [{ s := t ++ ['\n'], origin := n }] n st [.paragraph [t ++ ['\n']] n n] false
    simp only [List.length_singleton, List.singleton_append] at this
    simp only [itemBuf]
    rw [this]
    simp [expInner]

mutual
theorem item_ok (cfg : Cfg) (tpre tpost : List BTok) (hc : ListCfg cfg tpre tpost) :
    ∀ (o : O), okO o = true → ItemClaim cfg (cfg.types.length + 4) o
  | .node t kids, h =>
    outline_item_step cfg tpre tpost hc t kids h (fun hne => list_ok cfg tpre tpost hc kids hne
      (by simp only [okO, Bool.and_eq_true] at h; exact h.2))
theorem list_ok (cfg : Cfg) (tpre tpost : List BTok) (hc : ListCfg cfg tpre tpost) :
    ∀ (os : List O), os ≠ [] → oks os = true → ListClaim cfg (cfg.types.length + 4) os
  | [], hne, _ => absurd rfl hne
  | o :: os, _, h => by
    simp only [oks, Bool.and_eq_true] at h
    exact outline_list_step cfg _ o os h.1 h.2 (item_ok cfg tpre tpost hc o h.1) (fun hne => list_ok cfg tpre tpost hc os hne h.2)
end

/-- **tokenize_block on the toc lines of an outline**: one `List`, nested exactly as the outline -/
theorem tokenizeBlock_outline (cfg : Cfg) (tpre tpost : List BTok) (hc : ListCfg cfg tpre tpost) (os : List O) (hne : os ≠ [])
    (hok : oks os = true) (gas : Nat) (hg : needL (cfg.types.length + 4) os + cfg.types.length + 4 ≤ gas) (n : Nat) (st : St) :
    tokenizeBlock cfg gas (lns 0 n os) n st =
      .ok ({ entries := [.list (expItems 0 n os) n n], loose := false }, st) := by
  cases os with
  | nil => exact absurd rfl hne
  | cons o os =>
    have hlen : tpre.length + 1 ≤ cfg.types.length := by rw [hc.types]; simp
    obtain ⟨g, rfl⟩ : ∃ g, gas = g + 1 := ⟨gas - 1, by omega⟩
    have := tokLoop_outline cfg tpre tpost hc _ o os hok (list_ok cfg tpre tpost hc _ hne hok) 0 (by omega) g (by omega) [] n st [] false
    simpa [tokenizeBlock] using this

/-! ### The final statements (C19) -/

mutual
theorem olinesO_length (col : Nat) : ∀ (o : O), (olinesO col o).length = sizeO o
  | .node t kids => by simp [olinesO, sizeO, olines_length (col + 4) kids]
theorem olines_length (col : Nat) : ∀ (os : List O), (olines col os).length = size os
  | [] => rfl
  | o :: os => by simp [olines, size, olinesO_length col o, olines_length col os]
end

mutual
/-- the ghost origins do not touch the text of the lines -/
theorem lnsO_s (col n : Nat) : ∀ (o : O), (lnsO col n o).map (·.s) = olinesO col o
  | .node t kids => by simp [lnsO, olinesO, lns_s (col + 4) (n + 1) kids]
theorem lns_s (col n : Nat) : ∀ (os : List O), (lns col n os).map (·.s) = olines col os
  | [] => rfl
  | o :: os => by simp [lns, olines, lnsO_s col n o, lns_s col (n + sizeO o) os]
end

/-- the numbering `blockPhase` gives to the lines of a document: line `i` (from `k`) has origin `i + 1` -/
def numbered (k : Nat) (ss : List Str) : List Line :=
  (ss.zipIdx k).map (fun (s, i) => { s := s, origin := i + 1 })

theorem numbered_cons (k : Nat) (s : Str) (ss : List Str) :
    numbered k (s :: ss) = { s := s, origin := k + 1 } :: numbered (k + 1) ss := by
  simp [numbered, List.zipIdx_cons]

theorem numbered_append (k : Nat) (a b : List Str) : numbered k (a ++ b) = numbered k a ++ numbered (k + a.length) b := by
  simp [numbered, List.zipIdx_append]

mutual
theorem numberedO (col : Nat) : ∀ (o : O) (k : Nat), numbered k (olinesO col o) = lnsO col (k + 1) o
  | .node t kids, k => by simp [olinesO, lnsO, numbered_cons, numberedL (col + 4) kids (k + 1)]
theorem numberedL (col : Nat) : ∀ (os : List O) (k : Nat), numbered k (olines col os) = lns col (k + 1) os
  | [], _ => rfl
  | o :: os, k => by
    simp only [olines, lns, numbered_append, olinesO_length, numberedO col o k, numberedL col os (k + sizeO o)]
    rw [show k + sizeO o + 1 = k + 1 + sizeO o by omega]
end

theorem blockPhase_olines (cfg : Cfg) (gas col : Nat) (os : List O) :
    blockPhase cfg gas (olines col os) = tokenizeBlock cfg gas (lns col 1 os) 1 {} := by
  have := numberedL col os 0
  simp only [numbered, Nat.zero_add] at this
  simp only [blockPhase, this]

mutual
/-- the gas used, in closed form: `K + 1` per heading -/
theorem needO_eq (K : Nat) : ∀ (o : O), needO K o + 1 = (K + 1) * sizeO o
  | .node t kids => by simp only [needO, sizeO, needL_eq K kids, Nat.mul_add, Nat.mul_one]; omega
theorem needL_eq (K : Nat) : ∀ (os : List O), needL K os = (K + 1) * size os
  | [] => rfl
  | o :: os => by
    have := needO_eq K o
    simp only [needL, size, needL_eq K os, Nat.mul_add]; omega
end

/-- **C19, the parse**: for a non-empty outline `os` with plain-word titles, under any block token list that asks
    `List` before `Table` and `Paragraph` (`ListCfg`), and with `needL … os + |types| + 4` gas
    (`= (|types| + 5) · size os + |types| + 4`, `needL_eq`), `tokenize_block` on the toc lines (numbered from any
    `n`, in any state `st`) returns exactly one entry: the `List` whose items are `expItems 0 n os` - one item per
    top-level heading, in order, each holding one `Paragraph` with the heading's title followed, iff the heading has
    headings below it, by one nested `List` of their items (recursively); nothing is loose; the state is unchanged.
    The same as `blockPhase` (`block_token.tokenize(lines)`: lines numbered from 1, fresh state). -/
theorem C19_outline_parses (cfg : Cfg) (tpre tpost : List BTok) (hc : ListCfg cfg tpre tpost) (os : List O) (hne : os ≠ [])
    (hok : oks os = true) (gas : Nat) (hg : needL (cfg.types.length + 4) os + cfg.types.length + 4 ≤ gas) :
    (∀ (n : Nat) (st : St), tokenizeBlock cfg gas (lns 0 n os) n st =
        .ok ({ entries := [.list (expItems 0 n os) n n], loose := false }, st))
    ∧ blockPhase cfg gas (olines 0 os) = .ok ({ entries := [.list (expItems 0 1 os) 1 1], loose := false }, {}) := by
  refine ⟨fun n st => tokenizeBlock_outline cfg tpre tpost hc os hne hok gas hg n st, ?_⟩
  rw [blockPhase_olines]
  exact tokenizeBlock_outline cfg tpre tpost hc os hne hok gas hg 1 {}

/-! #### The connection with `TocRenderer.toc` (`Model/Toc.lean`) -/

mutual
theorem flattenO_ge (lv : Nat) : ∀ (o : O), ∀ h ∈ flattenO lv o, lv ≤ h.1
  | .node t kids => by
    intro h hh
    simp only [flattenO, List.mem_cons] at hh
    rcases hh with rfl | hh
    · exact Nat.le_refl _
    · have := flatten_ge (lv + 1) kids h hh; omega
theorem flatten_ge (lv : Nat) : ∀ (os : List O), ∀ h ∈ flatten lv os, lv ≤ h.1
  | [] => by intro h hh; simp [flatten] at hh
  | o :: os => by
    intro h hh
    simp only [flatten, List.mem_append] at hh
    rcases hh with hh | hh
    · exact flattenO_ge lv o h hh
    · exact flatten_ge lv os h hh
end

theorem foldl_min_eq (hs : List (Nat × Str)) (m : Nat) (h : ∀ x ∈ hs, m ≤ x.1) :
    hs.foldl (fun m x => min m x.1) m = m := by
  induction hs with
  | nil => rfl
  | cons x xs ih =>
    have hx := h x (List.mem_cons_self ..)
    simp only [List.foldl_cons, Nat.min_eq_left hx]
    exact ih (fun y hy => h y (List.mem_cons_of_mem _ hy))

/-- the first heading of an outline is (one of) the shallowest -/
theorem baseLevel_flatten (lv : Nat) (os : List O) (hne : os ≠ []) : Toc.baseLevel (flatten lv os) = lv := by
  cases os with
  | nil => exact absurd rfl hne
  | cons o os =>
    cases o with
    | node t kids =>
      simp only [flatten, flattenO, List.cons_append, Toc.baseLevel]
      refine foldl_min_eq _ lv ?_
      intro x hx
      rcases List.mem_append.mp hx with hx | hx
      · have := flatten_ge (lv + 1) kids x hx; omega
      · exact flatten_ge lv os x hx

mutual
theorem tocLineO (base : Nat) : ∀ (o : O) (d : Nat), (flattenO (base + d) o).map (Toc.tocLine base) = olinesO (4 * d) o
  | .node t kids, d => by
    have ih := tocLineL base kids (d + 1)
    rw [show 4 * (d + 1) = 4 * d + 4 by omega, ← Nat.add_assoc] at ih
    simp only [flattenO, olinesO, List.map_cons, ih]
    simp [Toc.tocLine, dashLine]
theorem tocLineL (base : Nat) : ∀ (os : List O) (d : Nat), (flatten (base + d) os).map (Toc.tocLine base) = olines (4 * d) os
  | [], _ => rfl
  | o :: os, d => by simp only [flatten, olines, List.map_append, tocLineO base o d, tocLineL base os d]
end

/-- **C19, the lines**: the list lines `TocRenderer.toc` builds (`Toc.tocLines`) for the headings of an outline
    (`flatten lv os`: pre-order, `kids` one level deeper, top level `lv`) are the lines `olines 0 os` - the text of
    `lns 0 n os` for every numbering `n`; the base level is `lv`. -/
theorem C19_outline_lines (lv n : Nat) (os : List O) :
    Toc.tocLines (flatten lv os) = (lns 0 n os).map (·.s)
    ∧ Toc.tocLines (flatten lv os) = olines 0 os
    ∧ (os ≠ [] → Toc.baseLevel (flatten lv os) = lv) := by
  have key : Toc.tocLines (flatten lv os) = olines 0 os := by
    cases os with
    | nil => rfl
    | cons o os =>
      unfold Toc.tocLines
      rw [baseLevel_flatten lv (o :: os) (by simp)]
      exact tocLineL lv (o :: os) 0
  exact ⟨by rw [lns_s]; exact key, key, baseLevel_flatten lv os⟩

/-- **C19, nesting**: `block_token.tokenize` on the list lines `TocRenderer.toc` builds for the headings of a
    non-empty outline with plain-word titles gives one `List`, nested exactly as the outline. -/
theorem C19_outline_toc (cfg : Cfg) (tpre tpost : List BTok) (hc : ListCfg cfg tpre tpost) (lv : Nat) (os : List O) (hne : os ≠ [])
    (hok : oks os = true) (gas : Nat) (hg : (cfg.types.length + 5) * size os + cfg.types.length + 4 ≤ gas) :
    blockPhase cfg gas (Toc.tocLines (flatten lv os)) =
      .ok ({ entries := [.list (expItems 0 1 os) 1 1], loose := false }, {}) := by
  rw [(C19_outline_lines lv 0 os).2.1]
  exact (C19_outline_parses cfg tpre tpost hc os hne hok gas (by rw [needL_eq]; omega)).2

/-! #### Heading lists that are outlines -/

/-- recursive descent over a heading list: the forest of the headings from the front of `hs` that form an outline
    with top level `lv`, and the headings left over (`fuel`: one unit per heading suffices) -/
def build : Nat → Nat → List (Nat × Str) → List O × List (Nat × Str)
  | 0, _, hs => ([], hs)
  | _ + 1, _, [] => ([], [])
  | fuel + 1, lv, (l, t) :: rest =>
    if l = lv then
      let r1 := build fuel (lv + 1) rest
      let r2 := build fuel lv r1.2
      (.node t r1.1 :: r2.1, r2.2)
    else ([], (l, t) :: rest)

/-- the outline of a heading list (top level: the level of the first heading) -/
def toForest (hs : List (Nat × Str)) : List O :=
  match hs with
  | [] => []
  | h :: _ => (build hs.length h.1 hs).1

/-- the heading list is an outline: not empty, and the descent from the level of the first heading uses it up
    (`isOutline_iff`: exactly the flattenings of the non-empty forests; in words: no heading is shallower than
    the first one, and no heading is more than one level deeper than the heading before it) -/
def isOutline (hs : List (Nat × Str)) : Bool :=
  match hs with
  | [] => false
  | h :: _ => (build hs.length h.1 hs).2.isEmpty

theorem build_sound : ∀ (fuel lv : Nat) (hs : List (Nat × Str)),
    hs = flatten lv (build fuel lv hs).1 ++ (build fuel lv hs).2
  | 0, _, _ => by simp [build, flatten]
  | _ + 1, _, [] => by simp [build, flatten]
  | fuel + 1, lv, (l, t) :: rest => by
    simp only [build]
    split
    · rename_i h
      subst h
      have h1 := build_sound fuel (l + 1) rest
      have h2 := build_sound fuel l (build fuel (l + 1) rest).2
      simp only [flatten, flattenO, List.cons_append, List.append_assoc]
      rw [← h2, ← h1]
    · simp [flatten]

/-- what may follow the headings of a forest of top level `lv`: nothing, or a shallower heading -/
def RestOk (lv : Nat) (rest : List (Nat × Str)) : Prop := ∀ h, rest.head? = some h → h.1 < lv

theorem build_stop (fuel lv : Nat) (rest : List (Nat × Str)) (hr : RestOk lv rest) : build fuel lv rest = ([], rest) := by
  cases fuel with
  | zero => rfl
  | succ f =>
    cases rest with
    | nil => rfl
    | cons h rest =>
      obtain ⟨l, t⟩ := h
      have := hr (l, t) rfl
      simp only [build]
      rw [if_neg (by simp only at this; omega)]

theorem restOk_flatten (lv : Nat) (os : List O) (rest : List (Nat × Str)) (hr : RestOk lv rest) :
    RestOk (lv + 1) (flatten lv os ++ rest) := by
  intro h hh
  cases os with
  | nil =>
    simp only [flatten, List.nil_append] at hh
    have := hr h hh; omega
  | cons o os =>
    cases o with
    | node t kids =>
      simp only [flatten, flattenO, List.cons_append, List.head?_cons, Option.some.injEq] at hh
      subst hh; exact Nat.lt_succ_self _

mutual
theorem build_flattenO : ∀ (o : O) (fuel lv : Nat) (tail : List (Nat × Str)), sizeO o ≤ fuel + 1 → RestOk (lv + 1) tail →
    build (fuel + 1) lv (flattenO lv o ++ tail) = (o :: (build fuel lv tail).1, (build fuel lv tail).2)
  | .node t kids, fuel, lv, tail, hf, hr => by
    simp only [sizeO] at hf
    simp only [flattenO, List.cons_append, build, if_true]
    rw [build_flatten kids fuel (lv + 1) tail (by omega) hr]
theorem build_flatten : ∀ (os : List O) (fuel lv : Nat) (rest : List (Nat × Str)), size os ≤ fuel → RestOk lv rest →
    build fuel lv (flatten lv os ++ rest) = (os, rest)
  | [], fuel, lv, rest, _, hr => by simp only [flatten, List.nil_append]; exact build_stop fuel lv rest hr
  | o :: os, fuel, lv, rest, hf, hr => by
    simp only [size] at hf
    have ho : 0 < sizeO o := by cases o; simp [sizeO]
    obtain ⟨f, rfl⟩ : ∃ f, fuel = f + 1 := ⟨fuel - 1, by omega⟩
    simp only [flatten, List.append_assoc]
    rw [build_flattenO o f lv _ (by omega) (restOk_flatten lv os rest hr), build_flatten os f lv rest (by omega) hr]
end

mutual
theorem flattenO_length (lv : Nat) : ∀ (o : O), (flattenO lv o).length = sizeO o
  | .node t kids => by simp [flattenO, sizeO, flatten_length (lv + 1) kids]
theorem flatten_length (lv : Nat) : ∀ (os : List O), (flatten lv os).length = size os
  | [] => rfl
  | o :: os => by simp [flatten, size, flattenO_length lv o, flatten_length lv os]
end

theorem flatten_head (lv : Nat) (o : O) (os : List O) : ∃ t tl, flatten lv (o :: os) = (lv, t) :: tl := by
  cases o with
  | node t kids => exact ⟨t, flatten (lv + 1) kids ++ flatten lv os, by simp [flatten, flattenO]⟩

/-- the descent recovers the forest from its flattening -/
theorem toForest_flatten (lv : Nat) (os : List O) (hne : os ≠ []) :
    toForest (flatten lv os) = os ∧ isOutline (flatten lv os) = true := by
  cases os with
  | nil => exact absurd rfl hne
  | cons o os =>
    obtain ⟨t, tl, e⟩ := flatten_head lv o os
    have hb := build_flatten (o :: os) (flatten lv (o :: os)).length lv [] (by rw [flatten_length]; exact Nat.le_refl _)
      (by intro h hh; cases hh)
    rw [List.append_nil] at hb
    unfold toForest isOutline
    rw [e] at hb ⊢
    simp only [List.length_cons] at hb
    simp [hb]

/-- an outline is the flattening of its forest, which is not empty -/
theorem isOutline_sound (hs : List (Nat × Str)) (h : isOutline hs = true) :
    toForest hs ≠ [] ∧ ∃ lv, hs.head?.map (·.1) = some lv ∧ hs = flatten lv (toForest hs) := by
  cases hs with
  | nil => simp [isOutline] at h
  | cons x xs =>
    have hs := build_sound (x :: xs).length x.1 (x :: xs)
    simp only [isOutline, List.isEmpty_iff] at h
    rw [h, List.append_nil] at hs
    simp only [toForest]
    refine ⟨?_, x.1, rfl, hs⟩
    intro e
    rw [e] at hs
    simp [flatten] at hs

/-- the outlines are exactly the flattenings of the non-empty forests -/
theorem isOutline_iff (hs : List (Nat × Str)) : isOutline hs = true ↔ ∃ lv os, os ≠ [] ∧ hs = flatten lv os := by
  constructor
  · intro h
    obtain ⟨hne, lv, _, e⟩ := isOutline_sound hs h
    exact ⟨lv, _, hne, e⟩
  · rintro ⟨lv, os, hne, rfl⟩
    exact (toForest_flatten lv os hne).2

/-- no heading is shallower than `base`, and none is more than one level deeper than the heading before it (`prev`) -/
def levelsOk (base : Nat) : Nat → List (Nat × Str) → Bool
  | _, [] => true
  | prev, (l, _) :: rest => decide (base ≤ l) && decide (l ≤ prev + 1) && levelsOk base l rest

/-- the elementary description of an outline: not empty, no heading shallower than the first one, no heading more
    than one level deeper than the heading before it -/
def outlineLevels (hs : List (Nat × Str)) : Bool :=
  match hs with
  | [] => false
  | (l, _) :: rest => levelsOk l l rest

theorem levelsOk_head (base prev : Nat) (hs : List (Nat × Str)) (h : levelsOk base prev hs = true) :
    ∀ x, hs.head? = some x → base ≤ x.1 ∧ x.1 ≤ prev + 1 := by
  intro x hx
  cases hs with
  | nil => cases hx
  | cons y ys =>
    obtain ⟨l, t⟩ := y
    simp only [List.head?_cons, Option.some.injEq] at hx
    subst hx
    simp only [levelsOk, Bool.and_eq_true, decide_eq_true_eq] at h
    exact ⟨h.1.1, h.1.2⟩

theorem build_levels (base : Nat) : ∀ (fuel lv prev : Nat) (hs : List (Nat × Str)), levelsOk base prev hs = true →
    (∀ x, hs.head? = some x → x.1 ≤ lv) → hs.length ≤ fuel →
    RestOk lv (build fuel lv hs).2 ∧ (∃ prev', levelsOk base prev' (build fuel lv hs).2 = true) ∧
      (build fuel lv hs).2.length ≤ hs.length
  | 0, lv, prev, hs, hl, _, hf => by
    have : hs = [] := List.eq_nil_of_length_eq_zero (by omega)
    subst this
    exact ⟨(by intro h hh; cases hh), ⟨prev, rfl⟩, Nat.le_refl _⟩
  | _ + 1, lv, prev, [], _, _, _ => ⟨(by intro h hh; cases hh), ⟨prev, rfl⟩, Nat.le_refl _⟩
  | fuel + 1, lv, prev, (l, t) :: rest, hl, hh, hf => by
    have hle := hh (l, t) rfl
    simp only [build]
    split
    · rename_i e
      subst e
      have hl' : levelsOk base l rest = true := by
        simp only [levelsOk, Bool.and_eq_true] at hl; exact hl.2
      simp only [List.length_cons] at hf
      obtain ⟨a1, ⟨p1, b1⟩, c1⟩ := build_levels base fuel (l + 1) l rest hl'
        (fun x hx => (levelsOk_head base l rest hl' x hx).2) (by omega)
      obtain ⟨a2, b2, c2⟩ := build_levels base fuel l p1 (build fuel (l + 1) rest).2 b1
        (fun x hx => by have := a1 x hx; omega) (by omega)
      exact ⟨a2, b2, by simp only [List.length_cons]; omega⟩
    · rename_i e
      refine ⟨?_, ⟨prev, hl⟩, Nat.le_refl _⟩
      intro x hx
      simp only [List.head?_cons, Option.some.injEq] at hx
      subst hx
      simp only at hle ⊢; omega

mutual
theorem levelsOk_flattenO (base : Nat) : ∀ (o : O) (lv prev : Nat) (rest : List (Nat × Str)), base ≤ lv → lv ≤ prev + 1 →
    (∀ prev', lv ≤ prev' + 1 → levelsOk base prev' rest = true) → levelsOk base prev (flattenO lv o ++ rest) = true
  | .node t kids, lv, prev, rest, hb, hp, hc => by
    simp only [flattenO, List.cons_append, levelsOk, Bool.and_eq_true, decide_eq_true_eq]
    exact ⟨⟨hb, hp⟩, levelsOk_flatten base kids (lv + 1) lv rest (by omega) (Nat.le_refl _) (fun p hp' => hc p (by omega))⟩
theorem levelsOk_flatten (base : Nat) : ∀ (os : List O) (lv prev : Nat) (rest : List (Nat × Str)), base ≤ lv → lv ≤ prev + 1 →
    (∀ prev', lv ≤ prev' + 1 → levelsOk base prev' rest = true) → levelsOk base prev (flatten lv os ++ rest) = true
  | [], lv, prev, rest, _, hp, hc => by simp only [flatten, List.nil_append]; exact hc prev hp
  | o :: os, lv, prev, rest, hb, hp, hc => by
    simp only [flatten, List.append_assoc]
    exact levelsOk_flattenO base o lv prev _ hb hp (fun p hp' => levelsOk_flatten base os lv p rest hb hp' hc)
end

/-- `isOutline`, in elementary terms -/
theorem isOutline_eq_levels (hs : List (Nat × Str)) : isOutline hs = outlineLevels hs := by
  cases h : outlineLevels hs with
  | true =>
    cases hs with
    | nil => simp [outlineLevels] at h
    | cons x xs =>
      obtain ⟨l, t⟩ := x
      simp only [outlineLevels] at h
      have hl : levelsOk l l ((l, t) :: xs) = true := by simp [levelsOk, h]
      obtain ⟨a, ⟨p, b⟩, _⟩ := build_levels l ((l, t) :: xs).length l l ((l, t) :: xs) hl
        (fun x hx => by simp only [List.head?_cons, Option.some.injEq] at hx; subst hx; exact Nat.le_refl _) (Nat.le_refl _)
      simp only [isOutline, List.isEmpty_iff]
      cases hr : (build ((l, t) :: xs).length l ((l, t) :: xs)).2 with
      | nil => rfl
      | cons y ys =>
        rw [hr] at a b
        have h1 := a y rfl
        have h2 := (levelsOk_head l p _ b y rfl).1
        omega
  | false =>
    cases ho : isOutline hs with
    | false => rfl
    | true =>
      obtain ⟨lv, os, hne, rfl⟩ := (isOutline_iff hs).mp ho
      cases os with
      | nil => exact absurd rfl hne
      | cons o os =>
        cases o with
        | node t kids =>
          have := levelsOk_flatten lv (.node t kids :: os) lv lv [] (Nat.le_refl _) (by omega) (fun _ _ => rfl)
          simp only [List.append_nil, flatten, flattenO, List.cons_append, levelsOk, Bool.and_eq_true] at this
          simp only [outlineLevels, flatten, flattenO, List.cons_append, this.2] at h
          cases h

mutual
theorem okO_of_flatten (lv : Nat) : ∀ (o : O), (∀ h ∈ flattenO lv o, plainTitle h.2 = true) → okO o = true
  | .node t kids => by
    intro h
    simp only [flattenO, List.mem_cons] at h
    simp only [okO, Bool.and_eq_true]
    exact ⟨h (lv, t) (Or.inl rfl), oks_of_flatten (lv + 1) kids (fun x hx => h x (Or.inr hx))⟩
theorem oks_of_flatten (lv : Nat) : ∀ (os : List O), (∀ h ∈ flatten lv os, plainTitle h.2 = true) → oks os = true
  | [] => fun _ => rfl
  | o :: os => by
    intro h
    simp only [flatten, List.mem_append] at h
    simp only [oks, Bool.and_eq_true]
    exact ⟨okO_of_flatten lv o (fun x hx => h x (Or.inl hx)), oks_of_flatten lv os (fun x hx => h x (Or.inr hx))⟩
end

/-- **C19, nesting by level**: if the collected headings `hs` form an outline (`isOutline`: not empty, no heading
    shallower than the first, none more than one level deeper than the one before it - `isOutline_iff`) and every
    text is a plain-word title, then `block_token.tokenize` on the list lines `TocRenderer.toc` builds
    (`Toc.tocLines hs`) gives exactly one `List`, and that list is nested exactly as the outline `toForest hs`:
    one item per heading, a heading's item holding a `Paragraph` with its text and - iff deeper headings follow
    it - one nested `List` with the items of the headings one level below it. -/
theorem C19_toc_nested (cfg : Cfg) (tpre tpost : List BTok) (hc : ListCfg cfg tpre tpost) (hs : List (Nat × Str))
    (ho : isOutline hs = true) (ht : ∀ h ∈ hs, plainTitle h.2 = true)
    (gas : Nat) (hg : (cfg.types.length + 5) * hs.length + cfg.types.length + 4 ≤ gas) :
    blockPhase cfg gas (Toc.tocLines hs) =
      .ok ({ entries := [.list (expItems 0 1 (toForest hs)) 1 1], loose := false }, {}) := by
  obtain ⟨hne, lv, _, e⟩ := isOutline_sound hs ho
  have hok : oks (toForest hs) = true := oks_of_flatten lv _ (by rw [← e]; exact ht)
  have hlen : hs.length = size (toForest hs) := by
    have := flatten_length lv (toForest hs)
    rw [← e] at this; exact this
  have := C19_outline_toc cfg tpre tpost hc lv (toForest hs) hne hok gas (by rw [← hlen]; exact hg)
  rw [← e] at this
  exact this

/-! #### The token lists in force -/

/-- the block token lists under which `toc` runs - inside an `HtmlRenderer`/`TocRenderer` context, or after it
    (the default list) - ask `List` before `Table` and `Paragraph` -/
theorem C19_config_current_list :
    (∃ cfg, Config.html = some cfg ∧
      ListCfg cfg.block [.htmlBlock, .blockCode, .heading, .quote, .codeFence, .thematicBreak] [.table, .footnote, .paragraph])
    ∧ (∃ cfg, Config.cfgOf Gen.RenderMaps.tocBlockTokens Gen.RenderMaps.tocSpanTokens = some cfg ∧
      ListCfg cfg.block [.htmlBlock, .blockCode, .heading, .quote, .codeFence, .thematicBreak] [.table, .footnote, .paragraph])
    ∧ (∃ cfg, Config.cfgOf Gen.RenderMaps.tocBlockTokensAfterExit Gen.RenderMaps.tocSpanTokensAfterExit = some cfg ∧
      ListCfg cfg.block [.blockCode, .heading, .quote, .codeFence, .thematicBreak] [.table, .footnote, .paragraph])
    ∧ (∃ cfg, Config.default = some cfg ∧
      ListCfg cfg.block [.blockCode, .heading, .quote, .codeFence, .thematicBreak] [.table, .footnote, .paragraph]) := by
  refine ⟨⟨_, rfl, ⟨rfl, ?_, ?_, ?_, ?_⟩⟩, ⟨_, rfl, ⟨rfl, ?_, ?_, ?_, ?_⟩⟩, ⟨_, rfl, ⟨rfl, ?_, ?_, ?_, ?_⟩⟩, ⟨_, rfl, ⟨rfl, ?_, ?_, ?_, ?_⟩⟩⟩ <;> decide

/-! #### Non-vacuity: a concrete outline (depth 3, six headings) -/

/-- `## Intro / ### Setup / #### Linux / ### Usage / ## Api / ### Core` -/
def sampleForest : List O :=
  [.node "Intro".toList [.node "Setup".toList [.node "Linux".toList []], .node "Usage".toList []],
   .node "Api".toList [.node "Core".toList []]]

def sampleHeadings : List (Nat × Str) :=
  [(2, "Intro".toList), (3, "Setup".toList), (4, "Linux".toList), (3, "Usage".toList), (2, "Api".toList), (3, "Core".toList)]

/-- the block token list while a `TocRenderer` is active (`C19_config_current_list`) -/
def sampleCfg : Cfg :=
  { types := [.htmlBlock, .blockCode, .heading, .quote, .codeFence, .thematicBreak, .list, .table, .footnote, .paragraph] }

theorem sampleCfg_list : ListCfg sampleCfg [.htmlBlock, .blockCode, .heading, .quote, .codeFence, .thematicBreak]
    [.table, .footnote, .paragraph] := ⟨rfl, by decide, by decide, by decide, by decide⟩

/-- the list `TocRenderer.toc` returns for the sample (what /repo returns, too: line numbers 1..6, nested items at
    indentation 2 with content offset 4) -/
def sampleToc : Entry :=
  .list [
    .mk [.paragraph ["Intro\n".toList] 1 1,
         .list [
           .mk [.paragraph ["Setup\n".toList] 2 2,
                .list [.mk [.paragraph ["Linux\n".toList] 3 3] false 2 4 ['-'] 3 3] 3 3] false 2 4 ['-'] 2 2,
           .mk [.paragraph ["Usage\n".toList] 4 4] false 2 4 ['-'] 4 4] 2 2] false 0 2 ['-'] 1 1,
    .mk [.paragraph ["Api\n".toList] 5 5,
         .list [.mk [.paragraph ["Core\n".toList] 6 6] false 2 4 ['-'] 6 6] 6 6] false 0 2 ['-'] 5 5] 1 1

example : oks sampleForest = true := by decide
example : flatten 2 sampleForest = sampleHeadings := by decide
example : isOutline sampleHeadings = true ∧ outlineLevels sampleHeadings = true := by decide
example : toForest sampleHeadings = sampleForest := rfl
example : (∀ h ∈ sampleHeadings, plainTitle h.2 = true) := by decide
example : Toc.tocLines sampleHeadings =
    ["- Intro\n".toList, "    - Setup\n".toList, "        - Linux\n".toList, "    - Usage\n".toList, "- Api\n".toList,
     "    - Core\n".toList] := by decide
example : Entry.list (expItems 0 1 sampleForest) 1 1 = sampleToc := rfl
/-- a heading list that is not an outline: the second heading is two levels deeper than the first -/
example : isOutline [(2, "A".toList), (4, "B".toList)] = false := by decide

/-- `C19_outline_parses` on the sample -/
example : blockPhase sampleCfg 104 (olines 0 sampleForest) = .ok ({ entries := [sampleToc], loose := false }, {}) :=
  (C19_outline_parses sampleCfg _ _ sampleCfg_list sampleForest (by simp [sampleForest]) (by decide) 104 (by decide)).2

/-- `C19_toc_nested` on the sample -/
example : blockPhase sampleCfg 104 (Toc.tocLines sampleHeadings) = .ok ({ entries := [sampleToc], loose := false }, {}) :=
  C19_toc_nested sampleCfg _ _ sampleCfg_list sampleHeadings (by decide) (by decide) 104 (by decide)

mutual
/-- equality test on the buffers that occur here (paragraphs and lists) -/
def sameEntry : Entry → Entry → Bool
  | .paragraph a l o, .paragraph a' l' o' => a == a' && l == l' && o == o'
  | .list is l o, .list is' l' o' => sameItems is is' && l == l' && o == o'
  | _, _ => false
def sameItems : List Item → List Item → Bool
  | [], [] => true
  | i :: is, i' :: is' => sameItem i i' && sameItems is is'
  | _, _ => false
def sameItem : Item → Item → Bool
  | .mk inner lo ind pre ld ln og, .mk inner' lo' ind' pre' ld' ln' og' =>
    sameEntries inner inner' && lo == lo' && ind == ind' && pre == pre' && ld == ld' && ln == ln' && og == og'
def sameEntries : List Entry → List Entry → Bool
  | [], [] => true
  | e :: es, e' :: es' => sameEntry e e' && sameEntries es es'
  | _, _ => false
end

def sameRes : Res (Buf × St) → List Entry → Bool
  | .ok (b, st), es => sameEntries b.entries es && !b.loose && st.setext && st.defs.isEmpty
  | .err _, _ => false

/-- the same by evaluating the model in the kernel, independently of the theorems: the block phase on the six toc
    lines returns the nested list -/
example : sameRes (blockPhase sampleCfg 104 (Toc.tocLines sampleHeadings)) [sampleToc] = true := by decide +kernel

/-- the evaluation does tell nestings apart: the flat list of six items is not what comes out -/
example : sameRes (blockPhase sampleCfg 104 (Toc.tocLines sampleHeadings))
    [.list (expItems 0 1 (sampleHeadings.map (fun h => O.node h.2 []))) 1 1] = false := by decide +kernel

end Mistletoe.Block
