/-
  Lemmas for C19: the list lines `TocRenderer.toc` builds for an outline parse to a list nested
  exactly as the outline.

  An outline is a forest `List O` (`O.node text kids`); `flatten lv` lists it in pre-order with
  levels (`kids` one level deeper); `build` / `toForest` rebuild the forest from a heading list and
  `isOutline` says nothing is left over (`isOutline_iff`: exactly the flattenings of non-empty forests).
  `lns col n forest` are the toc lines as the tokenizer sees them: the node at depth d is the line
  `col + 4·d` spaces, "- ", its text, "\n", with consecutive ghost origins from `n`.

  Parse (`list_ok`, `item_ok`, by mutual structural recursion on the forest; `need*` is the gas used):
  * `ListItem.read` on a node's line takes the marker (indentation `col` ≤ 3, content offset `col + 2`),
    then every line of the node's descendants (indented by ≥ `col + 4` ≥ the offset: `parse_continuation`
    strips `col + 2` columns, leaving the kids' lines at indentation 2), and stops at the next sibling's
    line (less indentation than the offset, a marker, no interrupt) or at the end of the buffer;
  * the item's nested `tokenize_block` reads one `Paragraph` with the title (the kids' first line
    interrupts it: `List.check_interrupts_paragraph`), then a `List` for the kids — recursively;
  * `List.read` loops over the siblings with the same leader "-"; nothing is loose (no blank lines).
-/
import Mistletoe.Proofs.Wrap
namespace Mistletoe.Block
open Mistletoe Mistletoe.Py Mistletoe.Scan

/-! ### Lines that begin, after at most three spaces, with a list-marker character -/

/-- no token type consulted before `List` (other than `Table`, `Paragraph`) starts on the line -/
structure NoEarly (s : Str) : Prop where
  html : htmlBlockStart s = .ok none
  bc : blockCodeStart s = false
  hd : heading s = none
  qt : quoteStart s = false
  cf : codeFenceStart s = none
  tb : thematicBreak s = false
  br : startsWith ['['] (lstrip s) = false
  bl : blankLine s = false

section LeadN
variable {c : Char} (hc : LeadChar c) (n : Nat) (hn : n < 4) (r : Str)
include hc hn

theorem leadN_upTo3 : upTo3Spaces (List.replicate n ' ' ++ c :: r) = some (n, c :: r) := upTo3_rep n c r hc.n_sp hn

theorem leadN_heading : heading (List.replicate n ' ' ++ c :: r) = none := by
  unfold heading; rw [leadN_upTo3 hc n hn]; simp [span, hc.n_hash]

theorem leadN_codeFence : codeFenceStart (List.replicate n ' ' ++ c :: r) = none := by
  unfold codeFenceStart codeFence; rw [leadN_upTo3 hc n hn]; simp [hc.n_bt, hc.n_tilde]

omit hn in
theorem leadN_quote : quoteStart (List.replicate n ' ' ++ c :: r) = false := by
  simp [quoteStart, lstripSp_rep n c r hc.n_sp, startsWith, isPrefix_ne _ _ _ _ hc.n_gt]

omit hn in
theorem leadN_lstrip : lstrip (List.replicate n ' ' ++ c :: r) = c :: r := lstrip_rep n c r hc.nsp

omit hn in
theorem leadN_bracket : startsWith ['['] (lstrip (List.replicate n ' ' ++ c :: r)) = false := by
  simp [leadN_lstrip hc n, startsWith, isPrefix_ne _ _ _ _ hc.n_lb]

omit hn in
theorem leadN_blankLine : blankLine (List.replicate n ' ' ++ c :: r) = false := by
  simp [blankLine, ws, hc.nsp]

omit hn in
theorem leadN_nonblank : isBlank (List.replicate n ' ' ++ c :: r) = false := by simp [isBlank, hc.nsp]

theorem leadN_blockCode : blockCodeStart (List.replicate n ' ' ++ c :: r) = false := by
  unfold blockCodeStart replaceTab1
  have hs : (' ' : Char) ≠ '\t' := by decide
  obtain rfl | rfl | rfl | rfl : n = 0 ∨ n = 1 ∨ n = 2 ∨ n = 3 := by omega
  all_goals simp [List.replicate, replaceTab_plain _ _ hc.n_tab, replaceTab_plain _ _ hs, startsWith, isPrefix_ne _ _ _ _ hc.n_sp]

theorem leadN_html : htmlBlockStart (List.replicate n ' ' ++ c :: r) = .ok none := by
  unfold htmlBlockStart
  simp only [leadN_lstrip hc n]
  have hlen : ¬ ((List.replicate n ' ' ++ c :: r).length - (c :: r).length ≥ 4) := by simp; omega
  simp only [hlen, if_false]
  have := lead_html hc r
  unfold htmlBlockStart at this
  simp only [lead_lstrip hc] at this
  have hlen0 : ¬ ((c :: r).length - (c :: r).length ≥ 4) := by simp
  simpa only [hlen0, if_false] using this

theorem leadN_noEarly (htb : thematicBreak (List.replicate n ' ' ++ c :: r) = false) : NoEarly (List.replicate n ' ' ++ c :: r) :=
  ⟨leadN_html hc n hn r, leadN_blockCode hc n hn r, leadN_heading hc n hn r, leadN_quote hc n r, leadN_codeFence hc n hn r, htb,
   leadN_bracket hc n r, leadN_blankLine hc n r⟩

end LeadN

/-- the dispatcher skips the types before `List` on such a line -/
theorem tryTypes_noEarly (cfg : Cfg) (fw : FW) (st : St) (l' : Line) (h : NoEarly l'.s) (post : List BTok) (g : Nat) :
    ∀ (pre : List BTok), .list ∉ pre → .paragraph ∉ pre → .table ∉ pre →
      tryTypes cfg (g + 1 + pre.length) fw st l' (pre ++ .list :: post) = tryTypes cfg (g + 1) fw st l' (.list :: post)
  | [], _, _, _ => rfl
  | x :: pre, hnl, hnp, hnt => by
    have ih := tryTypes_noEarly cfg fw st l' h post g pre
      (fun h => hnl (List.mem_cons_of_mem _ h)) (fun h => hnp (List.mem_cons_of_mem _ h)) (fun h => hnt (List.mem_cons_of_mem _ h))
    have e : g + 1 + (x :: pre).length = (g + 1 + pre.length) + 1 := by simp only [List.length_cons]; omega
    rw [e, List.cons_append]
    conv => lhs; unfold tryTypes
    cases x <;> simp only
    · rw [h.html]; exact ih
    · rw [h.bc]; exact ih
    · simp only [readHeading, h.hd]; exact ih
    · rw [h.qt]; exact ih
    · rw [h.cf]; exact ih
    · rw [h.tb]; exact ih
    · exact absurd (List.mem_cons_self ..) hnl
    · exact absurd (List.mem_cons_self ..) hnt
    · rw [h.br]; exact ih
    · exact absurd (List.mem_cons_self ..) hnp
    · rw [h.bl]; exact ih
    · rw [h.br]; exact ih

/-! ### The lines of a table of contents -/

/-- `col` spaces, "- ", the title, "\n" -/
def dashLine (col : Nat) (t : Str) : Str := List.replicate col ' ' ++ '-' :: ' ' :: (t ++ ['\n'])

/-- a plain-word title: begins with an ASCII letter and contains no newline -/
def PlainTitle (t : Str) : Prop := ∃ c r, t = c :: r ∧ isAlpha c = true ∧ '\n' ∉ r

def plainTitle (t : Str) : Bool :=
  match t with
  | c :: r => isAlpha c && !r.contains '\n'
  | [] => false

theorem plainTitle_iff (t : Str) : plainTitle t = true ↔ PlainTitle t := by
  cases t with
  | nil => simp [plainTitle, PlainTitle]
  | cons c r =>
    simp only [plainTitle, PlainTitle, Bool.and_eq_true, Bool.not_eq_eq_eq_not, Bool.not_true, List.cons.injEq]
    constructor
    · rintro ⟨h1, h2⟩; exact ⟨c, r, ⟨rfl, rfl⟩, h1, by intro hm; simp [hm] at h2⟩
    · rintro ⟨c', r', ⟨rfl, rfl⟩, h1, h2⟩; exact ⟨h1, by simpa using h2⟩

theorem dash_lead : LeadChar '-' := leadChar_of _ (by decide)

theorem alpha_plainChar (c : Char) (h : isAlpha c = true) : PlainChar c := plainChar_of c (alpha_plain c h)

section Dash
variable {t : Str} (ht : PlainTitle t) (col : Nat) (hcol : col < 4)
include ht

theorem title_quiet : Quiet (t ++ ['\n']) := by
  obtain ⟨c, r, rfl, hc, _⟩ := ht
  have := quiet_of_plain 0 c (r ++ ['\n']) (by omega) (alpha_plainChar c hc)
  simpa using this

theorem title_nonblank : isBlank (t ++ ['\n']) = false := (title_quiet ht).nb

include hcol in
theorem dash_thematicBreak : thematicBreak (dashLine col t) = false := by
  obtain ⟨c, r, rfl, hc, _⟩ := ht
  have hp := alpha_plainChar c hc
  unfold thematicBreak dashLine
  rw [leadN_upTo3 dash_lead col hcol]
  simp [ws, hp.nsp, hp.n_dash]

include hcol in
theorem dash_noEarly : NoEarly (dashLine col t) :=
  leadN_noEarly dash_lead col hcol _ (dash_thematicBreak ht col hcol)

include hcol in
omit ht in
theorem dash_listStart : listStart (dashLine col t) = true := by
  unfold listStart dashLine
  rw [leadN_upTo3 dash_lead col hcol]
  simp [listMarker, span]

include hcol in
theorem dash_parseMarker : parseMarker (dashLine col t) = some (col, col + 2, ['-'], t ++ ['\n']) := by
  obtain ⟨c, r, rfl, hc, _⟩ := ht
  have hp := alpha_plainChar c hc
  have hli : listItem (dashLine col (c :: r)) =
      some { g1 := List.replicate col ' ', g2 := ['-'], g3 := [' '], rest := c :: r ++ ['\n'] } := by
    unfold listItem dashLine
    rw [leadN_upTo3 dash_lead col hcol]
    have := span_ws_rep 1 c (r ++ ['\n']) hp.nsp
    simp only [List.replicate_one, List.singleton_append] at this
    simp [listMarker, atEnd, this]
  unfold parseMarker
  rw [hli]
  have hnt : '\t' ∉ (List.replicate col ' ' ++ ['-'] ++ [' ']) := by
    simp only [List.mem_append, List.mem_replicate, List.mem_singleton, not_or]
    exact ⟨⟨by rintro ⟨_, e⟩; exact absurd e (by decide), by decide⟩, by decide⟩
  simp only [expandtabs, expandtabsAux_noTab _ 0 hnt]
  simp

include hcol in
theorem dash_listInterrupts : listInterrupts (dashLine col t) = true := by
  unfold listInterrupts
  rw [dash_parseMarker ht col hcol]
  simp [title_nonblank ht, show isDigit '-' = false by decide]

theorem title_noNl : '\n' ∉ t := by
  obtain ⟨c, r, rfl, hc, hr⟩ := ht
  simp only [List.mem_cons, not_or]
  exact ⟨fun e => (alpha_plainChar c hc).n_nl e.symm, hr⟩

theorem dash_contLine : ContLine (dashLine col t) :=
  ⟨col, '-', ' ' :: t, by simp [dashLine], by decide, by simp [title_noNl ht]⟩

/-- a descendant's line behind the item's content offset -/
theorem dash_continuation (W : Nat) : parseContinuation (dashLine (W + col) t) W = some (dashLine col t) := by
  have := parseContinuation_indented W (dashLine col t) (dash_contLine ht col)
  have e : List.replicate W ' ' ++ dashLine col t = dashLine (W + col) t := by
    simp [dashLine, ← List.replicate_append_replicate]
  rw [e] at this; exact this

/-- a sibling's line is not indented enough to continue the item -/
theorem dash_noContinuation (W : Nat) (h : col < W) : parseContinuation (dashLine col t) W = none := by
  have hsp : ('-' : Char) ≠ ' ' := by decide
  have htab : ('-' : Char) ≠ '\t' := by decide
  have hcont : continuation (dashLine col t) = some (List.replicate col ' ', '-' :: ' ' :: t ++ ['\n']) := by
    unfold continuation dashLine
    simp only [span_sptab_rep col '-' _ hsp htab]
    have : span (· != '\n') (' ' :: (t ++ ['\n'])) = (' ' :: t, ['\n']) := by
      have := span_neNl (' ' :: t) [] (by simp [title_noNl ht])
      simpa using this
    simp [ws, show pyIsSpace '-' = false by decide, this]
  unfold parseContinuation
  rw [hcont]
  have hnt : '\t' ∉ List.replicate col ' ' := by
    simp only [List.mem_replicate, not_and]; intro _ e; exact absurd e (by decide)
  have : ¬ (col ≥ W) := by omega
  simp [expandtabs, expandtabsAux_noTab _ 0 hnt, this]

include hcol in
theorem dash_delimiterRow : delimiterRow (dashLine col t) = false := by
  obtain ⟨c, r, rfl, hc, _⟩ := ht
  have hp := alpha_plainChar c hc
  unfold delimiterRow dashLine
  simp only [span_ws_rep col '-' _ (show pyIsSpace '-' = false by decide)]
  have h1 : span ws ('-' :: ' ' :: (c :: r ++ ['\n'])) = ([], '-' :: ' ' :: (c :: r ++ ['\n'])) := by
    simp [span, ws, show pyIsSpace '-' = false by decide]
  have h2 : alignCol ('-' :: ' ' :: (c :: r ++ ['\n'])) = some (['-'], ' ' :: (c :: r ++ ['\n'])) := by
    simp [alignCol, span]
  simp only [h1, h2]
  simp [delimRest, span, ws, hp.nsp, show pyIsSpace ' ' = true by decide, hp.n_bar]

/-- `ListItem.read`: on a sibling's line no `check_interrupts_paragraph` fires (`List` is not asked, `Table` is not
    asked for a line that carries a marker) -/
theorem anyInterrupt_dash_item (cfg : Cfg) (fw : FW) (l : Line) (hp : fw.peek = some l) (hl : l.s = dashLine col t) (hcol : col < 4) :
    ∀ ts, anyInterrupt cfg fw .list true ts = .ok false
  | [] => rfl
  | x :: ts => by
    have ih := anyInterrupt_dash_item cfg fw l hp hl hcol ts
    have hn := dash_noEarly ht col hcol
    simp only [anyInterrupt]
    split
    · exact ih
    · rename_i hc
      have : interruptsOne cfg fw x = .ok false := by
        unfold interruptsOne
        rw [hp]
        cases x <;> simp [hl, hn.hd, hn.qt, hn.cf, hn.tb, hn.html] at hc ⊢
      rw [this]; exact ih

/-- `Paragraph.read`: a kid's line ends the paragraph of the title (`List.check_interrupts_paragraph`) -/
theorem anyInterrupt_dash_para (cfg : Cfg) (fw : FW) (l : Line) (hp : fw.peek = some l) (hl : l.s = dashLine col t) (hcol : col < 4) :
    ∀ ts, .list ∈ ts → anyInterrupt cfg fw .thematicBreak false ts = .ok true
  | [], hm => by simp at hm
  | x :: ts, hm => by
    have hn := dash_noEarly ht col hcol
    have ih : x ≠ .list → anyInterrupt cfg fw .thematicBreak false ts = .ok true := by
      intro hne
      refine anyInterrupt_dash_para cfg fw l hp hl hcol ts ?_
      rcases List.mem_cons.mp hm with h | h
      · exact absurd h.symm hne
      · exact h
    simp only [anyInterrupt]
    cases x <;> simp only [hasInterrupt, Bool.not_true, Bool.not_false, Bool.false_or, Bool.true_or, Bool.or_false, if_true]
    all_goals first
      | exact ih (by decide)
      | skip
    all_goals simp only [interruptsOne, hp, hl, hn.hd, hn.qt, hn.cf, hn.html, dash_listInterrupts ht col hcol]
    all_goals first
      | exact ih (by decide)
      | rfl
      | skip
    all_goals trace_state
    all_goals sorry

end Dash

end Mistletoe.Block
