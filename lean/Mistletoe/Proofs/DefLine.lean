/-
  C07 — the BLOCK PHASE on link reference definitions (discharges the hypothesis `hbp` of
  `RefResolve.C07_shortcut_document_text`).

  A "simple definition" (`DefSpec`): `[label]: dest` or `[label]: dest "title"` on one line, where
    * the label (`lblCh`) has no backslash, `[`, `]`, line boundary character, and is not blank;
    * the destination (`RefResolve.urlCh`) consists of ASCII letters, digits, `/`, `.` and is not empty;
    * the title (`titleCh`), if any, has no backslash, `"`, line boundary character.
  Proved here, over the block-parser model (`Model/Block.lean`):
    1. `matchReference_def` / `footnoteRefs_defs` / `readFootnote_defs`: `Footnote.match_reference` reads such a line
       as exactly the match `(label, dest, title, "uri", '"' or None)` and `Footnote.read` reads a run of `k` such lines
       (up to a blank line or the end of the buffer) as exactly the `k` matches, in order, consuming exactly those lines;
    2. `tryTypes_def`, `tokLoop_def_step`, `blockPhase_def_para`: no token type other than `Footnote` /
       `LinkReferenceDefinitionBlock` / `Paragraph` starts on a line that begins with `[`; so the block phase of
       `k` definition lines, an empty line and an inert paragraph line gives one definition entry with the `k` matches,
       (the Markdown renderer's `BlankLine`,) one paragraph entry, and `st.defs` = the `k` matches;
    3. `C07_defs_document`: the HTML of that document; corollaries `C07_shortcut_document_text_full` (= `C07_shortcut_document_text`
       without `hbp`), `C07_shortcut_document_title`, `C07_first_of_run_wins` (two definitions, the first one wins).
-/
import Mistletoe.Proofs.RefResolve
import Mistletoe.Props.C14
namespace Mistletoe.DefLine
open Mistletoe Mistletoe.Py Mistletoe.Scan Mistletoe.Block Mistletoe.RefResolve

/-! ## Characters -/

/-- label characters: no backslash, no bracket, no line boundary -/
def lblCh (c : Char) : Bool := c != '\\' && c != '[' && c != ']' && !isLineSep c

/-- title characters (inside double quotes): no backslash, no double quote, no line boundary -/
def titleCh (c : Char) : Bool := c != '\\' && c != '"' && !isLineSep c

theorem lblCh_of (c : Char) (h : lblCh c = true) : c ≠ '\\' ∧ c ≠ '[' ∧ c ≠ ']' ∧ isLineSep c = false := by
  simp only [lblCh, Bool.and_eq_true, bne_iff_ne, ne_eq, Bool.not_eq_eq_eq_not, Bool.not_true] at h
  exact ⟨h.1.1.1, h.1.1.2, h.1.2, h.2⟩

theorem titleCh_of (c : Char) (h : titleCh c = true) : c ≠ '\\' ∧ c ≠ '"' ∧ isLineSep c = false := by
  simp only [titleCh, Bool.and_eq_true, bne_iff_ne, ne_eq, Bool.not_eq_eq_eq_not, Bool.not_true] at h
  exact ⟨h.1.1, h.1.2, h.2⟩

/-- what the destination scanner and `splitlines` need to know about a URL-safe character -/
theorem urlCh_scan (c : Char) (h : urlCh c = true) :
    c ≠ '\\' ∧ coreWs c = false ∧ c ≠ '(' ∧ c ≠ ')' ∧ c ≠ '<' ∧ isLineSep c = false := by
  have key : ∀ n : Fin 128, urlCh (Char.ofNat n) = true →
      Char.ofNat n ≠ '\\' ∧ coreWs (Char.ofNat n) = false ∧ Char.ofNat n ≠ '(' ∧ Char.ofNat n ≠ ')' ∧
        Char.ofNat n ≠ '<' ∧ isLineSep (Char.ofNat n) = false := by decide +kernel
  have hlt : c.toNat < 128 := by
    simp only [urlCh, Bool.and_eq_true, decide_eq_true_eq] at h; exact h.1
  have k := key ⟨c.toNat, hlt⟩
  simp only [Char.ofNat_toNat] at k
  exact k h

/-! ## Positions in a string given as a concatenation -/

/-- closes equations between lengths of concatenations -/
macro "lenx" : tactic => `(tactic| first
  | omega
  | (simp only [List.length_append, List.length_cons, List.length_nil] <;> omega))

theorem drop_eq {s x y : Str} (n : Nat) (hs : s = x ++ y) (hn : n = x.length) : s.drop n = y := by
  subst hs; subst hn; simp

theorem get_eq {s x y : Str} {c : Char} (n : Nat) (hs : s = x ++ c :: y) (hn : n = x.length) : s[n]? = some c := by
  subst hs; subst hn; simp

theorem get_end {s : Str} (n : Nat) (hn : n = s.length) : s[n]? = none := by
  subst hn; simp

theorem slice_eq {s x m y : Str} (i j : Nat) (hs : s = x ++ (m ++ y)) (hi : i = x.length) (hj : j = x.length + m.length) :
    slice s i j = m := by
  subst hs; subst hi; subst hj; simp [slice]

/-! ## The scanners of `Footnote` on a simple definition -/

/-- `match_link_label` inside the brackets: label characters are passed over -/
theorem mllGo_run (s : Str) (off st : Nat) : ∀ (lbl r : Str) (i : Nat), (∀ c ∈ lbl, lblCh c = true) →
    mllGo s off (lbl ++ r) i (some st) false = mllGo s off r (i + lbl.length) (some st) false
  | [], _, _, _ => by simp
  | c :: lbl, r, i, h => by
    obtain ⟨c1, c2, c3, _⟩ := lblCh_of c (h c (by simp))
    have ih := mllGo_run s off st lbl r (i + 1) (fun x hx => h x (List.mem_cons_of_mem _ hx))
    simp only [List.cons_append, mllGo, c1, c2, c3, Bool.false_eq_true, if_false, Option.isNone_some, Bool.false_and]
    rw [ih]
    congr 1
    simp only [List.length_cons]; omega

/-- `match_link_label` at the `[` of `[lbl]` -/
theorem matchLinkLabel_def (s a lbl r : Str) (hs : s = a ++ '[' :: (lbl ++ ']' :: r))
    (hl : ∀ c ∈ lbl, lblCh c = true) (hb : isBlank lbl = false) :
    matchLinkLabel s a.length = some (some a.length, a.length + 1 + lbl.length + 1, lbl) := by
  unfold matchLinkLabel
  rw [drop_eq a.length hs rfl]
  have hsl : slice s (a.length + 1) (a.length + 1 + lbl.length) = lbl :=
    slice_eq (x := a ++ ['[']) (y := ']' :: r) _ _ (by rw [hs]; simp) (by simp) (by simp)
  simp only [mllGo, Char.reduceEq, Bool.false_eq_true, if_false, if_true, Option.isNone_some, Bool.false_and]
  rw [mllGo_run s a.length a.length lbl (']' :: r) (a.length + 1) hl]
  simp only [mllGo, Char.reduceEq, Bool.false_eq_true, if_false, if_true, hsl, hb, Bool.not_false]

/-- `match_link_dest` (no angle brackets): URL-safe characters are passed over, the count of parentheses stays -/
theorem mldPlain_run : ∀ (dest r : Str) (i : Nat) (cnt : Int), (∀ c ∈ dest, urlCh c = true) →
    mldPlain (dest ++ r) i false cnt = mldPlain r (i + dest.length) false cnt
  | [], _, _, _, _ => by simp
  | c :: dest, r, i, cnt, h => by
    obtain ⟨c1, c2, c3, c4, _, _⟩ := urlCh_scan c (h c (by simp))
    have ih := mldPlain_run dest r (i + 1) cnt (fun x hx => h x (List.mem_cons_of_mem _ hx))
    simp only [List.cons_append, mldPlain, c1, c2, c3, c4, decide_false, Bool.false_and, Bool.false_eq_true, if_false,
      Bool.not_false, if_true]
    rw [ih]
    congr 1
    simp only [List.length_cons]; omega

/-- `match_link_dest` at the first character of a URL-safe destination followed by a space or a newline -/
theorem matchLinkDest_def (s x dest r : Str) (w : Char) (hs : s = x ++ (dest ++ w :: r))
    (hd : ∀ c ∈ dest, urlCh c = true) (hne : dest ≠ []) (hw : coreWs w = true) :
    matchLinkDest s x.length = .ok (some (x.length, x.length + dest.length, dest)) ∧ (s[x.length]? == some '<') = false := by
  obtain ⟨c, d', rfl⟩ := List.exists_cons_of_ne_nil hne
  obtain ⟨_, _, _, _, c5, _⟩ := urlCh_scan c (hd c (by simp))
  have hg : s[x.length]? = some c := get_eq (y := d' ++ w :: r) _ (by rw [hs]; simp) rfl
  have hw' : w ≠ '\\' := by intro e; subst e; revert hw; decide
  refine ⟨?_, by rw [hg]; simpa using c5⟩
  unfold matchLinkDest
  rw [hg]
  simp only [c5, if_false]
  rw [drop_eq x.length hs rfl, mldPlain_run (c :: d') (w :: r) x.length 0 hd]
  simp only [mldPlain, hw', decide_false, Bool.false_and, Bool.false_eq_true, if_false, hw, if_true]
  rw [slice_eq (x := x) (m := c :: d') (y := w :: r) _ _ hs rfl rfl]
  simp

/-- `match_link_title` inside double quotes: title characters are passed over -/
theorem mltGo_run (s : Str) (off : Nat) : ∀ (t r : Str) (i : Nat), (∀ c ∈ t, titleCh c = true) →
    mltGo s off '"' (t ++ r) i false = mltGo s off '"' r (i + t.length) false
  | [], _, _, _ => by simp
  | c :: t, r, i, h => by
    obtain ⟨c1, c2, _⟩ := titleCh_of c (h c (by simp))
    have ih := mltGo_run s off t r (i + 1) (fun x hx => h x (List.mem_cons_of_mem _ hx))
    simp only [List.cons_append, mltGo, c1, c2, decide_false, Bool.false_and, Bool.false_eq_true, if_false]
    rw [ih]
    congr 1
    simp only [List.length_cons]; omega

/-- `match_link_title` at the opening `"` -/
theorem matchLinkTitle_def (s x t r : Str) (hs : s = x ++ '"' :: (t ++ '"' :: r)) (ht : ∀ c ∈ t, titleCh c = true) :
    matchLinkTitle s x.length = some (x.length, x.length + 1 + t.length + 1, t) := by
  unfold matchLinkTitle
  rw [get_eq x.length hs rfl]
  simp only [if_true]
  rw [drop_eq (x := x ++ ['"']) (y := t ++ '"' :: r) (x.length + 1) (by rw [hs]; simp) (by simp),
    mltGo_run s x.length t ('"' :: r) (x.length + 1) ht]
  simp only [mltGo, Char.reduceEq, decide_false, decide_true, Bool.false_and, Bool.true_and, Bool.not_false,
    Bool.false_eq_true, if_false, if_true]
  rw [slice_eq (x := x ++ ['"']) (m := t) (y := '"' :: r) _ _ (by rw [hs]; simp) (by simp) (by simp)]

/-- `match_link_title` where no title starts -/
theorem matchLinkTitle_none (s : Str) (n : Nat) (h : ∀ c, s[n]? = some c → c ≠ '"' ∧ c ≠ '\'' ∧ c ≠ '(') :
    matchLinkTitle s n = none := by
  unfold matchLinkTitle
  cases hc : s[n]? with
  | none => rfl
  | some c =>
    obtain ⟨h1, h2, h3⟩ := h c hc
    simp [h1, h2, h3]

theorem shiftWhitespace_one (s x r : Str) (w : Char) (hs : s = x ++ w :: r) (hw : coreWs w = true)
    (hr : ∀ c, r.head? = some c → coreWs c = false) : shiftWhitespace s x.length = x.length + 1 := by
  unfold shiftWhitespace
  rw [drop_eq x.length hs rfl]
  cases r with
  | nil => simp [List.takeWhile, hw]
  | cons c r' => simp [List.takeWhile, hw, hr c rfl]

/-! ## `Footnote.match_reference` -/

/-- a simple definition: label, destination, optional title (written in double quotes) -/
structure DefSpec where
  lbl : Str
  dest : Str
  title : Option Str := none

namespace DefSpec

/-- the text after the destination -/
def tail (d : DefSpec) : Str :=
  match d.title with
  | none => ['\n']
  | some t => ' ' :: '"' :: (t ++ ['"', '\n'])

/-- the line `[lbl]: dest` or `[lbl]: dest "title"`, with its final newline -/
def line (d : DefSpec) : Str := '[' :: (d.lbl ++ ']' :: ':' :: ' ' :: (d.dest ++ d.tail))

/-- the tuple `match_reference` returns for it -/
def fnMatch (d : DefSpec) : FnMatch :=
  { label := d.lbl, dest := d.dest, title := d.title.getD [], destType := "uri".toList,
    titleDelim := d.title.map (fun _ => '"') }

/-- the side conditions (decidable) -/
def ok (d : DefSpec) : Bool :=
  d.lbl.all lblCh && !isBlank d.lbl && d.dest.all urlCh && !d.dest.isEmpty &&
    (match d.title with | none => true | some t => t.all titleCh)

structure Ok (d : DefSpec) : Prop where
  hl : ∀ c ∈ d.lbl, lblCh c = true
  hb : isBlank d.lbl = false
  hd : ∀ c ∈ d.dest, urlCh c = true
  hne : d.dest ≠ []
  ht : ∀ t, d.title = some t → ∀ c ∈ t, titleCh c = true

theorem ok_spec (d : DefSpec) (h : d.ok = true) : d.Ok := by
  simp only [ok, Bool.and_eq_true, List.all_eq_true, Bool.not_eq_eq_eq_not, Bool.not_true, List.isEmpty_eq_false_iff] at h
  obtain ⟨⟨⟨⟨h1, h2⟩, h3⟩, h4⟩, h5⟩ := h
  refine ⟨h1, h2, h3, h4, ?_⟩
  intro t ht
  rw [ht] at h5
  simpa using h5

theorem tail_head (d : DefSpec) : ∃ w r, d.tail = w :: r ∧ coreWs w = true := by
  unfold tail
  cases d.title with
  | none => exact ⟨'\n', [], rfl, by decide⟩
  | some t => exact ⟨' ', _, rfl, by decide⟩

theorem line_length (d : DefSpec) : d.line.length = d.lbl.length + d.dest.length + d.tail.length + 4 := by
  simp only [line, List.length_cons, List.length_append]; omega

end DefSpec

/-- what may follow a definition in the buffer: nothing, or a character that is neither whitespace nor a title opener
    (in particular the `[` of the next definition) -/
def NextOk (b : Str) : Prop := ∀ c, b.head? = some c → coreWs c = false ∧ c ≠ '"' ∧ c ≠ '\'' ∧ c ≠ '('

theorem nextOk_nil : NextOk [] := by intro c h; cases h
theorem nextOk_lb (r : Str) : NextOk ('[' :: r) := by
  intro c h
  simp only [List.head?_cons, Option.some.injEq] at h
  subst h; decide

/-- **`Footnote.match_reference` on a simple definition**: at the offset of its `[` it returns the offset after the
    line's newline and the tuple `(label, dest, title, "uri", delimiter)` -/
theorem matchReference_def (d : DefSpec) (hd : d.Ok) (a b : Str) (hb : NextOk b) :
    matchReference (a ++ d.line ++ b) a.length = .ok (some (a.length + d.line.length, d.fnMatch)) := by
  generalize hs : a ++ d.line ++ b = s
  have hs := hs.symm
  obtain ⟨w, r, htl, hw⟩ := d.tail_head
  -- positions
  have hL := matchLinkLabel_def s a d.lbl (':' :: ' ' :: (d.dest ++ d.tail ++ b))
    (by rw [hs]; simp [DefSpec.line]) hd.hl hd.hb
  have hcolon : s[a.length + 1 + d.lbl.length + 1]? = some ':' :=
    get_eq (x := a ++ '[' :: (d.lbl ++ [']'])) (y := ' ' :: (d.dest ++ d.tail ++ b)) _ (by rw [hs]; simp [DefSpec.line]) (by simp; omega)
  obtain ⟨c0, d', hd0⟩ := List.exists_cons_of_ne_nil hd.hne
  have hc0 : coreWs c0 = false := (urlCh_scan c0 (hd.hd c0 (by rw [hd0]; simp))).2.1
  have hsw : shiftWhitespace s (a.length + 1 + d.lbl.length + 1 + 1) = a.length + 1 + d.lbl.length + 1 + 1 + 1 := by
    have := shiftWhitespace_one s (a ++ '[' :: (d.lbl ++ [']', ':'])) (d.dest ++ d.tail ++ b) ' '
      (by rw [hs]; simp [DefSpec.line]) (by decide) (by rw [hd0]; intro c hc; simp at hc; subst hc; exact hc0)
    have e : (a ++ '[' :: (d.lbl ++ [']', ':'])).length = a.length + 1 + d.lbl.length + 1 + 1 := by simp; omega
    rw [e] at this; exact this
  -- the destination
  obtain ⟨P, hP⟩ : ∃ P : Str, P = a ++ '[' :: (d.lbl ++ [']', ':', ' ']) := ⟨_, rfl⟩
  have hPl : P.length = a.length + 1 + d.lbl.length + 1 + 1 + 1 := by rw [hP]; simp; omega
  have hsP : s = P ++ (d.dest ++ w :: (r ++ b)) := by rw [hs, hP]; simp [DefSpec.line, htl]
  obtain ⟨hD, hlt⟩ := matchLinkDest_def s P d.dest (r ++ b) w hsP hd.hd hd.hne hw
  have hne : (P.length == s.length) = false := by
    have : s.length = P.length + (d.dest ++ w :: (r ++ b)).length := by rw [hsP]; simp
    simp only [List.length_append, List.length_cons] at this
    simp; omega
  unfold matchReference
  rw [hL]
  simp only [follows]
  have e1 : a.length + 1 + d.lbl.length + 1 - 1 + 1 = a.length + 1 + d.lbl.length + 1 := by omega
  rw [e1, hcolon, hsw, ← hPl]
  simp only [beq_self_eq_true, Bool.not_true, Bool.false_eq_true, if_false, hne, hD, hlt]
  -- after the destination
  cases htt : d.title with
  | none =>
    have htl' : d.tail = ['\n'] := by simp [DefSpec.tail, htt]
    rw [htl'] at htl
    obtain ⟨rfl, rfl⟩ : w = '\n' ∧ r = [] := by simpa using htl.symm
    have hsE : s = (P ++ d.dest) ++ '\n' :: b := by rw [hsP]; simp
    have hts : shiftWhitespace s (P.length + d.dest.length) = P.length + d.dest.length + 1 := by
      have := shiftWhitespace_one s (P ++ d.dest) b '\n' hsE (by decide) (fun c hc => (hb c hc).1)
      simpa using this
    have hfn : findNl s (P.length + d.dest.length) (P.length + d.dest.length + 1) = some 0 := by
      unfold findNl
      rw [slice_eq (x := P ++ d.dest) (m := ['\n']) (y := b) _ _ (by rw [hsE]; simp) (by simp) (by simp)]
      rfl
    have hmt : matchLinkTitle s (P.length + d.dest.length + 1) = none := by
      apply matchLinkTitle_none
      intro c hc
      cases b with
      | nil =>
        rw [get_end _ (by rw [hsE]; lenx)] at hc; cases hc
      | cons c' b' =>
        rw [get_eq (x := P ++ d.dest ++ ['\n']) (y := b') (c := c') _ (by rw [hsE]; simp) (by lenx)] at hc
        cases hc
        exact (hb c rfl).2
    rw [hts, hfn, hmt]
    have hlen : a.length + d.line.length = P.length + d.dest.length + 0 + 1 := by
      rw [hPl, DefSpec.line_length, htl']; simp; omega
    simp only [hlen, DefSpec.fnMatch, htt, Option.getD_none, Option.map_none]
    have : ¬ (P.length + d.dest.length + 1 = P.length + d.dest.length ∧ P.length + d.dest.length + 1 < s.length) := by omega
    simp
  | some t =>
    have htl' : d.tail = ' ' :: '"' :: (t ++ ['"', '\n']) := by simp [DefSpec.tail, htt]
    rw [htl'] at htl
    obtain ⟨rfl, rfl⟩ : w = ' ' ∧ r = '"' :: (t ++ ['"', '\n']) := by
      simp only [List.cons.injEq] at htl; exact ⟨htl.1.symm, htl.2.symm⟩
    have hsE : s = (P ++ d.dest) ++ ' ' :: ('"' :: (t ++ '"' :: '\n' :: b)) := by rw [hsP]; simp
    have hts : shiftWhitespace s (P.length + d.dest.length) = P.length + d.dest.length + 1 := by
      have := shiftWhitespace_one s (P ++ d.dest) ('"' :: (t ++ '"' :: '\n' :: b)) ' ' hsE (by decide)
        (by intro c hc; simp at hc; subst hc; decide)
      simpa using this
    have hmt := matchLinkTitle_def s (P ++ d.dest ++ [' ']) t ('\n' :: b) (by rw [hsE]; simp) (hd.ht t htt)
    have e2 : (P ++ d.dest ++ [' ']).length = P.length + d.dest.length + 1 := by lenx
    rw [e2] at hmt
    have hle : lineEndGo s (s.drop (P.length + d.dest.length + 1 + 1 + t.length + 1)) (P.length + d.dest.length + 1 + 1 + t.length + 1) =
        some (P.length + d.dest.length + 1 + 1 + t.length + 1 + 1) := by
      rw [drop_eq (x := P ++ d.dest ++ ' ' :: '"' :: (t ++ ['"'])) (y := '\n' :: b) _ (by rw [hsE]; simp) (by simp; omega)]
      simp [lineEndGo]
    have hq : s[P.length + d.dest.length + 1]? = some '"' :=
      get_eq (x := P ++ d.dest ++ [' ']) (y := t ++ '"' :: '\n' :: b) _ (by rw [hsE]; simp) (by lenx)
    rw [hts, hmt]
    simp only [hle, hq]
    have hlen : a.length + d.line.length = P.length + d.dest.length + 1 + 1 + t.length + 1 + 1 := by
      rw [hPl, DefSpec.line_length, htl']; simp; omega
    have h1 : ¬ (P.length + d.dest.length + 1 = P.length + d.dest.length ∧ P.length + d.dest.length + 1 < s.length) := by omega
    have h2 : P.length + d.dest.length + 1 < P.length + d.dest.length + 1 + 1 + t.length + 1 := by omega
    simp [hlen, DefSpec.fnMatch, htt, h2]

/-! ## `Footnote.read` on a run of simple definitions -/

/-- the joined text of `k` definition lines -/
def linesOf (ds : List DefSpec) : Str := (ds.map DefSpec.line).flatten

theorem linesOf_cons (d : DefSpec) (ds : List DefSpec) : linesOf (d :: ds) = d.line ++ linesOf ds := by
  simp [linesOf]

theorem linesOf_next : ∀ (ds : List DefSpec), NextOk (linesOf ds)
  | [] => nextOk_nil
  | d :: ds => by rw [linesOf_cons]; exact nextOk_lb _

theorem linesOf_length : ∀ (ds : List DefSpec), ds.length ≤ (linesOf ds).length
  | [] => by simp [linesOf]
  | d :: ds => by
    have := linesOf_length ds
    rw [linesOf_cons, List.length_append, DefSpec.line_length, List.length_cons]; omega

/-- the loop `while offset < len(string) - 1: match_reference` over `k` definitions: exactly the `k` matches, in order,
    and the whole string is consumed (no line is handed back) -/
theorem footnoteRefs_defs (s : Str) : ∀ (ds : List DefSpec) (a : Str) (acc : List FnMatch) (fuel : Nat),
    s = a ++ linesOf ds → (∀ d ∈ ds, d.Ok) → ds.length < fuel →
    footnoteRefs s fuel a.length acc = .ok (acc.reverse ++ ds.map DefSpec.fnMatch, none)
  | _, _, _, 0, _, _, hf => by simp at hf
  | [], a, acc, fuel + 1, hs, _, _ => by
    have : ¬ a.length + 1 < s.length := by rw [hs]; simp [linesOf]
    simp [footnoteRefs, this]
  | d :: ds, a, acc, fuel + 1, hs, hok, hf => by
    have hlt : a.length + 1 < s.length := by
      rw [hs, linesOf_cons]
      simp only [List.length_append, DefSpec.line_length]; omega
    have hm := matchReference_def d (hok d (by simp)) a (linesOf ds) (linesOf_next ds)
    have hs' : s = a ++ d.line ++ linesOf ds := by rw [hs, linesOf_cons]; simp
    rw [← hs'] at hm
    have ih := footnoteRefs_defs s ds (a ++ d.line) (d.fnMatch :: acc) fuel hs'
      (fun x hx => hok x (List.mem_cons_of_mem _ hx)) (by simp only [List.length_cons] at hf; omega)
    rw [List.length_append] at ih
    simp only [footnoteRefs, hlt, if_true, hm, ih]
    simp

/-- the first loop of `Footnote.read`: the lines up to the next blank line -/
theorem footnoteLines_run (start : Nat) : ∀ (dl pre post : List Line) (buf : List Str) (fuel : Nat),
    (∀ l ∈ dl, isBlank l.s = false) → (∀ b, post.head? = some b → isBlank b.s = true) → dl.length < fuel →
    footnoteLines fuel ⟨pre ++ (dl ++ post), pre.length, start⟩ buf =
      ((dl.map (·.s)).reverse ++ buf, ⟨pre ++ (dl ++ post), pre.length + dl.length, start⟩)
  | _, _, _, _, 0, _, _, hf => by simp at hf
  | [], pre, post, buf, fuel + 1, _, hb, _ => by
    simp only [footnoteLines, List.nil_append]
    cases post with
    | nil => simp [peek_end]
    | cons b rest => simp [peek_at, hb b rfl]
  | l :: dl, pre, post, buf, fuel + 1, hq, hb, hf => by
    have hl := hq l (by simp)
    have hp := peek_at pre l (dl ++ post) start
    have hn : (FW.next ⟨pre ++ l :: (dl ++ post), pre.length, start⟩) =
        ⟨(pre ++ [l]) ++ (dl ++ post), (pre ++ [l]).length, start⟩ := by
      simp [FW.next]
    simp only [footnoteLines, List.cons_append, hp, hl, Bool.not_false, if_true]
    rw [hn, footnoteLines_run start dl (pre ++ [l]) post (l.s :: buf) fuel
      (fun x hx => hq x (List.mem_cons_of_mem _ hx)) hb (by simp only [List.length_cons] at hf; omega)]
    simp only [List.map_cons, List.reverse_cons, List.append_assoc, List.singleton_append, List.length_append,
      List.length_cons, List.length_nil]
    have e : pre.length + (0 + 1) + dl.length = pre.length + (dl.length + 1) := by omega
    rw [e]

theorem isBlank_lb (r : Str) : isBlank ('[' :: r) = false := by
  have : pyIsSpace '[' = false := by decide
  simp [isBlank, this]

theorem defLine_nonblank (d : DefSpec) : isBlank d.line = false := isBlank_lb _

/-- the lines of the buffer are the texts of the definitions `ds` -/
def LinesAre (dl : List Line) (ds : List DefSpec) : Prop := dl.map (·.s) = ds.map DefSpec.line

theorem LinesAre.nonblank {dl : List Line} {ds : List DefSpec} (h : LinesAre dl ds) : ∀ l ∈ dl, isBlank l.s = false := by
  intro l hl
  have : l.s ∈ ds.map DefSpec.line := by rw [← h]; exact List.mem_map_of_mem hl
  obtain ⟨d, _, hd⟩ := List.mem_map.mp this
  rw [← hd]; exact defLine_nonblank d

theorem LinesAre.length {dl : List Line} {ds : List DefSpec} (h : LinesAre dl ds) : dl.length = ds.length := by
  have := congrArg List.length h
  simpa using this

/-- **`Footnote.read` on `k` simple definitions followed by a blank line or the end of the buffer**: the `k` matches in
    order; the cursor is behind the `k` lines -/
theorem readFootnote_defs (ds : List DefSpec) (hok : ∀ d ∈ ds, d.Ok) (dl pre post : List Line) (start : Nat)
    (hdl : LinesAre dl ds) (hb : ∀ b, post.head? = some b → isBlank b.s = true) :
    readFootnote ⟨pre ++ (dl ++ post), pre.length, start⟩ =
      .ok (ds.map DefSpec.fnMatch, ⟨pre ++ (dl ++ post), pre.length + dl.length, start⟩) := by
  unfold readFootnote
  rw [footnoteLines_run start dl pre post [] _ hdl.nonblank hb (by simp [FW.remaining]; omega)]
  simp only [List.append_nil, List.reverse_reverse]
  have hs : (dl.map (·.s)).flatten = linesOf ds := by rw [hdl]; rfl
  rw [hs]
  have := footnoteRefs_defs (linesOf ds) ds [] [] ((linesOf ds).length + 2) (by simp) hok
    (by have := linesOf_length ds; omega)
  simp only [List.length_nil, List.reverse_nil, List.nil_append] at this
  rw [this]

/-! ## The dispatcher on a line that begins with `[` -/

/-- none of the block patterns tried before `Footnote` fires on the line; `Footnote.start` does -/
structure DefQuiet (s : Str) : Prop where
  nb : isBlank s = false
  bc : blockCodeStart s = false
  hd : Scan.heading s = none
  qt : quoteStart s = false
  cf : codeFenceStart s = none
  tb : Scan.thematicBreak s = false
  ls : listStart s = false
  html : htmlBlockStart s = .ok none
  dr : delimiterRow s = false
  bl : Scan.blankLine s = false
  br : startsWith ['['] (lstrip s) = true

theorem upTo3_lb (r : Str) : upTo3Spaces ('[' :: r) = some (0, '[' :: r) := by
  simpa using upTo3_rep 0 '[' r (by decide) (by omega)

theorem lstrip_lb (r : Str) : lstrip ('[' :: r) = '[' :: r := by
  simpa using lstrip_rep 0 '[' r (by decide)

/-- **a line that begins with `[`**: not blank, not indented code, no ATX heading, no quote marker, no code fence, no
    thematic break, no list marker, no HTML block start, no table delimiter row; `Footnote.start` accepts it -/
theorem defQuiet_lb (r : Str) : DefQuiet ('[' :: r) := by
  have hsp : pyIsSpace '[' = false := by decide
  have hdig : isDigit '[' = false := by decide
  refine ⟨isBlank_lb r, ?_, ?_, ?_, ?_, ?_, ?_, ?_, ?_, ?_, ?_⟩
  · unfold blockCodeStart replaceTab1
    simp [replaceTab_plain _ _ (by decide : '[' ≠ '\t'), startsWith, isPrefix_ne _ _ _ _ (by decide : '[' ≠ ' ')]
  · unfold Scan.heading
    rw [upTo3_lb]
    simp [span]
  · have := lstripSp_rep 0 '[' r (by decide)
    simp only [List.replicate_zero, List.nil_append] at this
    simp [quoteStart, this, startsWith, isPrefix_ne _ _ _ _ (by decide : '[' ≠ '>')]
  · unfold codeFenceStart Scan.codeFence
    rw [upTo3_lb]
    simp
  · unfold Scan.thematicBreak
    rw [upTo3_lb]
    simp
  · unfold listStart
    rw [upTo3_lb]
    have : listMarker ('[' :: r) = none := by
      unfold listMarker
      simp [span, hdig]
    simp only [this]
  · unfold htmlBlockStart
    simp only [lstrip_lb]
    have hm : multiblock ('[' :: r) = none := by unfold multiblock; simp
    have hs : ∀ p : Str, startsWith ('<' :: p) ('[' :: r) = false := by
      intro p; simp [startsWith, isPrefix_ne _ _ _ _ (by decide : '[' ≠ '<')]
    have hr : htmlRest ('[' :: r) = none := by
      unfold htmlRest
      have h1 : predefined ('[' :: r) = none := by unfold predefined; simp
      have h2 : customTag ('[' :: r) = false := by
        unfold customTag
        have a : openTag ('[' :: r) = none := by unfold openTag; simp
        have b : closingTag ('[' :: r) = none := by unfold closingTag; simp
        simp [a, b]
      simp [h1, h2]
    have e1 : "<!--".toList = '<' :: ['!', '-', '-'] := by decide
    have e2 : "<?".toList = '<' :: ['?'] := by decide
    have e3 : "<!".toList = '<' :: ['!'] := by decide
    simp [hm, e1, e2, e3, hs, hr]
  · unfold delimiterRow
    simp [span, ws, hsp, alignCol_none '[' r (by decide) (by decide)]
  · unfold Scan.blankLine
    simp [ws, hsp]
  · rw [lstrip_lb]; rfl

theorem defQuiet_line (d : DefSpec) : DefQuiet d.line := defQuiet_lb _

/-- the token types that can take a line beginning with `[` -/
def isDefOrPara (t : BTok) : Bool := t == .footnote || t == .linkRefDefBlock || t == .paragraph

/-- the entry the type `t` (`Footnote` or the Markdown renderer's `LinkReferenceDefinitionBlock`) produces -/
def defEntry (t : BTok) (ms : List FnMatch) (ln og : Nat) : Entry :=
  if t = .linkRefDefBlock then .linkRefDefs ms ln og else .footnote ms ln og

/-- **On a line beginning with `[`, every token type up to the first of `Footnote` / `LinkReferenceDefinitionBlock` /
    `Paragraph` is passed over**; when that first one is a definition type and `Footnote.read` returns matches, the result is
    the definition entry and the matches are appended to the collected definitions. -/
theorem tryTypes_def (cfg : Cfg) (fw : FW) (st : St) (l : Line) (ms : List FnMatch) (fw' : FW)
    (hq : DefQuiet l.s) (ht : readTable fw = none) (hR : readFootnote fw = .ok (ms, fw')) (hne : ms ≠ []) (t : BTok)
    (htp : t ≠ .paragraph) :
    ∀ (ts : List BTok) (gas : Nat), ts.find? isDefOrPara = some t → ts.length ≤ gas →
      tryTypes cfg gas fw st l ts =
        .ok (some (defEntry t ms (fw.start + fw.pos) l.origin, fw', { st with defs := st.defs ++ ms }))
  | [], _, hm, _ => by simp at hm
  | u :: ts, 0, _, hg => by simp at hg
  | u :: ts, gas + 1, hm, hg => by
    have hg' : ts.length ≤ gas := by simp only [List.length_cons] at hg; omega
    have ih : isDefOrPara u = false → tryTypes cfg gas fw st l ts =
        .ok (some (defEntry t ms (fw.start + fw.pos) l.origin, fw', { st with defs := st.defs ++ ms })) := by
      intro hu
      refine tryTypes_def cfg fw st l ms fw' hq ht hR hne t htp ts gas ?_ hg'
      simpa [List.find?_cons, hu] using hm
    have hself : isDefOrPara u = true → u = t := by
      intro hu
      simpa [List.find?_cons, hu] using hm
    have hemp : ms.isEmpty = false := by
      cases ms with
      | nil => exact absurd rfl hne
      | cons _ _ => rfl
    unfold tryTypes
    cases u <;> simp only
    · rw [hq.html]; exact ih (by decide)
    · rw [hq.bc]; exact ih (by decide)
    · simp only [readHeading, hq.hd]; exact ih (by decide)
    · rw [hq.qt]; exact ih (by decide)
    · rw [hq.cf]; exact ih (by decide)
    · rw [hq.tb]; exact ih (by decide)
    · rw [hq.ls]; exact ih (by decide)
    · rw [ht]
      split <;> exact ih (by decide)
    · have := hself (by decide)
      subst this
      simp [hq.br, hR, hemp, defEntry]
    · exact absurd (hself (by decide)).symm htp
    · rw [hq.bl]; exact ih (by decide)
    · have := hself (by decide)
      subst this
      simp [hq.br, hR, hemp, defEntry]

/-! ## The `while line is not None` loop -/

theorem delimiterRow_next (dl post : List Line) (ds : List DefSpec) (hdl : LinesAre dl ds)
    (hb : ∀ b, post.head? = some b → isBlank b.s = true) :
    ∀ l', (dl ++ post).head? = some l' → delimiterRow l'.s = false := by
  intro l' h
  cases dl with
  | nil => exact delimiterRow_blank _ (hb l' (by simpa using h))
  | cons x xs =>
    simp only [List.cons_append, List.head?_cons, Option.some.injEq] at h
    subst h
    cases ds with
    | nil => simp [LinesAre] at hdl
    | cons d ds' =>
      simp only [LinesAre, List.map_cons, List.cons.injEq] at hdl
      rw [hdl.1]; exact (defQuiet_line d).dr

/-- one definition entry: a run of `k ≥ 1` simple definitions followed by the end of the buffer or a blank line -/
theorem tokLoop_def_step (cfg : Cfg) (t : BTok) (hsel : cfg.types.find? isDefOrPara = some t) (htp : t ≠ .paragraph)
    (gas : Nat) (hg : cfg.types.length ≤ gas)
    (d : DefSpec) (ds : List DefSpec) (hok : ∀ x ∈ d :: ds, x.Ok) (l : Line) (dl pre post : List Line)
    (hdl : LinesAre (l :: dl) (d :: ds)) (start : Nat) (st : St) (acc : List Entry) (loose : Bool)
    (hb : ∀ b, post.head? = some b → isBlank b.s = true) :
    tokLoop cfg (gas + 1) ⟨pre ++ (l :: dl ++ post), pre.length, start⟩ st acc loose =
      tokLoop cfg gas ⟨(pre ++ l :: dl) ++ post, (pre ++ l :: dl).length, start⟩
        { st with defs := st.defs ++ (d :: ds).map DefSpec.fnMatch }
        (defEntry t ((d :: ds).map DefSpec.fnMatch) (start + pre.length) l.origin :: acc) loose := by
  have hl : l.s = d.line ∧ LinesAre dl ds := by
    simp only [LinesAre, List.map_cons, List.cons.injEq] at hdl; exact hdl
  have hp := peek_at pre l (dl ++ post) start
  have ht := readTable_none pre l (dl ++ post) start (delimiterRow_next dl post ds hl.2 hb)
  have hR := readFootnote_defs (d :: ds) hok (l :: dl) pre post start hdl hb
  have hq : DefQuiet l.s := by rw [hl.1]; exact defQuiet_line d
  simp only [List.cons_append] at hR
  have hT := tryTypes_def cfg _ st l _ _ hq ht hR (by simp) t htp cfg.types gas hsel hg
  simp only [tokLoop, List.cons_append, hp]
  rw [hT]
  simp only [List.append_assoc, List.cons_append, List.length_append, List.length_cons]

/-- **`k` simple definitions, an empty line, an inert paragraph line** (anywhere in the loop): one definition entry with the
    `k` matches, (the Markdown renderer's `BlankLine`,) one paragraph; the `k` matches are appended to the definitions -/
theorem tokLoop_def_para (cfg : Cfg) (t : BTok) (hsel : cfg.types.find? isDefOrPara = some t) (htp : t ≠ .paragraph)
    (hpar : .paragraph ∈ cfg.types) (d : DefSpec) (ds : List DefSpec) (hok : ∀ x ∈ d :: ds, x.Ok)
    (l : Line) (dl pre : List Line) (b p : Line) (hdl : LinesAre (l :: dl) (d :: ds)) (hbl : b.s = ['\n'])
    (hp : Props.C14.inertLine p.s = true) (start : Nat) (st : St) (acc : List Entry) (loose : Bool) (gas : Nat) :
    tokLoop cfg (gas + (cfg.types.length + 3)) ⟨pre ++ (l :: dl ++ [b, p]), pre.length, start⟩ st acc loose =
      .ok ({ entries := acc.reverse ++ defEntry t ((d :: ds).map DefSpec.fnMatch) (start + pre.length) l.origin ::
                ((if cfg.types.contains .blankLine then [.blankLine (start + pre.length + dl.length + 1) b.origin] else []) ++
                 [.paragraph [p.s] (start + pre.length + dl.length + 2) p.origin]),
             loose := loose || !cfg.types.contains .blankLine },
           { st with defs := st.defs ++ (d :: ds).map DefSpec.fnMatch }) := by
  obtain ⟨n, hn⟩ : ∃ n, cfg.types.length = n + 1 := by
    cases h : cfg.types with
    | nil => rw [h] at hpar; simp at hpar
    | cons x xs => exact ⟨xs.length, rfl⟩
  have hq := Props.C14.inertLine_quiet p.s hp
  have e0 : gas + (cfg.types.length + 3) = (gas + cfg.types.length + 2) + 1 := by omega
  rw [e0, tokLoop_def_step cfg t hsel htp _ (by omega) d ds hok l dl pre [b, p] hdl start st acc loose
    (by intro b' hb'; simp only [List.head?_cons, Option.some.injEq] at hb'; subst hb'; rw [hbl]; decide)]
  have e1 : gas + cfg.types.length + 2 = (gas + cfg.types.length + 1) + 1 := by omega
  rw [e1, tokLoop_nl_step cfg _ (by omega) b (pre ++ l :: dl) [p] start _ _ loose hbl]
  have e2 : gas + cfg.types.length + 1 = (gas + cfg.types.length) + 1 := by omega
  have hpara := fun st acc loose => tokLoop_para_step cfg hpar (gas + cfg.types.length) (by omega) p [] ((pre ++ l :: dl) ++ [b]) []
    start st acc loose hq (by simp) (by simp)
  simp only [List.append_nil] at hpara
  have e3 : gas + cfg.types.length = (gas + n) + 1 := by omega
  have hlen : start + (pre ++ l :: dl ++ [b]).length = start + pre.length + dl.length + 2 := by lenx
  have hlen2 : start + (pre ++ l :: dl).length = start + pre.length + dl.length + 1 := by lenx
  by_cases hm : cfg.types.contains .blankLine = true
  · simp only [hm, if_true]
    rw [e2, hpara, e3, tokLoop_end, hlen, hlen2]
    simp
  · have hm' : cfg.types.contains .blankLine = false := by simpa using hm
    simp only [hm', Bool.false_eq_true, if_false]
    rw [e2, hpara, e3, tokLoop_end, hlen]
    simp

/-- **The block phase on `k` simple definitions, an empty line and one inert paragraph line**: for every token-type list in
    which the first of `Footnote` / `LinkReferenceDefinitionBlock` / `Paragraph` is a definition type `t` and which contains
    `Paragraph`, every `tableInterrupt`, every gas ≥ `cfg.types.length + 4`. -/
theorem blockPhase_def_para (cfg : Cfg) (t : BTok) (hsel : cfg.types.find? isDefOrPara = some t) (htp : t ≠ .paragraph)
    (hpar : .paragraph ∈ cfg.types) (d : DefSpec) (ds : List DefSpec) (hok : ∀ x ∈ d :: ds, x.Ok)
    (para : Str) (hp : Props.C14.inertLine para = true) (gas : Nat) :
    blockPhase cfg (gas + (cfg.types.length + 4)) ((d :: ds).map DefSpec.line ++ [['\n'], para]) =
      .ok ({ entries := defEntry t ((d :: ds).map DefSpec.fnMatch) 1 1 ::
                ((if cfg.types.contains .blankLine then [.blankLine (ds.length + 2) (ds.length + 2)] else []) ++
                 [.paragraph [para] (ds.length + 3) (ds.length + 3)]),
             loose := !cfg.types.contains .blankLine },
           { defs := (d :: ds).map DefSpec.fnMatch }) := by
  have e : ∀ g, blockPhase cfg g ((d :: ds).map DefSpec.line ++ [['\n'], para]) =
      tokenizeBlock cfg g (Props.C14.numbered 0 ((d :: ds).map DefSpec.line ++ [['\n'], para])) 1 {} := fun _ => rfl
  have eg : gas + (cfg.types.length + 4) = (gas + (cfg.types.length + 3)) + 1 := by omega
  rw [e, eg]
  simp only [tokenizeBlock]
  open Props.C14 in
  have hnum : numbered 0 ((d :: ds).map DefSpec.line ++ [['\n'], para]) =
      [] ++ ({ s := d.line, origin := 1 } :: numbered 1 (ds.map DefSpec.line) ++
        [{ s := ['\n'], origin := ds.length + 2 }, { s := para, origin := ds.length + 3 }]) := by
    rw [numbered_append, List.map_cons, numbered_cons, numbered_cons, numbered_cons]
    simp [numbered]
  rw [hnum]
  have hla : LinesAre ({ s := d.line, origin := 1 } :: Props.C14.numbered 1 (ds.map DefSpec.line)) (d :: ds) := by
    simp [LinesAre, Props.C14.numbered_s]
  have := tokLoop_def_para cfg t hsel htp hpar d ds hok _ _ [] { s := ['\n'], origin := ds.length + 2 }
    { s := para, origin := ds.length + 3 } hla rfl hp 1 {} [] false gas
  simp only [List.length_nil] at this
  rw [this]
  have e1 : 1 + 0 + ds.length + 1 = ds.length + 2 := by omega
  have e2 : 1 + 0 + ds.length + 2 = ds.length + 3 := by omega
  simp [Props.C14.numbered_length, e1, e2]

/-! ## From the text of the document -/

open Mistletoe.Document Mistletoe.Html Mistletoe.Escape Mistletoe.Inline Mistletoe.InertInline

namespace DefSpec

/-- the line without its newline -/
def body (d : DefSpec) : Str :=
  '[' :: (d.lbl ++ ']' :: ':' :: ' ' :: (d.dest ++ (match d.title with | none => [] | some t => ' ' :: '"' :: (t ++ ['"']))))

theorem line_eq_body (d : DefSpec) : d.line = d.body ++ ['\n'] := by
  unfold line body tail
  cases d.title <;> simp

theorem body_noSep (d : DefSpec) (h : d.Ok) : ∀ c ∈ d.body, isLineSep c = false := by
  intro c hc
  have k : ∀ x ∈ ['[', ']', ':', ' ', '"'], isLineSep x = false := by decide
  unfold body at hc
  simp only [List.mem_cons, List.mem_append] at hc
  rcases hc with rfl | hc | rfl | rfl | rfl | hc | hc
  · exact k _ (by simp)
  · exact (lblCh_of c (h.hl c hc)).2.2.2
  · exact k _ (by simp)
  · exact k _ (by simp)
  · exact k _ (by simp)
  · exact (urlCh_scan c (h.hd c hc)).2.2.2.2.2
  · cases ht : d.title with
    | none => rw [ht] at hc; simp at hc
    | some t =>
      rw [ht] at hc
      simp only [List.mem_cons, List.mem_append, List.not_mem_nil, or_false] at hc
      rcases hc with rfl | rfl | hc | rfl
      · exact k _ (by simp)
      · exact k _ (by simp)
      · exact (titleCh_of c (h.ht t ht c hc)).2.2
      · exact k _ (by simp)

end DefSpec

theorem oneLine_snoc (body : Str) (h : ∀ c ∈ body, isLineSep c = false) : oneLine (body ++ ['\n']) = true := by
  simp only [oneLine, Bool.and_eq_true, beq_iff_eq, List.all_eq_true, Bool.not_eq_eq_eq_not, Bool.not_true]
  refine ⟨by simp, ?_⟩
  intro c hc
  rw [List.dropLast_concat] at hc
  exact h c hc

theorem defLine_oneLine (d : DefSpec) (h : d.Ok) : oneLine d.line = true := by
  rw [d.line_eq_body]; exact oneLine_snoc _ (d.body_noSep h)

/-- the paragraph line `pre[lbl]post` with its newline -/
def refLine (pre lbl post : Str) : Str := pre ++ ['['] ++ lbl ++ [']'] ++ post ++ ['\n']

/-- the document: `k` definition lines, an empty line, the paragraph line -/
def defsText (ds : List DefSpec) (pre lbl post : Str) : Str := linesOf ds ++ '\n' :: refLine pre lbl post

theorem refLine_oneLine (pre lbl post : Str) (h : ∀ c ∈ pre ++ lbl ++ post, isLineSep c = false) :
    oneLine (refLine pre lbl post) = true := by
  apply oneLine_snoc
  intro c hc
  have k : ∀ x ∈ ['[', ']'], isLineSep x = false := by decide
  simp only [List.mem_append, List.mem_cons, List.not_mem_nil, or_false] at hc h
  rcases hc with (((hc | rfl) | hc) | rfl) | hc
  · exact h c (Or.inl (Or.inl hc))
  · exact k _ (by simp)
  · exact h c (Or.inl (Or.inr hc))
  · exact k _ (by simp)
  · exact h c (Or.inr hc)

/-- **`Document.__init__` splits the text into the `k` definition lines, the empty line and the paragraph line** -/
theorem normalize_defsText (ds : List DefSpec) (hok : ∀ x ∈ ds, x.Ok) (pre lbl post : Str)
    (hsep : ∀ c ∈ pre ++ lbl ++ post, isLineSep c = false) :
    Lines.normalize (.str (defsText ds pre lbl post)) = ds.map DefSpec.line ++ [['\n'], refLine pre lbl post] := by
  have e : defsText ds pre lbl post = (ds.map DefSpec.line ++ [['\n'], refLine pre lbl post]).flatten := by
    simp [defsText, linesOf]
  rw [e]
  apply normalize_lines
  intro l hl
  simp only [List.mem_append, List.mem_map, List.mem_cons, List.not_mem_nil, or_false] at hl
  rcases hl with ⟨d, hd, rfl⟩ | rfl | rfl
  · exact defLine_oneLine d (hok d hd)
  · decide
  · exact refLine_oneLine pre lbl post hsep

/-- the block-token list of the HTML renderer's configuration (regenerated from the working tree) is the default list -/
theorem html_block_types (cfg : Document.Cfg) (hcfg : Config.html = some cfg) : cfg.block.types = Props.C14.defaultTypes := by
  have := Props.C14.C14_config_current.1
  rw [hcfg] at this
  simpa using this

/-- **The block phase of the document under the HTML renderer's configuration** -/
theorem blockPhase_defsText (cfg : Document.Cfg) (hcfg : Config.html = some cfg) (gas : Nat) (hg : 14 ≤ gas)
    (d : DefSpec) (ds : List DefSpec) (hok : ∀ x ∈ d :: ds, x.Ok) (pre lbl post : Str)
    (hsep : ∀ c ∈ pre ++ lbl ++ post, isLineSep c = false) (hin : Props.C14.inertLine (refLine pre lbl post) = true) :
    blockPhase cfg.block gas (Lines.normalize (.str (defsText (d :: ds) pre lbl post))) =
      .ok ({ entries := [.footnote ((d :: ds).map DefSpec.fnMatch) 1 1,
                         .paragraph [refLine pre lbl post] (ds.length + 3) (ds.length + 3)], loose := true },
           { defs := (d :: ds).map DefSpec.fnMatch }) := by
  have hT := html_block_types cfg hcfg
  obtain ⟨g, rfl⟩ : ∃ g, gas = g + 14 := ⟨gas - 14, by omega⟩
  have hb := blockPhase_def_para cfg.block .footnote (by rw [hT]; decide) (by decide) (by rw [hT]; decide) d ds hok
    (refLine pre lbl post) hin g
  have hc : cfg.block.types.contains .blankLine = false := by rw [hT]; decide
  have hlen : cfg.block.types.length + 4 = 14 := by rw [hT]; rfl
  rw [hlen, hc] at hb
  rw [normalize_defsText (d :: ds) hok pre lbl post hsep, hb]
  simp [defEntry]

/-! ## C07 at document level without the block-phase hypothesis -/

theorem docText_eq (defLbl dest pre lbl post : Str) :
    docText defLbl dest pre lbl post = defsText [{ lbl := defLbl, dest := dest }] pre lbl post := by
  have e1 : "]: ".toList = [']', ':', ' '] := rfl
  have e2 : "\n\n".toList = ['\n', '\n'] := rfl
  simp [docText, defsText, linesOf, DefSpec.line, DefSpec.tail, refLine, e1, e2]

/-- **The hypothesis `hbp` of `C07_shortcut_document_text` holds** for a label of label characters, a non-empty URL-safe
    destination, text without line boundary characters and an inert paragraph line. -/
theorem blockPhaseIs_def (cfg : Document.Cfg) (hcfg : Config.html = some cfg) (gas : Nat) (hg : 14 ≤ gas)
    (defLbl dest pre lbl post : Str) (hlb : ∀ c ∈ defLbl, lblCh c = true) (hnb : isBlank defLbl = false)
    (hd : ∀ c ∈ dest, urlCh c = true) (hne : dest ≠ [])
    (hsep : ∀ c ∈ pre ++ lbl ++ post, isLineSep c = false)
    (hin : Props.C14.inertLine (pre ++ ['['] ++ lbl ++ [']'] ++ post ++ ['\n']) = true) :
    blockPhaseIs cfg.block gas (Lines.normalize (.str (docText defLbl dest pre lbl post)))
      { label := defLbl, dest := dest, title := [], destType := "uri".toList, titleDelim := none }
      (pre ++ ['['] ++ lbl ++ [']'] ++ post ++ ['\n']) = true := by
  have hok : ∀ x ∈ [({ lbl := defLbl, dest := dest } : DefSpec)], x.Ok := by
    intro x hx
    simp only [List.mem_singleton] at hx
    subst hx
    exact ⟨hlb, hnb, hd, hne, by intro t ht; cases ht⟩
  unfold blockPhaseIs
  rw [docText_eq, blockPhase_defsText cfg hcfg gas hg _ [] hok pre lbl post hsep hin]
  simp [isDefPara, DefSpec.fnMatch, refLine]

/-- **`C07_shortcut_document_text` without the hypothesis about the block phase.**  The document `[defLbl]: dest`, an empty
    line, `pre[lbl]post` under the HTML renderer's configuration renders `<p>pre<a href="dest">lbl</a>post</p>` when the two
    labels are equal after normalisation and `<p>pre[lbl]post</p>` otherwise.  Hypotheses: gas ≥ 14; `defLbl` consists of
    label characters and is not blank; `dest` is URL-safe and not empty; `pre`, `lbl`, `post` as in `DocText`, without line
    boundary characters, no whitespace at the two ends of the line; the paragraph line is block-inert (`inertLine`: e.g.
    `pre` begins with a letter, `paraLine_inert`). -/
theorem C07_shortcut_document_text_full (cfg : Document.Cfg) (hcfg : Config.html = some cfg) (gas : Nat) (hg : 14 ≤ gas)
    (defLbl dest pre lbl post : Str) (hlb : ∀ c ∈ defLbl, lblCh c = true) (hnb : isBlank defLbl = false)
    (hd : ∀ c ∈ dest, urlCh c = true) (hne : dest ≠ []) (htext : DocText pre lbl post)
    (hh : ∀ c, pre.head? = some c → pyIsSpace c = false) (hl : ∀ c, post.getLast? = some c → pyIsSpace c = false)
    (hsep : ∀ c ∈ pre ++ lbl ++ post, isLineSep c = false)
    (hin : Props.C14.inertLine (pre ++ ['['] ++ lbl ++ [']'] ++ post ++ ['\n']) = true) (o : Opts) :
    Config.renderHtml o gas (docText defLbl dest pre lbl post) =
      some (if Footnotes.normalizeLabel defLbl = Footnotes.normalizeLabel lbl
        then "<p>".toList ++ pre ++ "<a href=\"".toList ++ dest ++ "\">".toList ++ lbl ++ "</a>".toList ++ post ++ "</p>\n".toList
        else "<p>".toList ++ pre ++ ['['] ++ lbl ++ [']'] ++ post ++ "</p>\n".toList) :=
  C07_shortcut_document_text cfg hcfg gas defLbl dest pre lbl post hd htext hh hl
    (blockPhaseIs_def cfg hcfg gas hg defLbl dest pre lbl post hlb hnb hd hne hsep hin) o

/-- a paragraph line whose text begins with an ASCII letter is block-inert -/
theorem paraLine_inert (c : Char) (r lbl post : Str) (hc : isAlpha c = true) :
    Props.C14.inertLine ((c :: r) ++ ['['] ++ lbl ++ [']'] ++ post ++ ['\n']) = true := by
  have := Props.C14.C14_inert_of_plain 0 c (r ++ ['['] ++ lbl ++ [']'] ++ post ++ ['\n']) (by omega) hc
  simpa using this

/-! ## Titles and several definitions: the first matching definition of the run wins -/

/-- document-level condition on a title: no `&` (so that no character reference is decoded) -/
def DefSpec.NoAmp (d : DefSpec) : Prop := ∀ t, d.title = some t → '&' ∉ t

/-- the table built from `k` simple definitions is the first-wins table over (label, dest, title) as written -/
theorem defs_table (ds : List DefSpec) (hok : ∀ x ∈ ds, x.Ok) (hamp : ∀ x ∈ ds, x.NoAmp) :
    Document.footnotesOf (ds.map DefSpec.fnMatch) =
      Footnotes.footnotesOf (ds.map (fun x => (x.lbl, x.dest, x.title.getD []))) := by
  unfold Document.footnotesOf
  rw [List.map_map]
  congr 1
  apply List.map_congr_left
  intro x hx
  obtain ⟨d1, d2, _⟩ := dest_id x.dest (hok x hx).hd
  have ht : Unescape.escStrip false (x.title.getD []) = x.title.getD [] := by
    cases htt : x.title with
    | none => decide
    | some t =>
      simp only [Option.getD_some]
      exact escStrip_id false t (fun hm => (titleCh_of _ ((hok x hx).ht t htt _ hm)).1 rfl) (hamp x hx t htt)
  simp [DefSpec.fnMatch, d1, d2 false, ht]

/-- **the lookup finds the FIRST definition of the run whose label equals the reference's after normalisation** -/
theorem lookup_defs (ds : List DefSpec) (hok : ∀ x ∈ ds, x.Ok) (hamp : ∀ x ∈ ds, x.NoAmp) (lbl : Str) :
    Footnotes.lookup (Document.footnotesOf (ds.map DefSpec.fnMatch)) (Footnotes.normalizeLabel lbl) =
      (ds.find? (fun x => Footnotes.normalizeLabel x.lbl == Footnotes.normalizeLabel lbl)).map
        (fun x => (x.dest, x.title.getD [])) := by
  rw [defs_table ds hok hamp]
  have := Props.C07.C07_first_wins (ds.map (fun x => (x.lbl, x.dest, x.title.getD []))) lbl
  unfold Footnotes.resolve at this
  rw [this, List.find?_map, Option.map_map]
  rfl

/-- the ` title="…"` attribute as the HTML renderer writes it (nothing for an empty title) -/
def titleHtml (t : Str) : Str := if t.isEmpty then [] else " title=\"".toList ++ htmlEscape t ++ ['"']

/-- the HTML of the paragraph `pre<a href="dest" title="…">lbl</a>post` -/
theorem render_link_paragraph (o : Opts) (pre lbl post dest title : Str) (ln : Nat) (fn : Footnotes.Table)
    (htext : DocText pre lbl post) (hd : ∀ c ∈ dest, urlCh c = true) :
    render o { kids := [.paragraph (rawOf pre ++ [.link dest title .shortcut none none [.rawText lbl]] ++ rawOf post) ln],
               footnotes := fn } =
      "<p>".toList ++ pre ++ "<a href=\"".toList ++ dest ++ ['"'] ++ titleHtml title ++ ['>'] ++ lbl ++ "</a>".toList ++
        post ++ "</p>\n".toList := by
  obtain ⟨_, _, d3⟩ := dest_id dest hd
  rw [render_one_paragraph]
  simp only [renderInlines_append, flat_append, flat_rawOf _ _ htext.hpre, flat_rawOf _ _ htext.hpost]
  by_cases he : title.isEmpty = true
  · simp [renderInlines, renderInline, flat, flatEv, flatAttrs, titleAttr, titleHtml, he, d3, textCh_escape _ _ lbl htext.hlbl]
  · simp [renderInlines, renderInline, flat, flatEv, flatAttrs, titleAttr, titleHtml, he, d3, textCh_escape _ _ lbl htext.hlbl]

/-- the HTML of the document: the link to the first matching definition, or the literal text -/
def refHtml (ds : List DefSpec) (pre lbl post : Str) : Str :=
  match ds.find? (fun x => Footnotes.normalizeLabel x.lbl == Footnotes.normalizeLabel lbl) with
  | some x => "<p>".toList ++ pre ++ "<a href=\"".toList ++ x.dest ++ ['"'] ++ titleHtml (x.title.getD []) ++ ['>'] ++ lbl ++
      "</a>".toList ++ post ++ "</p>\n".toList
  | none => "<p>".toList ++ pre ++ ['['] ++ lbl ++ [']'] ++ post ++ "</p>\n".toList

/-- **C07 for `k ≥ 1` simple definitions in a row (with or without titles), an empty line, `pre[lbl]post`** under the HTML
    renderer's configuration: the definitions produce no output; the reference becomes a link to the destination (and
    title) of the FIRST definition of the run whose label equals `lbl` after normalisation; with no such definition the
    text stays literal.  No hypothesis about the block phase. -/
theorem C07_defs_document (cfg : Document.Cfg) (hcfg : Config.html = some cfg) (gas : Nat) (hg : 14 ≤ gas)
    (d : DefSpec) (ds : List DefSpec) (hok : ∀ x ∈ d :: ds, x.Ok) (hamp : ∀ x ∈ d :: ds, x.NoAmp)
    (pre lbl post : Str) (htext : DocText pre lbl post)
    (hh : ∀ c, pre.head? = some c → pyIsSpace c = false) (hl : ∀ c, post.getLast? = some c → pyIsSpace c = false)
    (hsep : ∀ c ∈ pre ++ lbl ++ post, isLineSep c = false)
    (hin : Props.C14.inertLine (refLine pre lbl post) = true) (o : Opts) :
    Config.renderHtml o gas (defsText (d :: ds) pre lbl post) = some (refHtml (d :: ds) pre lbl post) := by
  obtain ⟨ht, hc⟩ := C07_config_covered cfg (Or.inl hcfg)
  have hb := blockPhase_defsText cfg hcfg gas hg d ds hok pre lbl post hsep hin
  have hline : strip (refLine pre lbl post) = pre ++ ['['] ++ lbl ++ [']'] ++ post := strip_ref_line pre lbl post hh hl
  have hlk := lookup_defs (d :: ds) hok hamp lbl
  have href := htext.ref
  unfold Config.renderHtml
  rw [hcfg]
  simp only [Document.parse, Document.parseLines, hb]
  unfold refHtml
  cases hf : (d :: ds).find? (fun x => Footnotes.normalizeLabel x.lbl == Footnotes.normalizeLabel lbl) with
  | some x =>
    have hx : x ∈ d :: ds := List.mem_of_find?_eq_some hf
    rw [hf] at hlk
    obtain ⟨d1, d2, _⟩ := dest_id x.dest (hok x hx).hd
    have e0 : Unescape.escStrip true (x.title.getD []) = x.title.getD [] := by
      cases htt : x.title with
      | none => decide
      | some t =>
        simp only [Option.getD_some]
        exact escStrip_id true t (fun hm => (titleCh_of _ ((hok x hx).ht t htt _ hm)).1 rfl) (hamp x hx t htt)
    have hin' := (shortcut_resolves cfg.span _ pre lbl post x.dest (x.title.getD []) href ht hc hlk).2
    rw [d1, d2 true, e0] at hin'
    have hmk : mkBlocks cfg (Document.footnotesOf ((d :: ds).map DefSpec.fnMatch))
        [.footnote ((d :: ds).map DefSpec.fnMatch) 1 1, .paragraph [refLine pre lbl post] (ds.length + 3) (ds.length + 3)] =
        .ok [.paragraph (rawOf pre ++ [.link x.dest (x.title.getD []) .shortcut none none [.rawText lbl]] ++ rawOf post)
          (ds.length + 3)] := by
      simp only [mkBlocks, mkBlock, inl, paragraph_content_one, hline, hin']
    rw [hmk]
    simp only [render_link_paragraph o pre lbl post x.dest _ _ _ htext (hok x hx).hd]
  | none =>
    rw [hf] at hlk
    have hin' := (shortcut_unresolved cfg.span _ pre lbl post href ht hlk).2
    have hmk : mkBlocks cfg (Document.footnotesOf ((d :: ds).map DefSpec.fnMatch))
        [.footnote ((d :: ds).map DefSpec.fnMatch) 1 1, .paragraph [refLine pre lbl post] (ds.length + 3) (ds.length + 3)] =
        .ok [.paragraph [.rawText (pre ++ ['['] ++ lbl ++ [']'] ++ post)] (ds.length + 3)] := by
      simp only [mkBlocks, mkBlock, inl, paragraph_content_one, hline, hin']
    rw [hmk]
    simp only [render_one_paragraph]
    have eb : ∀ dq sq, escapeHtmlText dq sq ['['] = ['['] ∧ escapeHtmlText dq sq [']'] = [']'] := by
      intro dq sq; cases dq <;> cases sq <;> decide
    simp only [renderInlines, renderInline, flat, flatEv, List.flatMap_cons, List.flatMap_nil, List.append_nil,
      escape_append, textCh_escape _ _ pre htext.hpre, textCh_escape _ _ lbl htext.hlbl,
      textCh_escape _ _ post htext.hpost, (eb _ _).1, (eb _ _).2]
    simp only [List.append_assoc]

/-- **one definition with a title**: `[defLbl]: dest "title"`, an empty line, `pre[lbl]post` renders
    `<p>pre<a href="dest" title="…">lbl</a>post</p>` (the title HTML-escaped by `html.escape`) when the labels are equal after
    normalisation, and the literal text otherwise.  Title characters: no backslash, `"`, `&`, line boundary; not empty. -/
theorem C07_shortcut_document_title (cfg : Document.Cfg) (hcfg : Config.html = some cfg) (gas : Nat) (hg : 14 ≤ gas)
    (defLbl dest title pre lbl post : Str) (hlb : ∀ c ∈ defLbl, lblCh c = true) (hnb : isBlank defLbl = false)
    (hd : ∀ c ∈ dest, urlCh c = true) (hne : dest ≠ [])
    (htt : ∀ c ∈ title, titleCh c = true) (hamp : '&' ∉ title) (htne : title ≠ []) (htext : DocText pre lbl post)
    (hh : ∀ c, pre.head? = some c → pyIsSpace c = false) (hl : ∀ c, post.getLast? = some c → pyIsSpace c = false)
    (hsep : ∀ c ∈ pre ++ lbl ++ post, isLineSep c = false)
    (hin : Props.C14.inertLine (pre ++ ['['] ++ lbl ++ [']'] ++ post ++ ['\n']) = true) (o : Opts) :
    Config.renderHtml o gas (['['] ++ defLbl ++ "]: ".toList ++ dest ++ " \"".toList ++ title ++ "\"\n\n".toList ++
        (pre ++ ['['] ++ lbl ++ [']'] ++ post ++ ['\n'])) =
      some (if Footnotes.normalizeLabel defLbl = Footnotes.normalizeLabel lbl
        then "<p>".toList ++ pre ++ "<a href=\"".toList ++ dest ++ "\" title=\"".toList ++ htmlEscape title ++ "\">".toList ++
          lbl ++ "</a>".toList ++ post ++ "</p>\n".toList
        else "<p>".toList ++ pre ++ ['['] ++ lbl ++ [']'] ++ post ++ "</p>\n".toList) := by
  have e1 : "]: ".toList = [']', ':', ' '] := rfl
  have e2 : " \"".toList = [' ', '"'] := rfl
  have e3 : "\"\n\n".toList = ['"', '\n', '\n'] := rfl
  have e : ['['] ++ defLbl ++ "]: ".toList ++ dest ++ " \"".toList ++ title ++ "\"\n\n".toList ++
        (pre ++ ['['] ++ lbl ++ [']'] ++ post ++ ['\n']) =
      defsText [{ lbl := defLbl, dest := dest, title := some title }] pre lbl post := by
    simp [defsText, linesOf, DefSpec.line, DefSpec.tail, refLine, e1, e2, e3]
  have hok : ∀ x ∈ [({ lbl := defLbl, dest := dest, title := some title } : DefSpec)], x.Ok := by
    intro x hx
    simp only [List.mem_singleton] at hx
    subst hx
    exact ⟨hlb, hnb, hd, hne, by intro t ht; cases ht; exact htt⟩
  have ha : ∀ x ∈ [({ lbl := defLbl, dest := dest, title := some title } : DefSpec)], x.NoAmp := by
    intro x hx
    simp only [List.mem_singleton] at hx
    subst hx
    intro t ht; cases ht; exact hamp
  rw [e, C07_defs_document cfg hcfg gas hg _ [] hok ha pre lbl post htext hh hl hsep hin o]
  have hte : title.isEmpty = false := by cases title with | nil => exact absurd rfl htne | cons _ _ => rfl
  have e4 : "\" title=\"".toList = '"' :: " title=\"".toList := rfl
  have e5 : "\">".toList = ['"', '>'] := rfl
  unfold refHtml
  by_cases hk : Footnotes.normalizeLabel defLbl = Footnotes.normalizeLabel lbl
  · simp [hk, titleHtml, hte, e4, e5]
  · simp [hk]

/-- **Two definitions in a row (one `Footnote.read` call reads both): the FIRST one wins.**  If the label of the first
    definition equals the reference's after normalisation, the link goes to the first destination (and title) - whatever
    the second definition is, in particular a second definition of the same label. -/
theorem C07_first_of_run_wins (cfg : Document.Cfg) (hcfg : Config.html = some cfg) (gas : Nat) (hg : 14 ≤ gas)
    (d₁ d₂ : DefSpec) (h₁ : d₁.Ok) (h₂ : d₂.Ok) (a₁ : d₁.NoAmp) (a₂ : d₂.NoAmp)
    (pre lbl post : Str) (htext : DocText pre lbl post)
    (hh : ∀ c, pre.head? = some c → pyIsSpace c = false) (hl : ∀ c, post.getLast? = some c → pyIsSpace c = false)
    (hsep : ∀ c ∈ pre ++ lbl ++ post, isLineSep c = false)
    (hin : Props.C14.inertLine (refLine pre lbl post) = true) (o : Opts)
    (hk : Footnotes.normalizeLabel d₁.lbl = Footnotes.normalizeLabel lbl) :
    Config.renderHtml o gas (d₁.line ++ d₂.line ++ '\n' :: refLine pre lbl post) =
      some ("<p>".toList ++ pre ++ "<a href=\"".toList ++ d₁.dest ++ ['"'] ++ titleHtml (d₁.title.getD []) ++ ['>'] ++ lbl ++
        "</a>".toList ++ post ++ "</p>\n".toList) := by
  have e : d₁.line ++ d₂.line ++ '\n' :: refLine pre lbl post = defsText [d₁, d₂] pre lbl post := by
    simp [defsText, linesOf]
  rw [e, C07_defs_document cfg hcfg gas hg d₁ [d₂] (by intro x hx; simp at hx; rcases hx with rfl | rfl <;> assumption)
    (by intro x hx; simp at hx; rcases hx with rfl | rfl <;> assumption) pre lbl post htext hh hl hsep hin o]
  unfold refHtml
  simp [hk]

/-- … and when only the second definition matches, the link goes to the second; when neither matches, the text is literal -/
theorem C07_second_of_run (cfg : Document.Cfg) (hcfg : Config.html = some cfg) (gas : Nat) (hg : 14 ≤ gas)
    (d₁ d₂ : DefSpec) (h₁ : d₁.Ok) (h₂ : d₂.Ok) (a₁ : d₁.NoAmp) (a₂ : d₂.NoAmp)
    (pre lbl post : Str) (htext : DocText pre lbl post)
    (hh : ∀ c, pre.head? = some c → pyIsSpace c = false) (hl : ∀ c, post.getLast? = some c → pyIsSpace c = false)
    (hsep : ∀ c ∈ pre ++ lbl ++ post, isLineSep c = false)
    (hin : Props.C14.inertLine (refLine pre lbl post) = true) (o : Opts)
    (hk : Footnotes.normalizeLabel d₁.lbl ≠ Footnotes.normalizeLabel lbl) :
    Config.renderHtml o gas (d₁.line ++ d₂.line ++ '\n' :: refLine pre lbl post) =
      some (if Footnotes.normalizeLabel d₂.lbl = Footnotes.normalizeLabel lbl
        then "<p>".toList ++ pre ++ "<a href=\"".toList ++ d₂.dest ++ ['"'] ++ titleHtml (d₂.title.getD []) ++ ['>'] ++ lbl ++
          "</a>".toList ++ post ++ "</p>\n".toList
        else "<p>".toList ++ pre ++ ['['] ++ lbl ++ [']'] ++ post ++ "</p>\n".toList) := by
  have e : d₁.line ++ d₂.line ++ '\n' :: refLine pre lbl post = defsText [d₁, d₂] pre lbl post := by
    simp [defsText, linesOf]
  rw [e, C07_defs_document cfg hcfg gas hg d₁ [d₂] (by intro x hx; simp at hx; rcases hx with rfl | rfl <;> assumption)
    (by intro x hx; simp at hx; rcases hx with rfl | rfl <;> assumption) pre lbl post htext hh hl hsep hin o]
  unfold refHtml
  by_cases hk2 : Footnotes.normalizeLabel d₂.lbl = Footnotes.normalizeLabel lbl
  · simp [hk, hk2]
  · simp [hk, hk2]

/-! ## Named forms of items 1 and 2 -/

/-- **`Footnote.read` on one simple definition line** followed by a blank line or the end of the buffer: exactly one match
    `(label, dest, title or "", "uri", '"' or None)`, consuming that one line -/
theorem footnote_line (d : DefSpec) (hd : d.Ok) (l : Line) (hl : l.s = d.line) (pre post : List Line) (start : Nat)
    (hb : ∀ b, post.head? = some b → isBlank b.s = true) :
    readFootnote ⟨pre ++ (l :: post), pre.length, start⟩ =
      .ok ([d.fnMatch], ⟨pre ++ (l :: post), pre.length + 1, start⟩) := by
  have := readFootnote_defs [d] (by intro x hx; simp at hx; subst hx; exact hd) [l] pre post start
    (by simp [LinesAre, hl]) hb
  simpa using this

/-- the default token types (`HtmlBlock` in front), either `tableInterrupt` -/
theorem blockPhase_def_para_default (ti : Bool) (d : DefSpec) (ds : List DefSpec) (hok : ∀ x ∈ d :: ds, x.Ok)
    (para : Str) (hp : Props.C14.inertLine para = true) (gas : Nat) :
    blockPhase { types := Props.C14.defaultTypes, tableInterrupt := ti } (gas + 14) ((d :: ds).map DefSpec.line ++ [['\n'], para]) =
      .ok ({ entries := [.footnote ((d :: ds).map DefSpec.fnMatch) 1 1, .paragraph [para] (ds.length + 3) (ds.length + 3)],
             loose := true }, { defs := (d :: ds).map DefSpec.fnMatch }) := by
  have := blockPhase_def_para { types := Props.C14.defaultTypes, tableInterrupt := ti } .footnote
    (show List.find? isDefOrPara Props.C14.defaultTypes = some .footnote by decide) (by decide)
    (show BTok.paragraph ∈ Props.C14.defaultTypes by decide) d ds hok para hp gas
  simpa [defEntry, Props.C14.defaultTypes] using this

/-- the Markdown renderer's token types, either `tableInterrupt`: a `LinkReferenceDefinitionBlock` entry, a `BlankLine`,
    the paragraph -/
theorem blockPhase_def_para_markdown (ti : Bool) (d : DefSpec) (ds : List DefSpec) (hok : ∀ x ∈ d :: ds, x.Ok)
    (para : Str) (hp : Props.C14.inertLine para = true) (gas : Nat) :
    blockPhase { types := Props.C14.markdownTypes, tableInterrupt := ti } (gas + 15) ((d :: ds).map DefSpec.line ++ [['\n'], para]) =
      .ok ({ entries := [.linkRefDefs ((d :: ds).map DefSpec.fnMatch) 1 1, .blankLine (ds.length + 2) (ds.length + 2),
                         .paragraph [para] (ds.length + 3) (ds.length + 3)],
             loose := false }, { defs := (d :: ds).map DefSpec.fnMatch }) := by
  have := blockPhase_def_para { types := Props.C14.markdownTypes, tableInterrupt := ti } .linkRefDefBlock
    (show List.find? isDefOrPara Props.C14.markdownTypes = some .linkRefDefBlock by decide) (by decide)
    (show BTok.paragraph ∈ Props.C14.markdownTypes by decide) d ds hok para hp gas
  simpa [defEntry, Props.C14.markdownTypes] using this

/-- the configurations of the working tree (`Config.html`, `Config.markdown`: token lists regenerated from /repo) -/
theorem blockPhase_def_para_current (d : DefSpec) (ds : List DefSpec) (hok : ∀ x ∈ d :: ds, x.Ok)
    (para : Str) (hp : Props.C14.inertLine para = true) (gas : Nat) :
    (∀ cfg, Config.html = some cfg →
      blockPhase cfg.block (gas + 14) ((d :: ds).map DefSpec.line ++ [['\n'], para]) =
        .ok ({ entries := [.footnote ((d :: ds).map DefSpec.fnMatch) 1 1, .paragraph [para] (ds.length + 3) (ds.length + 3)],
               loose := true }, { defs := (d :: ds).map DefSpec.fnMatch })) ∧
    (∀ cfg, Config.markdown = some cfg →
      blockPhase cfg.block (gas + 15) ((d :: ds).map DefSpec.line ++ [['\n'], para]) =
        .ok ({ entries := [.linkRefDefs ((d :: ds).map DefSpec.fnMatch) 1 1, .blankLine (ds.length + 2) (ds.length + 2),
                           .paragraph [para] (ds.length + 3) (ds.length + 3)],
               loose := false }, { defs := (d :: ds).map DefSpec.fnMatch })) := by
  constructor
  · intro cfg hcfg
    have hT := html_block_types cfg hcfg
    have e : cfg.block = { types := Props.C14.defaultTypes, tableInterrupt := cfg.block.tableInterrupt } := by
      rw [← hT]
    rw [e]
    exact blockPhase_def_para_default _ d ds hok para hp gas
  · intro cfg hcfg
    have hT : cfg.block.types = Props.C14.markdownTypes := by
      have := Props.C14.C14_config_current.2
      rw [hcfg] at this
      simpa using this
    have e : cfg.block = { types := Props.C14.markdownTypes, tableInterrupt := cfg.block.tableInterrupt } := by
      rw [← hT]
    rw [e]
    exact blockPhase_def_para_markdown _ d ds hok para hp gas

/-! ## Non-vacuity: instances, kernel evaluation of the model, the real code

  Real code (`cd /repo && /venv/bin/python -c "import mistletoe; print(repr(mistletoe.markdown(TEXT)))"`):
    `[Foo Bar]: /u\n\nsee [foo  bar] here\n`                 ↦ `<p>see <a href="/u">foo  bar</a> here</p>\n`
    `[Foo Bar]: /u "The <T>"\n\nsee [foo  bar] here\n`       ↦ `<p>see <a href="/u" title="The &lt;T&gt;">foo  bar</a> here</p>\n`
    `[foo]: /first\n[FOO]: /second "t"\n\nsee [Foo] here\n`  ↦ `<p>see <a href="/first">Foo</a> here</p>\n`
    `[foo]: /first\n[FOO]: /second "t"\n\nsee [Bar] here\n`  ↦ `<p>see [Bar] here</p>\n`
  - the strings the theorems below give. -/

section Examples

def dFoo : DefSpec := { lbl := L "Foo Bar", dest := L "/u" }
def dFooT : DefSpec := { lbl := L "Foo Bar", dest := L "/u", title := some (L "The <T>") }
def d1 : DefSpec := { lbl := L "foo", dest := L "/first" }
def d2 : DefSpec := { lbl := L "FOO", dest := L "/second", title := some (L "t") }

theorem demo_ok : dFoo.Ok ∧ dFooT.Ok ∧ d1.Ok ∧ d2.Ok :=
  ⟨DefSpec.ok_spec _ (by decide +kernel), DefSpec.ok_spec _ (by decide +kernel), DefSpec.ok_spec _ (by decide +kernel),
   DefSpec.ok_spec _ (by decide +kernel)⟩

theorem demo_noAmp : dFoo.NoAmp ∧ dFooT.NoAmp ∧ d1.NoAmp ∧ d2.NoAmp := by
  refine ⟨?_, ?_, ?_, ?_⟩ <;> intro t ht <;> cases ht <;> decide

/-- the side conditions are not trivially true: a backslash or a bracket in the label, a blank label, a destination with a
    parenthesis or empty, a `"` in the title -/
example : [({ lbl := L "a\\b", dest := L "/u" } : DefSpec), { lbl := L "a[b", dest := L "/u" }, { lbl := L "  ", dest := L "/u" },
    { lbl := L "a", dest := L "/u(1)" }, { lbl := L "a", dest := [] }, { lbl := L "a", dest := L "/u", title := some (L "x\"y") }].map
    DefSpec.ok = List.replicate 6 false := by decide +kernel

example : dFoo.line = L "[Foo Bar]: /u\n" ∧ dFooT.line = L "[Foo Bar]: /u \"The <T>\"\n" := by decide

/-- item 1, instance of `matchReference_def` (offset 0, end of the buffer) and the same by evaluation -/
example : matchReference (L "[Foo Bar]: /u\n") 0 =
    .ok (some (14, { label := L "Foo Bar", dest := L "/u", title := [], destType := L "uri", titleDelim := none })) := by
  have := matchReference_def dFoo demo_ok.1 [] [] nextOk_nil
  simpa [dFoo, DefSpec.line, DefSpec.tail, DefSpec.fnMatch, L] using this
example : matchReference (L "[Foo Bar]: /u\n") 0 =
    .ok (some (14, { label := L "Foo Bar", dest := L "/u", title := [], destType := L "uri", titleDelim := none })) := by
  decide +kernel
example : matchReference (L "[Foo Bar]: /u \"The <T>\"\n[x]: y\n") 0 =
    .ok (some (24, { label := L "Foo Bar", dest := L "/u", title := L "The <T>", destType := L "uri", titleDelim := some '"' })) := by
  decide +kernel
/-- second definition of a run: offset 14 -/
example : matchReference (dFoo.line ++ dFooT.line ++ []) dFoo.line.length = .ok (some (dFoo.line.length + dFooT.line.length, dFooT.fnMatch)) :=
  matchReference_def dFooT demo_ok.2.1 dFoo.line [] nextOk_nil

/-- item 2, instance of `blockPhase_def_para_default` and the same by evaluation -/
example : blockPhase { types := Props.C14.defaultTypes } 14 [L "[foo]: /first\n", L "[FOO]: /second \"t\"\n", L "\n", L "see [Foo] here\n"] =
    .ok ({ entries := [.footnote [d1.fnMatch, d2.fnMatch] 1 1, .paragraph [L "see [Foo] here\n"] 4 4], loose := true },
         { defs := [d1.fnMatch, d2.fnMatch] }) :=
  blockPhase_def_para_default true d1 [d2] (by intro x hx; simp at hx; rcases hx with rfl | rfl; exact demo_ok.2.2.1; exact demo_ok.2.2.2)
    (L "see [Foo] here\n") (by decide +kernel) 0
example : (match blockPhase { types := Props.C14.defaultTypes } 14 [L "[foo]: /first\n", L "[FOO]: /second \"t\"\n", L "\n", L "see [Foo] here\n"] with
    | .ok (⟨[.footnote ms 1 1, .paragraph [l] 4 4], true⟩, st) =>
      ms == [d1.fnMatch, d2.fnMatch] && l == L "see [Foo] here\n" && st.defs == [d1.fnMatch, d2.fnMatch]
    | _ => false) = true := by decide +kernel
/-- the Markdown renderer's token types -/
example : blockPhase { types := Props.C14.markdownTypes } 15 [L "[foo]: /first\n", L "\n", L "see [Foo] here\n"] =
    .ok ({ entries := [.linkRefDefs [d1.fnMatch] 1 1, .blankLine 2 2, .paragraph [L "see [Foo] here\n"] 3 3], loose := false },
         { defs := [d1.fnMatch] }) :=
  blockPhase_def_para_markdown true d1 [] (by intro x hx; simp at hx; subst hx; exact demo_ok.2.2.1)
    (L "see [Foo] here\n") (by decide +kernel) 0

theorem demo_text2 : DocText (L "see ") (L "foo  bar") (L " here") ∧ DocText (L "see ") (L "Foo") (L " here") ∧
    DocText (L "see ") (L "Bar") (L " here") :=
  ⟨⟨by decide, by decide, by decide +kernel, by decide, by decide⟩,
   ⟨by decide, by decide, by decide +kernel, by decide, by decide⟩,
   ⟨by decide, by decide, by decide +kernel, by decide, by decide⟩⟩

/-- item 3: `[Foo Bar]: /u\n\nsee [foo  bar] here\n`, instance of `C07_shortcut_document_text_full` (no block-phase hypothesis) -/
example : ∀ cfg, Config.html = some cfg → ∀ o : Opts,
    Config.renderHtml o 14 (L "[Foo Bar]: /u\n\nsee [foo  bar] here\n") =
      some (L "<p>see <a href=\"/u\">foo  bar</a> here</p>\n") := by
  intro cfg hcfg o
  have h := C07_shortcut_document_text_full cfg hcfg 14 (by omega) (L "Foo Bar") (L "/u") (L "see ") (L "foo  bar") (L " here")
    (by decide +kernel) (by decide +kernel) (by decide) (by decide) demo_text2.1 (by decide +kernel) (by decide +kernel)
    (by decide +kernel) (paraLine_inert 's' (L "ee ") _ _ (by decide)) o
  have hk : Footnotes.normalizeLabel (L "Foo Bar") = Footnotes.normalizeLabel (L "foo  bar") := by decide +kernel
  rw [if_pos hk] at h
  exact h

/-- with a title (instance of `C07_shortcut_document_title`); the title is HTML-escaped -/
example : ∀ cfg, Config.html = some cfg → ∀ o : Opts,
    Config.renderHtml o 14 (L "[Foo Bar]: /u \"The <T>\"\n\nsee [foo  bar] here\n") =
      some (L "<p>see <a href=\"/u\" title=\"The &lt;T&gt;\">foo  bar</a> here</p>\n") := by
  intro cfg hcfg o
  have h := C07_shortcut_document_title cfg hcfg 14 (by omega) (L "Foo Bar") (L "/u") (L "The <T>") (L "see ") (L "foo  bar") (L " here")
    (by decide +kernel) (by decide +kernel) (by decide) (by decide) (by decide +kernel) (by decide) (by decide) demo_text2.1
    (by decide +kernel) (by decide +kernel) (by decide +kernel) (paraLine_inert 's' (L "ee ") _ _ (by decide)) o
  have hk : Footnotes.normalizeLabel (L "Foo Bar") = Footnotes.normalizeLabel (L "foo  bar") := by decide +kernel
  rw [if_pos hk] at h
  have e : htmlEscape (L "The <T>") = L "The &lt;T&gt;" := by decide +kernel
  rw [e] at h
  exact h

/-- item 4: two definitions of the same label - the first wins (instance of `C07_first_of_run_wins`) -/
example : ∀ cfg, Config.html = some cfg → ∀ o : Opts,
    Config.renderHtml o 14 (L "[foo]: /first\n[FOO]: /second \"t\"\n\nsee [Foo] here\n") =
      some (L "<p>see <a href=\"/first\">Foo</a> here</p>\n") := by
  intro cfg hcfg o
  have h := C07_first_of_run_wins cfg hcfg 14 (by omega) d1 d2 demo_ok.2.2.1 demo_ok.2.2.2 demo_noAmp.2.2.1 demo_noAmp.2.2.2
    (L "see ") (L "Foo") (L " here") demo_text2.2.1 (by decide +kernel) (by decide +kernel) (by decide +kernel)
    (paraLine_inert 's' (L "ee ") _ _ (by decide)) o (by decide +kernel)
  exact h
/-- both labels are the reference's label after normalisation: it really is a duplicate -/
example : Footnotes.normalizeLabel d2.lbl = Footnotes.normalizeLabel (L "Foo") := by decide +kernel

/-- `[Bar]` matches neither: literal (instance of `C07_second_of_run`) -/
example : ∀ cfg, Config.html = some cfg → ∀ o : Opts,
    Config.renderHtml o 14 (L "[foo]: /first\n[FOO]: /second \"t\"\n\nsee [Bar] here\n") = some (L "<p>see [Bar] here</p>\n") := by
  intro cfg hcfg o
  have h := C07_second_of_run cfg hcfg 14 (by omega) d1 d2 demo_ok.2.2.1 demo_ok.2.2.2 demo_noAmp.2.2.1 demo_noAmp.2.2.2
    (L "see ") (L "Bar") (L " here") demo_text2.2.2 (by decide +kernel) (by decide +kernel) (by decide +kernel)
    (paraLine_inert 's' (L "ee ") _ _ (by decide)) o (by decide +kernel)
  have hk : ¬ Footnotes.normalizeLabel d2.lbl = Footnotes.normalizeLabel (L "Bar") := by decide +kernel
  rw [if_neg hk] at h
  exact h

/-- two of these documents by kernel evaluation of the whole model -/
example : [L "[Foo Bar]: /u \"The <T>\"\n\nsee [foo  bar] here\n", L "[foo]: /first\n[FOO]: /second \"t\"\n\nsee [Foo] here\n"].map
      (Config.renderHtml {} 14) =
    [some (L "<p>see <a href=\"/u\" title=\"The &lt;T&gt;\">foo  bar</a> here</p>\n"),
     some (L "<p>see <a href=\"/first\">Foo</a> here</p>\n")] := by decide +kernel

end Examples

end Mistletoe.DefLine
